use serde::{Deserialize, Serialize};
use std::collections::HashSet;
use std::hash::Hash;

#[derive(Serialize, Deserialize, Debug, Clone)]
pub struct RouterConfig {
    #[serde(default = "default_as_false")]
    pub ignore_host_case: bool,
    #[serde(default = "default_as_false")]
    pub ignore_header_case: bool,
    #[serde(default = "default_as_false")]
    pub ignore_path_and_query_case: bool,
    #[serde(default)]
    pub ignore_marketing_query_params: bool,
    #[serde(default = "default_marketing_parameters")]
    pub marketing_query_params: HashSet<String>,
    #[serde(default)]
    pub pass_marketing_query_params_to_target: bool,
    #[serde(default = "default_as_false")]
    pub always_match_any_host: bool,
}

impl Hash for RouterConfig {
    fn hash<H: std::hash::Hasher>(&self, state: &mut H) {
        self.ignore_host_case.hash(state);
        self.ignore_header_case.hash(state);
        self.ignore_path_and_query_case.hash(state);
        self.ignore_marketing_query_params.hash(state);
        self.pass_marketing_query_params_to_target.hash(state);
        self.always_match_any_host.hash(state);

        // order hash set to make sure it's always the same
        let mut marketing_query_params: Vec<String> = self.marketing_query_params.iter().cloned().collect();
        marketing_query_params.sort();

        marketing_query_params.hash(state);
    }
}

fn default_as_false() -> bool {
    false
}

fn default_marketing_parameters() -> HashSet<String> {
    let mut parameters = HashSet::new();

    parameters.insert("utm_source".to_string());
    parameters.insert("utm_medium".to_string());
    parameters.insert("utm_campaign".to_string());
    parameters.insert("utm_term".to_string());
    parameters.insert("utm_content".to_string());

    parameters
}

impl Default for RouterConfig {
    fn default() -> Self {
        let mut parameters = HashSet::new();

        parameters.insert("utm_source".to_string());
        parameters.insert("utm_medium".to_string());
        parameters.insert("utm_campaign".to_string());
        parameters.insert("utm_term".to_string());
        parameters.insert("utm_content".to_string());

        RouterConfig {
            ignore_host_case: false,
            ignore_header_case: false,
            ignore_path_and_query_case: false,
            ignore_marketing_query_params: true,
            marketing_query_params: parameters,
            pass_marketing_query_params_to_target: true,
            always_match_any_host: true,
        }
    }
}
