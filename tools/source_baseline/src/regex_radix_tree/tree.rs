use super::item::Item;
use super::trace::Trace;
#[cfg(feature = "dot")]
use crate::dot::DotBuilder;
use crate::regex_radix_tree::iter::{ItemIter, ItemIterMut};
#[cfg(feature = "dot")]
use dot_graph::Graph;

#[derive(Debug)]
pub struct RegexTreeMap<V> {
    pub(crate) root: Item<V>,
}

#[derive(Debug)]
pub struct UniqueRegexTreeMap<V> {
    pub(crate) tree: RegexTreeMap<V>,
}

impl<V> Clone for RegexTreeMap<V>
where
    V: Clone,
{
    fn clone(&self) -> Self {
        RegexTreeMap { root: self.root.clone() }
    }
}

impl<V> RegexTreeMap<V> {
    pub fn new(ignore_case: bool) -> Self {
        RegexTreeMap {
            root: Item::Empty(ignore_case),
        }
    }

    pub fn insert(&mut self, regex: &str, id: &str, item: V) {
        let mut root = Item::Empty(false);
        std::mem::swap(&mut self.root, &mut root);

        self.root = root.insert(regex, id.to_string(), item);
    }

    pub fn remove(&mut self, id: &str) -> Option<V> {
        let mut root = Item::Empty(false);
        std::mem::swap(&mut self.root, &mut root);
        let (new_root, removed) = root.remove(id);
        self.root = new_root;

        removed
    }

    pub fn retain<F>(&mut self, f: &F)
    where
        F: Fn(&str, &mut V) -> bool,
    {
        let mut root = Item::Empty(false);
        std::mem::swap(&mut self.root, &mut root);
        let root = root.retain(f);
        self.root = root;
    }

    pub fn len(&self) -> usize {
        self.root.len()
    }

    pub fn cached_len(&self) -> usize {
        self.root.cached_len()
    }

    pub fn is_empty(&self) -> bool {
        self.root.is_empty()
    }

    pub fn find(&self, haystack: &str) -> Vec<&V> {
        self.root.find(haystack)
    }

    pub fn get(&self, regex: &str) -> Vec<&V> {
        self.root.get(regex)
    }

    pub fn get_mut(&mut self, regex: &str) -> Vec<&mut V> {
        self.root.get_mut(regex)
    }

    pub fn cache(&mut self, limit: u64, level: Option<u64>) -> u64 {
        let mut left = limit;

        if let Some(level) = level {
            return self.root.cache(left, level, 0);
        }

        let mut cache_level = 0;

        while left > 0 {
            let new_left = self.root.cache(left, cache_level, 0);

            // If we did not cache anything, we can stop
            if new_left == left {
                break;
            }

            left = new_left;
            cache_level += 1;
        }

        left
    }

    pub fn trace(&self, haystack: &str) -> Trace<V> {
        self.root.trace(haystack)
    }

    pub fn iter(&self) -> ItemIter<'_, V> {
        self.root.iter()
    }

    pub fn iter_mut(&mut self) -> ItemIterMut<'_, V> {
        self.root.iter_mut()
    }
}

#[cfg(feature = "dot")]
impl<V> DotBuilder for RegexTreeMap<V>
where
    V: DotBuilder,
{
    fn graph(&self, id: &mut u32, graph: &mut Graph) -> Option<String> {
        self.root.graph(id, graph)
    }
}

impl<V> Clone for UniqueRegexTreeMap<V>
where
    V: Clone,
{
    fn clone(&self) -> Self {
        UniqueRegexTreeMap { tree: self.tree.clone() }
    }
}

impl<V> UniqueRegexTreeMap<V> {
    pub fn new(ignore_case: bool) -> Self {
        UniqueRegexTreeMap {
            tree: RegexTreeMap::new(ignore_case),
        }
    }

    pub fn insert(&mut self, regex: &str, item: V) {
        self.tree.insert(regex, regex, item);
    }

    pub fn remove(&mut self, regex: &str) -> Option<V> {
        self.tree.remove(regex)
    }

    pub fn retain<F>(&mut self, f: &F)
    where
        F: Fn(&str, &mut V) -> bool,
    {
        self.tree.retain(f)
    }

    pub fn len(&self) -> usize {
        self.tree.len()
    }

    pub fn is_empty(&self) -> bool {
        self.tree.is_empty()
    }

    pub fn find(&self, haystack: &str) -> Vec<&V> {
        self.tree.find(haystack)
    }

    pub fn get(&self, regex: &str) -> Option<&V> {
        self.tree.get(regex).pop()
    }

    pub fn get_mut(&mut self, regex: &str) -> Option<&mut V> {
        self.tree.get_mut(regex).pop()
    }

    pub fn cache(&mut self, limit: u64, level: Option<u64>) -> u64 {
        self.tree.cache(limit, level)
    }

    pub fn trace(&self, haystack: &str) -> Trace<V> {
        self.tree.trace(haystack)
    }

    pub fn iter(&self) -> ItemIter<'_, V> {
        self.tree.iter()
    }

    pub fn iter_mut(&mut self) -> ItemIterMut<'_, V> {
        self.tree.iter_mut()
    }
}

#[cfg(feature = "dot")]
impl<V> DotBuilder for UniqueRegexTreeMap<V>
where
    V: DotBuilder,
{
    fn graph(&self, id: &mut u32, graph: &mut Graph) -> Option<String> {
        self.tree.graph(id, graph)
    }
}

#[cfg(test)]
mod tests {
    use super::*;

    #[test]
    fn test_get_unique() {
        let mut tree = UniqueRegexTreeMap::<String>::new(false);
        tree.insert("/a/b", "tata".to_string());
        tree.insert("/b/a", "yolo".to_string());
        tree.insert("/a/b", "tutu".to_string());
        tree.insert("/a/b", "titi".to_string());
        tree.insert("/a/b", "tyty".to_string());
        tree.insert("/a/b", "toto".to_string());

        assert!(tree.find("test").is_empty());
        assert!(!tree.find("/a/b").is_empty());
        assert_eq!(tree.get("/a/b").unwrap(), "toto");

        assert_eq!(tree.len(), 2);
    }

    #[test]
    fn test_get_unique_update() {
        let mut tree = UniqueRegexTreeMap::<String>::new(false);
        tree.insert("/a/b", "tata".to_string());
        tree.insert("/b/a", "yolo".to_string());

        tree.get_mut("/a/b").unwrap().push_str("toto");

        assert!(tree.find("test").is_empty());
        assert!(!tree.find("/a/b").is_empty());
        assert_eq!(tree.get("/a/b").unwrap(), "tatatoto");

        assert_eq!(tree.len(), 2);
    }

    #[test]
    fn test_find_no_rule() {
        let tree = RegexTreeMap::<String>::new(false);

        assert!(tree.find("tata").is_empty());
        assert!(tree.find("test").is_empty());
        assert_eq!(tree.len(), 0);
    }

    #[test]
    fn test_find_one_rule() {
        let mut tree = RegexTreeMap::<String>::new(false);
        tree.insert("tata", "tata", "tata".to_string());

        assert!(!tree.find("tata").is_empty());
        assert!(tree.find("test").is_empty());
        assert_eq!(tree.len(), 1);
    }

    #[test]
    fn test_find_emoji_rule_regex() {
        let mut tree = RegexTreeMap::<String>::new(false);
        tree.insert("/emoji/(([\\p{Ll}]|\\-|➡️|🤘)+?)", "tata", "tata".to_string());

        assert!(!tree.find("/emoji/test").is_empty());
        assert!(!tree.find("/emoji/➡️").is_empty());
        assert!(!tree.find("/emoji/🤘").is_empty());
        assert!(tree.find("/not-emoji").is_empty());
        assert_eq!(tree.len(), 1);
    }

    #[test]
    fn test_find_multiple_rule_simple() {
        let mut tree = RegexTreeMap::<String>::new(false);
        tree.insert("/a/b", "tata", "tata".to_string());
        tree.insert("/a/b/c", "tata", "tata".to_string());
        tree.insert("/a/b/d", "tata", "tata".to_string());
        tree.insert("/b/a", "tata", "tata".to_string());

        assert!(!tree.find("/a/b").is_empty());
        assert!(!tree.find("/a/b/c").is_empty());
        assert!(!tree.find("/a/b/d").is_empty());
        assert!(!tree.find("/b/a").is_empty());

        assert!(tree.find("/b").is_empty());
        assert!(tree.find("/a").is_empty());
        assert!(tree.find("/no-match").is_empty());
        assert_eq!(tree.len(), 4);
    }

    #[test]
    fn test_find_rule_with_regex() {
        let mut tree = RegexTreeMap::<String>::new(false);
        tree.insert("/a/(.+?)/c", "tata", "tata".to_string());

        assert!(!tree.find("/a/b/c").is_empty());
        assert!(tree.find("/a/b/d").is_empty());
        assert!(tree.find("/a/b").is_empty());
        assert_eq!(tree.len(), 1);
    }

    #[test]
    fn test_find_multiple_rule_with_regex() {
        let mut tree = RegexTreeMap::<String>::new(false);
        tree.insert("/a/(.+?)/c", "tata", "tata".to_string());
        tree.insert("/a/(.+?)/b", "tata", "tata".to_string());

        assert!(!tree.find("/a/b/c").is_empty());
        assert!(tree.find("/a/b/d").is_empty());
        assert!(tree.find("/a/b").is_empty());
        assert!(!tree.find("/a/b/b").is_empty());
        assert!(!tree.find("/a/c/b").is_empty());
        assert!(tree.find("/a/c/d").is_empty());
        assert!(tree.find("/a/c/").is_empty());
        assert_eq!(tree.len(), 2);
    }

    #[test]
    fn test_find_multiple_rule_after_remove() {
        let mut tree = RegexTreeMap::<String>::new(false);
        tree.insert("/a/b", "1", "tata".to_string());
        tree.insert("/a/b/c", "2", "tata".to_string());
        tree.insert("/a/b/d", "3", "tata".to_string());
        tree.insert("/b/a", "4", "tata".to_string());

        assert!(!tree.find("/a/b").is_empty());
        assert!(!tree.find("/a/b/c").is_empty());
        assert_eq!(tree.len(), 4);

        tree.remove("1");

        assert!(tree.find("/a/b").is_empty());
        assert!(!tree.find("/a/b/c").is_empty());
        assert_eq!(tree.len(), 3);
    }

    #[test]
    fn test_find_emoji_weird_rule_regex() {
        let mut tree = RegexTreeMap::<String>::new(false);
        tree.insert("/string/from/(?:)", "1", "tata".to_string());
        tree.insert("/string\\-uppercase/from/(?:([\\p{Lu}\\p{Lt}])+?)", "2", "tata".to_string());
        tree.insert("/string\\-ending/from/(?:([\\p{Ll}]|\\-)+?JOHN\\-SNOW)", "3", "tata".to_string());
        tree.insert("/string\\-lowercase/from/(?:([\\p{Ll}])+?)", "4", "tata".to_string());
        tree.insert("/string\\-starting/from/(?:JOHN\\-SNOW([\\p{Ll}]|\\-)+?)", "5", "tata".to_string());
        tree.insert(
            "/string\\-lowercase\\-uppercase\\-digits/from/(?:([\\p{Ll}\\p{Lu}\\p{Lt}0-9])+?)",
            "6",
            "tata".to_string(),
        );
        tree.insert("/string\\-lowercase\\-uppercase\\-digits\\-allowPercentEncodedChars\\-specificCharacters/from/(?:([\\p{Ll}\\p{Lu}\\p{Lt}0-9]|\\-|\\.|\\(|\\)|%[0-9A-Z]{2})+?)", "7", "tata".to_string());
        tree.insert(
            "/string\\-starting\\-shit/from/(?:\\(\\[A\\-Z\\]\\)\\+([\\p{Ll}]|\\-)+?)",
            "8",
            "tata".to_string(),
        );
        tree.insert(
            "/string\\-lowercase\\-specificCharacters\\-emoji/from/(?:([\\p{Ll}]|\\-|🤘)+?)",
            "9",
            "tata".to_string(),
        );
        tree.insert(
            "/string\\-lowercase\\-digits\\-allowPercentEncodedChars/from/(?:([\\p{Ll}0-9]|%[0-9A-Z]{2})+?)",
            "10",
            "tata".to_string(),
        );
        tree.insert("/string\\-allowLowercaseAlphabet\\-specificCharacters\\-starting\\-containing/from/(?:JOHN\\-SNOW(([\\p{Ll}]|\\-)*?L33T([\\p{Ll}]|\\-)*?)+?)", "11", "tata".to_string());
        tree.insert(
            "/string\\-allowPercentEncodedChars/from/(?:(%[0-9A-Z]{2})+?)",
            "12",
            "tata".to_string(),
        );
        tree.insert("/string\\-containing/from/(?:(L33T)+?)", "13", "tata".to_string());
        tree.insert(
            "/string\\-specificCharacters/from/(?:(\\.|\\-|\\+|_|/)+?)",
            "14",
            "tata".to_string(),
        );
        tree.insert(
            "/string\\-specificCharacters\\-other/from/(?:(a|\\-|z)+?)",
            "15",
            "tata".to_string(),
        );

        assert!(!tree.find("/string-lowercase/from/coucou").is_empty());
        assert!(
            !tree
                .find("/string-lowercase-specificCharacters-emoji/from/you-rock-dude-🤘")
                .is_empty()
        );
    }
}
