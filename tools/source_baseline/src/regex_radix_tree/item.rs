use super::leaf::Leaf;
use super::node::Node;
#[cfg(feature = "dot")]
use crate::dot::DotBuilder;
use crate::regex_radix_tree::iter::{ItemIter, ItemIterMut};
#[cfg(feature = "dot")]
use dot_graph::Graph;

#[derive(Debug)]
pub enum Item<V> {
    Empty(bool),
    Node(Node<V>),
    Leaf(Leaf<V>),
}

impl<V> Clone for Item<V>
where
    V: Clone,
{
    fn clone(&self) -> Self {
        match self {
            Item::Empty(ignore_case) => Item::Empty(*ignore_case),
            Item::Node(node) => Item::Node(node.clone()),
            Item::Leaf(leaf) => Item::Leaf(leaf.clone()),
        }
    }
}

impl<V> Item<V> {
    /// Insert a new item into this node
    pub fn insert(self, regex: &str, id: String, item: V) -> Item<V> {
        match self {
            Item::Empty(ignore_case) => Item::Leaf(Leaf::new(regex, id, item, ignore_case)),
            Item::Node(node) => node.insert(regex, id, item),
            Item::Leaf(leaf) => leaf.insert(regex, id, item),
        }
    }

    /// Find values associated to this haystack
    pub fn find(&self, haystack: &str) -> Vec<&V> {
        match self {
            Item::Empty(_) => Vec::new(),
            Item::Node(node) => node.find(haystack),
            Item::Leaf(leaf) => leaf.find(haystack),
        }
    }

    pub fn get(&self, regex: &str) -> Vec<&V> {
        match self {
            Item::Empty(_) => Vec::new(),
            Item::Node(node) => node.get(regex),
            Item::Leaf(leaf) => leaf.get(regex),
        }
    }

    pub fn get_mut(&mut self, regex: &str) -> Vec<&mut V> {
        match self {
            Item::Empty(_) => Vec::new(),
            Item::Node(node) => node.get_mut(regex),
            Item::Leaf(leaf) => leaf.get_mut(regex),
        }
    }

    /// Remove an item on this tree
    ///
    /// This method returns true if there is no more data so it can be cleaned up
    pub fn remove(self, id: &str) -> (Self, Option<V>) {
        match self {
            Item::Empty(_) => (self, None),
            Item::Node(node) => node.remove(id),
            Item::Leaf(leaf) => leaf.remove(id),
        }
    }

    pub fn retain<F>(self, f: &F) -> Item<V>
    where
        F: Fn(&str, &mut V) -> bool,
    {
        match self {
            Item::Empty(_) => self,
            Item::Node(node) => node.retain(f),
            Item::Leaf(leaf) => leaf.retain(f),
        }
    }

    /// Length of node
    pub fn len(&self) -> usize {
        match self {
            Item::Empty(_) => 0,
            Item::Node(node) => node.len(),
            Item::Leaf(leaf) => leaf.len(),
        }
    }

    pub fn cached_len(&self) -> usize {
        match self {
            Item::Empty(_) => 0,
            Item::Node(node) => node.cached_len(),
            Item::Leaf(leaf) => leaf.cached_len(),
        }
    }

    pub fn is_empty(&self) -> bool {
        match self {
            Item::Empty(_) => true,
            Item::Node(node) => node.is_empty(),
            Item::Leaf(leaf) => leaf.is_empty(),
        }
    }

    pub fn regex(&self) -> &str {
        match self {
            Item::Empty(_) => "",
            Item::Node(node) => node.regex(),
            Item::Leaf(leaf) => leaf.regex(),
        }
    }

    pub fn iter(&self) -> ItemIter<'_, V> {
        ItemIter {
            children: std::slice::from_ref(self),
            parent: None,
            values: None,
        }
    }

    pub fn iter_mut(&mut self) -> ItemIterMut<'_, V> {
        ItemIterMut {
            children: std::slice::from_mut(self),
            parent: None,
            values: None,
        }
    }

    /// Cache current regex according to a limit and a level
    ///
    /// This method must return new limit of element cached (passed limit minus number of element cached)
    /// which allow other node to avoid caching extra node
    ///
    /// Implementation must not cache item if limit is equal to 0
    /// Implementation must not cache item if not caching on the current node level
    ///
    /// Level argument allow to build cache on first level of the tree by priority
    /// Implementation must retain at which level this node is build and not do any caching
    /// if we are not on the current level
    pub fn cache(&mut self, left: u64, cache_level: u64, current_level: u64) -> u64 {
        if left == 0 {
            return left;
        }

        if current_level > cache_level {
            return left;
        }

        match self {
            Item::Empty(_) => left,
            Item::Node(node) => node.cache(left, cache_level, current_level),
            Item::Leaf(leaf) => {
                if cache_level == current_level {
                    leaf.cache(left)
                } else {
                    left
                }
            }
        }
    }
}

#[cfg(feature = "dot")]
impl<V> DotBuilder for Item<V>
where
    V: DotBuilder,
{
    fn graph(&self, id: &mut u32, graph: &mut Graph) -> Option<String> {
        match self {
            Item::Empty(_) => None,
            Item::Node(node) => node.graph(id, graph),
            Item::Leaf(leaf) => leaf.graph(id, graph),
        }
    }
}
