use crate::regex_radix_tree::item::Item;
use std::collections::hash_map::{Values, ValuesMut};

pub struct ItemIter<'a, V> {
    pub(crate) children: &'a [Item<V>],
    pub(crate) parent: Option<Box<ItemIter<'a, V>>>,
    pub(crate) values: Option<Values<'a, String, V>>,
}

pub struct ItemIterMut<'a, V> {
    pub(crate) children: &'a mut [Item<V>],
    pub(crate) parent: Option<Box<ItemIterMut<'a, V>>>,
    pub(crate) values: Option<ValuesMut<'a, String, V>>,
}

impl<It> Default for ItemIter<'_, It> {
    fn default() -> Self {
        ItemIter {
            children: &[],
            parent: None,
            values: None,
        }
    }
}

impl<It> Default for ItemIterMut<'_, It> {
    fn default() -> Self {
        ItemIterMut {
            children: &mut [],
            parent: None,
            values: None,
        }
    }
}

impl<'a, V> Iterator for ItemIter<'a, V> {
    type Item = &'a V;

    fn next(&mut self) -> Option<Self::Item> {
        match &mut self.values {
            None => match self.children.first() {
                None => match self.parent.take() {
                    Some(parent) => {
                        // continue with the parent node
                        *self = *parent;
                        self.next()
                    }
                    None => None,
                },
                Some(Item::Empty(_)) => {
                    self.children = &self.children[1..];
                    self.next()
                }
                Some(Item::Leaf(item)) => {
                    self.children = &self.children[1..];
                    self.values = Some(item.values.values());

                    self.next()
                }
                Some(Item::Node(children)) => {
                    self.children = &self.children[1..];

                    // start iterating the child trees
                    *self = ItemIter {
                        children: children.children.as_slice(),
                        parent: Some(Box::new(std::mem::take(self))),
                        values: None,
                    };

                    self.next()
                }
            },
            Some(values) => match values.next() {
                None => {
                    self.values = None;
                    self.next()
                }
                Some(value) => Some(value),
            },
        }
    }
}

impl<'a, V> Iterator for ItemIterMut<'a, V> {
    type Item = &'a mut V;

    fn next(&mut self) -> Option<Self::Item> {
        match &mut self.values {
            None => {
                let children = std::mem::take(&mut self.children);

                match children.split_first_mut() {
                    None => match self.parent.take() {
                        Some(parent) => {
                            // continue with the parent node
                            *self = *parent;
                            self.next()
                        }
                        None => None,
                    },
                    Some((Item::Empty(_), children)) => {
                        self.children = children;
                        self.next()
                    }
                    Some((Item::Leaf(item), children)) => {
                        self.children = children;
                        self.values = Some(item.values.values_mut());

                        self.next()
                    }
                    Some((Item::Node(item), children)) => {
                        self.children = children;

                        // start iterating the child trees
                        *self = ItemIterMut {
                            children: item.children.as_mut_slice(),
                            parent: Some(Box::new(std::mem::take(self))),
                            values: None,
                        };

                        self.next()
                    }
                }
            }
            Some(values) => match values.next() {
                None => {
                    self.values = None;
                    self.next()
                }
                Some(value) => Some(value),
            },
        }
    }
}
