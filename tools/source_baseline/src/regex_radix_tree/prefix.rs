macro_rules! next_char_or_return {
    ($c:expr,$p:expr) => {
        match $c.next() {
            Some(char) => char,
            None => return $p,
        }
    };
}

pub fn common_prefix(left: &str, right: &str) -> String {
    let size = common_prefix_char_size(left, right);

    get_prefix_with_char_size(left, size)
}

pub fn common_prefix_char_size(left: &str, right: &str) -> u32 {
    let mut prefix_length = 0;
    let mut left_chars = left.chars();
    let mut right_chars = right.chars();
    let mut was_escape = false;
    let mut group_level = 0;
    let mut i = 0;

    loop {
        let left_char = next_char_or_return!(left_chars, prefix_length);
        let right_char = next_char_or_return!(right_chars, prefix_length);

        if left_char != right_char {
            return prefix_length;
        }

        if left_char == '(' && !was_escape {
            group_level += 1;
        } else if left_char == ')' && !was_escape {
            group_level -= 1;
        }

        if left_char == '\\' && !was_escape {
            was_escape = true;
        } else if was_escape {
            was_escape = false;
        }

        i += 1;

        if group_level == 0 && !was_escape {
            prefix_length = i;
        }
    }
}

pub fn get_prefix_with_char_size(str: &str, size: u32) -> String {
    if size == 0 {
        return "".to_string();
    }

    let mut chars = str.chars();
    let mut prefix = Vec::new();

    for _i in 0..size {
        match chars.next() {
            Some(char) => prefix.push(char),
            None => {
                return prefix.into_iter().collect();
            }
        }
    }

    prefix.into_iter().collect()
}
