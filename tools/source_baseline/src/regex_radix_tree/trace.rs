use super::item::Item;
use super::leaf::Leaf;
use super::node::Node;

#[derive(Debug, Clone)]
pub struct Trace<'a, V> {
    pub(crate) regex: String,
    pub(crate) count: u64,
    pub(crate) matched: bool,
    pub(crate) children: Vec<Trace<'a, V>>,
    pub(crate) values: Vec<&'a V>,
}

impl<V> Leaf<V> {
    pub fn trace(&self, haystack: &str) -> Trace<V> {
        let matched = self.regex.is_match(haystack);

        Trace {
            regex: self.regex.original.clone(),
            matched,
            count: self.values.len() as u64,
            children: Vec::new(),
            values: self.values.values().collect(),
        }
    }
}
impl<V> Node<V> {
    pub fn trace(&self, haystack: &str) -> Trace<V> {
        let mut children = Vec::new();
        let matched = self.regex.is_match(haystack);

        if matched {
            for child in &self.children {
                children.push(child.trace(haystack));
            }
        }

        Trace {
            regex: self.regex.original.clone(),
            matched,
            count: self.len() as u64,
            children,
            values: Vec::new(),
        }
    }
}

impl<V> Item<V> {
    pub fn trace(&self, haystack: &str) -> Trace<V> {
        match self {
            Item::Empty(_) => Trace {
                regex: "".to_string(),
                matched: true,
                count: 0,
                children: Vec::new(),
                values: Vec::new(),
            },
            Item::Node(node) => node.trace(haystack),
            Item::Leaf(leaf) => leaf.trace(haystack),
        }
    }
}
