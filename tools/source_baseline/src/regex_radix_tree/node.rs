use super::item::Item;
use super::leaf::Leaf;
use super::prefix::{common_prefix_char_size, get_prefix_with_char_size};
#[cfg(feature = "dot")]
use crate::dot::DotBuilder;
use crate::regex::LazyRegex;
#[cfg(feature = "dot")]
use dot_graph::{Edge, Graph, Node as GraphNode};
use std::sync::Arc;

#[derive(Debug)]
pub struct Node<V> {
    pub(crate) regex: Arc<LazyRegex>,
    pub(crate) children: Vec<Item<V>>,
}

impl<V> Clone for Node<V>
where
    V: Clone,
{
    fn clone(&self) -> Self {
        Node {
            regex: self.regex.clone(),
            children: self.children.clone(),
        }
    }
}

impl<V> Node<V> {
    /// Insert a new item into this node
    pub fn insert(mut self, regex: &str, id: String, item: V) -> Item<V> {
        let mut max_prefix_size = self.regex.original.chars().count() as u32;
        let prefix_size = common_prefix_char_size(regex, self.regex.original.as_str());

        if prefix_size < max_prefix_size {
            let prefix = get_prefix_with_char_size(self.regex.original.as_str(), prefix_size);

            let left = Item::Leaf(Leaf::new(regex, id, item, self.regex.ignore_case));

            return Item::Node(Node {
                regex: Arc::new(LazyRegex::new_node(prefix, self.regex.ignore_case)),
                children: vec![left, Item::Node(self)],
            });
        }

        let mut max_prefix_item = None;

        for i in 0..self.children.len() {
            let prefix_size = common_prefix_char_size(regex, self.children[i].regex());

            if prefix_size > max_prefix_size || (max_prefix_item.is_none() && self.children[i].regex() == regex) {
                max_prefix_size = prefix_size;
                max_prefix_item = Some(i);
            }
        }

        match max_prefix_item {
            Some(child_index) => {
                let mut children = self.children.remove(child_index);
                children = children.insert(regex, id, item);
                self.children.push(children);
            }
            None => {
                self.children.push(Item::Leaf(Leaf::new(regex, id, item, self.regex.ignore_case)));
            }
        }

        Item::Node(self)
    }

    /// Find values associated to this haystack
    pub fn find(&self, haystack: &str) -> Vec<&V> {
        let mut values = Vec::new();

        if self.regex.is_match(haystack) {
            for child in &self.children {
                values.extend(child.find(haystack));
            }
        }

        values
    }

    pub fn get(&self, regex: &str) -> Vec<&V> {
        let mut values = Vec::new();

        if regex.starts_with(self.regex.original.as_str()) {
            for child in &self.children {
                values.extend(child.get(regex));
            }
        }

        values
    }

    pub fn get_mut(&mut self, regex: &str) -> Vec<&mut V> {
        let mut values = Vec::new();

        if regex.starts_with(self.regex.original.as_str()) {
            for child in &mut self.children {
                values.extend(child.get_mut(regex));
            }
        }

        values
    }

    pub fn regex(&self) -> &str {
        self.regex.original.as_str()
    }

    /// Remove an item on this tree
    ///
    /// This method returns true if there is no more data so it can be cleaned up
    pub fn remove(mut self, id: &str) -> (Item<V>, Option<V>) {
        let mut removed = None;
        let mut children = Vec::new();

        for child in self.children {
            if removed.is_some() {
                children.push(child);
            } else {
                let (child, value) = child.remove(id);

                if value.is_some() {
                    removed = value;
                }

                if !child.is_empty() {
                    children.push(child);
                }
            }
        }

        if children.len() == 1 {
            return (children.pop().unwrap(), removed);
        }

        self.children = children;

        (Item::Node(self), removed)
    }

    pub fn retain<F>(mut self, f: &F) -> Item<V>
    where
        F: Fn(&str, &mut V) -> bool,
    {
        let mut children = Vec::new();

        for child in self.children {
            let child = child.retain(f);

            if !child.is_empty() {
                children.push(child);
            }
        }

        if children.is_empty() {
            return Item::Empty(self.regex.ignore_case);
        }

        if children.len() == 1 {
            return children.pop().unwrap();
        }

        self.children = children;

        Item::Node(self)
    }

    /// Length of node
    pub fn len(&self) -> usize {
        let mut count = 0;

        for child in &self.children {
            count += child.len();
        }

        count
    }

    /// Length of node
    pub fn cached_len(&self) -> usize {
        let mut count = 0;

        if self.regex.compiled.is_some() {
            count += 1;
        }

        for child in &self.children {
            count += child.cached_len();
        }

        count
    }

    pub fn is_empty(&self) -> bool {
        for child in &self.children {
            if !child.is_empty() {
                return false;
            }
        }

        true
    }

    /// Cache current regex according to a limit and a level
    ///
    /// This method must return new limit of element cached (passed limit minus number of element cached)
    /// which allow other node to avoid caching extra node
    ///
    /// Implementation must not cache item if limit is equal to 0
    /// Implementation must not cache item if not caching on the current node level
    ///
    /// Level argument allow to build cache on first level of the tree by priority
    /// Implementation must retain at which level this node is build and not do any caching
    /// if we are not on the current level
    pub fn cache(&mut self, mut left: u64, cache_level: u64, current_level: u64) -> u64 {
        // Already cached
        if cache_level == current_level && self.regex.compiled.is_none() {
            self.regex = Arc::new(self.regex.compile());

            if self.regex.compiled.is_some() {
                left -= 1;
            }
        }

        for child in &mut self.children {
            left = child.cache(left, cache_level, current_level + 1);
        }

        left
    }
}

#[cfg(feature = "dot")]
impl<V> DotBuilder for Node<V>
where
    V: DotBuilder,
{
    fn graph(&self, id: &mut u32, graph: &mut Graph) -> Option<String> {
        let node_name = format!("node_regex_{}", id);
        *id += 1;

        let mut node = GraphNode::new(&node_name).label(self.regex.original.as_str());

        if self.regex.compiled.is_some() {
            node = node.color(Some("green"));
        } else {
            node = node.color(Some("red"));
        }

        graph.add_node(node);

        for child in &self.children {
            if let Some(child) = child.graph(id, graph) {
                graph.add_edge(Edge::new(&node_name, &child, self.regex()));
            }
        }

        Some(node_name)
    }
}
