use super::item::Item;
use super::node::Node;
use super::prefix::common_prefix;
#[cfg(feature = "dot")]
use crate::dot::DotBuilder;
use crate::regex::LazyRegex;
#[cfg(feature = "dot")]
use dot_graph::{Edge, Graph, Node as GraphNode};
use std::collections::HashMap;
use std::sync::Arc;

#[derive(Debug)]
pub struct Leaf<V> {
    pub(crate) values: HashMap<String, V>,
    pub(crate) regex: Arc<LazyRegex>,
}

impl<V> Clone for Leaf<V>
where
    V: Clone,
{
    fn clone(&self) -> Self {
        Leaf {
            values: self.values.clone(),
            regex: self.regex.clone(),
        }
    }
}

impl<V> Leaf<V> {
    pub fn new(regex: &str, id: String, item: V, ignore_case: bool) -> Self {
        let mut values = HashMap::new();
        values.insert(id, item);

        Leaf {
            values,
            regex: Arc::new(LazyRegex::new_leaf(regex, ignore_case)),
        }
    }

    /// Insert a new item into this node
    pub fn insert(mut self, regex: &str, id: String, item: V) -> Item<V> {
        if regex == self.regex.original.as_str() {
            self.values.insert(id, item);

            return Item::Leaf(self);
        }

        let prefix = common_prefix(self.regex.original.as_str(), regex);
        let mut leaf_values = HashMap::new();
        leaf_values.insert(id, item);

        let leaf = Item::Leaf(Leaf {
            values: leaf_values,
            regex: Arc::new(LazyRegex::new_leaf(regex, self.regex.ignore_case)),
        });

        Item::Node(Node {
            regex: Arc::new(LazyRegex::new_node(prefix, self.regex.ignore_case)),
            children: vec![Item::Leaf(self), leaf],
        })
    }

    /// Find values associated to this haystack
    pub fn find(&self, haystack: &str) -> Vec<&V> {
        if self.regex.is_match(haystack) {
            return self.values.values().collect();
        }

        Vec::new()
    }

    pub fn get(&self, regex: &str) -> Vec<&V> {
        if self.regex.original.as_str() == regex {
            return self.values.values().collect();
        }

        Vec::new()
    }

    pub fn get_mut(&mut self, regex: &str) -> Vec<&mut V> {
        if self.regex.original.as_str() == regex {
            return self.values.values_mut().collect();
        }

        Vec::new()
    }

    /// Remove an item on this tree
    ///
    /// This method returns true if there is no more data so it can be cleaned up
    pub fn remove(mut self, id: &str) -> (Item<V>, Option<V>) {
        let removed = self.values.remove(id);

        match removed {
            None => (Item::Leaf(self), None),
            Some(value) => {
                if self.values.is_empty() {
                    (Item::Empty(self.regex.ignore_case), Some(value))
                } else {
                    (Item::Leaf(self), Some(value))
                }
            }
        }
    }
    pub fn retain<F>(mut self, f: &F) -> Item<V>
    where
        F: Fn(&str, &mut V) -> bool,
    {
        self.values.retain(|k, v| f(k, v));

        if self.values.is_empty() {
            Item::Empty(self.regex.ignore_case)
        } else {
            Item::Leaf(self)
        }
    }

    /// Length of node
    pub fn len(&self) -> usize {
        self.values.len()
    }

    pub fn cached_len(&self) -> usize {
        if self.regex.compiled.is_some() {
            return 1;
        }

        0
    }

    pub fn is_empty(&self) -> bool {
        self.values.is_empty()
    }

    pub fn regex(&self) -> &str {
        self.regex.original.as_str()
    }

    /// Cache current regex according to a limit and a level
    ///
    /// This method must return new limit of element cached (passed limit minus number of element cached)
    /// which allow other node to avoid caching extra node
    ///
    /// Implementation must not cache item if limit is equal to 0
    /// Implementation must not cache item if not caching on the current node level
    ///
    /// Level argument allow to build cache on first level of the tree by priority
    /// Implementation must retain at which level this node is build and not do any caching
    /// if we are not on the current level
    pub fn cache(&mut self, left: u64) -> u64 {
        // Already cached
        if self.regex.compiled.is_some() {
            return left;
        }

        self.regex = Arc::new(self.regex.compile());

        if self.regex.compiled.is_some() {
            return left - 1;
        }

        left
    }
}

#[cfg(feature = "dot")]
impl<V> DotBuilder for Leaf<V>
where
    V: DotBuilder,
{
    fn graph(&self, id: &mut u32, graph: &mut Graph) -> Option<String> {
        let node_name = format!("leaf_regex_{}", id);
        *id += 1;

        let mut node = GraphNode::new(&node_name).label(self.regex.original.as_str());

        if self.regex.compiled.is_some() {
            node = node.color(Some("green"));
        } else {
            node = node.color(Some("red"));
        }

        graph.add_node(node);

        for (key, value) in &self.values {
            if let Some(value_key) = value.graph(id, graph) {
                graph.add_edge(Edge::new(&node_name, &value_key, key));
            }
        }

        Some(node_name)
    }
}
