//! Read-only observation hooks for the verification harness (cargo feature `verif-hooks`).
//! Nothing here is compiled unless the feature is enabled.

use super::item::Item;
use super::prefix::{common_prefix_char_size, get_prefix_with_char_size};
use super::tree::{RegexTreeMap, UniqueRegexTreeMap};
use serde_json::{Value, json};

fn snapshot_item<V>(item: &Item<V>) -> Value {
    match item {
        Item::Empty(ignore_case) => json!({"kind": "empty", "ignore_case": ignore_case}),
        Item::Node(node) => json!({
            "kind": "node",
            "prefix": node.regex.original,
            "regex": node.regex.regex,
            "ignore_case": node.regex.ignore_case,
            "compiled": node.regex.compiled.is_some(),
            "compiled_regex": node.regex.compiled.as_ref().map(|r| r.as_str().to_string()),
            "children": node.children.iter().map(snapshot_item).collect::<Vec<Value>>(),
        }),
        Item::Leaf(leaf) => {
            let mut ids: Vec<&String> = leaf.values.keys().collect();
            ids.sort();

            json!({
                "kind": "leaf",
                "pattern": leaf.regex.original,
                "regex": leaf.regex.regex,
                "ignore_case": leaf.regex.ignore_case,
                "compiled": leaf.regex.compiled.is_some(),
                "compiled_regex": leaf.regex.compiled.as_ref().map(|r| r.as_str().to_string()),
                "ids": ids,
            })
        }
    }
}

impl<V> RegexTreeMap<V> {
    /// Structure dump of the tree: node prefixes, children order, leaf patterns and ids, compiled flags.
    pub fn verif_snapshot(&self) -> Value {
        snapshot_item(&self.root)
    }
}

impl<V> UniqueRegexTreeMap<V> {
    pub fn verif_snapshot(&self) -> Value {
        self.tree.verif_snapshot()
    }
}

pub fn verif_common_prefix_char_size(left: &str, right: &str) -> u32 {
    common_prefix_char_size(left, right)
}

pub fn verif_get_prefix_with_char_size(str: &str, size: u32) -> String {
    get_prefix_with_char_size(str, size)
}
