mod item;
mod iter;
mod leaf;
mod node;
mod prefix;
mod trace;
mod tree;
#[cfg(feature = "verif-hooks")]
mod verif;

pub use trace::Trace;
pub use tree::{RegexTreeMap, UniqueRegexTreeMap};
#[cfg(feature = "verif-hooks")]
pub use verif::{verif_common_prefix_char_size, verif_get_prefix_with_char_size};
