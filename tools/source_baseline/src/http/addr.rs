use std::net::{IpAddr, SocketAddr};
use std::str::FromStr;

pub struct Addr {
    pub addr: IpAddr,
    pub port: Option<u16>,
}

impl std::fmt::Display for Addr {
    fn fmt(&self, f: &mut std::fmt::Formatter<'_>) -> std::fmt::Result {
        let ipv = if self.addr.is_ipv4() { "4" } else { "6" };

        let hex = match self.addr {
            IpAddr::V4(addr) => u32::from(addr) as u128,
            IpAddr::V6(addr) => u128::from(addr),
        };

        match self.port {
            Some(p) => write!(f, "address: {}, port: {}, hex: {:x} (IPv{})", self.addr, p, hex, ipv),

            None => write!(f, "address: {}, port: N/A, hex: {:x} (IPv{}) ", self.addr, hex, ipv),
        }
    }
}

impl FromStr for Addr {
    type Err = ();

    fn from_str(s: &str) -> Result<Self, Self::Err> {
        let trimmed = s.trim_matches(|c| c == '\0' || c == '\n' || c == '\r' || c == '\t' || c == ' ');

        if let Ok(addr) = trimmed.parse::<IpAddr>() {
            Ok(Self { addr, port: None })
        } else if let Ok(sock) = trimmed.parse::<SocketAddr>() {
            Ok(Self {
                addr: sock.ip(),
                port: Some(sock.port()),
            })
        } else {
            Err(())
        }
    }
}

#[cfg(test)]
mod tests {
    use super::*;

    #[test]
    fn test_invalid() {
        let addr = "invalid".parse::<Addr>();

        assert!(addr.is_err());
    }

    #[test]
    fn test_ipv4_without_port() {
        let addr = "127.0.0.1".parse::<Addr>().unwrap();

        assert!(addr.addr.is_ipv4());
        assert!(addr.port.is_none());
        assert_eq!(addr.addr.to_string(), "127.0.0.1");
    }

    #[test]
    fn test_ipv4_with_null() {
        let addr = "127.0.0.1\0".parse::<Addr>().unwrap();

        assert!(addr.addr.is_ipv4());
        assert!(addr.port.is_none());
        assert_eq!(addr.addr.to_string(), "127.0.0.1");
    }

    #[test]
    fn test_ipv4_with_port() {
        let addr = "127.0.0.1:8080".parse::<Addr>().unwrap();

        assert!(addr.addr.is_ipv4());
        assert!(addr.port.is_some());
        assert_eq!(addr.port.unwrap(), 8080);
        assert_eq!(addr.addr.to_string(), "127.0.0.1");
    }

    #[test]
    fn test_ipv6_without_port() {
        let addr = "::1".parse::<Addr>().unwrap();

        assert!(addr.addr.is_ipv6());
        assert!(addr.port.is_none());
        assert_eq!(addr.addr.to_string(), "::1");
    }

    #[test]
    fn test_ipv6_with_port() {
        let addr = "[::1]:8080".parse::<Addr>().unwrap();

        assert!(addr.addr.is_ipv6());
        assert!(addr.port.is_some());
        assert_eq!(addr.port.unwrap(), 8080);
        assert_eq!(addr.addr.to_string(), "::1");
    }
}
