use http::HeaderMap;
use http::header::HeaderName;
use serde::{Deserialize, Serialize};

#[derive(Serialize, Deserialize, Debug, Clone, Hash)]
pub struct Header {
    pub name: String,
    pub value: String,
}

impl Header {
    pub fn create_header_map(headers: Vec<Header>) -> HeaderMap<String> {
        let mut header_map = HeaderMap::<String>::default();

        for header in headers {
            let name = match HeaderName::from_bytes(header.name.as_bytes()) {
                Ok(name) => name,
                Err(_) => {
                    log::error!("unable to create header name from: {}", header.name);

                    continue;
                }
            };

            if header_map.contains_key(&name) {
                header_map.append(name, header.value);
            } else {
                header_map.insert(name, header.value);
            }
        }

        header_map
    }
}
