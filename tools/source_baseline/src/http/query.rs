use crate::router_config::RouterConfig;
use http::uri::PathAndQuery;
use percent_encoding::{AsciiSet, CONTROLS, utf8_percent_encode};
use serde::{Deserialize, Serialize};
use std::collections::BTreeMap;
use url::form_urlencoded::parse as parse_query;

const URL_ENCODE_SET: &AsciiSet = &CONTROLS.add(b' ').add(b'"').add(b'#').add(b'<').add(b'>');
const QUERY_ENCODE_SET: &AsciiSet = &CONTROLS.add(b' ').add(b'"').add(b'#').add(b'<').add(b'>').add(b'+');

#[derive(Serialize, Deserialize, Debug, Clone, Hash)]
pub struct PathAndQueryWithSkipped {
    pub path_and_query: String,
    pub path_and_query_matching: Option<String>,
    pub skipped_query_params: Option<String>,
    pub original: String,
}

pub fn sanitize_url(path_and_query_str: &str) -> String {
    utf8_percent_encode(path_and_query_str, URL_ENCODE_SET).to_string()
}

impl PathAndQueryWithSkipped {
    pub fn from_static(path_and_query_str: &str) -> Self {
        let url = sanitize_url(path_and_query_str);

        Self {
            path_and_query_matching: Some(path_and_query_str.to_string()),
            path_and_query: url,
            original: path_and_query_str.to_string(),
            skipped_query_params: None,
        }
    }

    pub fn from_config(config: &RouterConfig, path_and_query_str: &str) -> Self {
        let url = sanitize_url(path_and_query_str);

        let path_and_query: PathAndQuery = match url.parse() {
            Ok(p) => p,
            Err(err) => {
                log::error!(
                    "cannot parse url '{}', cancel ignoring marketing query params: {}",
                    path_and_query_str,
                    err
                );

                return Self {
                    path_and_query_matching: Some(if config.ignore_path_and_query_case {
                        url.to_lowercase()
                    } else {
                        url.clone()
                    }),
                    path_and_query: url,
                    original: path_and_query_str.to_string(),
                    skipped_query_params: None,
                };
            }
        };

        let mut new_path_and_query = path_and_query.path().to_string();
        let mut skipped_query_params = "".to_string();

        if let Some(query) = path_and_query.query() {
            let hash_query: BTreeMap<_, _> = parse_query(query.as_bytes()).into_owned().collect();
            let mut query_string = "".to_string();

            for (key, value) in &hash_query {
                let mut query_param = "".to_string();

                query_param.push_str(&utf8_percent_encode(key, QUERY_ENCODE_SET).to_string());

                if !value.is_empty() {
                    query_param.push('=');
                    query_param.push_str(&utf8_percent_encode(value, QUERY_ENCODE_SET).to_string());
                }

                if config.ignore_marketing_query_params && config.marketing_query_params.contains(key) {
                    if !skipped_query_params.is_empty() {
                        skipped_query_params.push('&')
                    }

                    skipped_query_params.push_str(query_param.as_str())
                } else {
                    if !query_string.is_empty() {
                        query_string.push('&');
                    }

                    query_string.push_str(query_param.as_str())
                }
            }

            if !query_string.is_empty() {
                new_path_and_query.push('?');
                new_path_and_query.push_str(query_string.as_str());
            }
        }

        Self {
            path_and_query_matching: Some(if config.ignore_path_and_query_case {
                new_path_and_query.to_lowercase()
            } else {
                new_path_and_query.clone()
            }),
            path_and_query: new_path_and_query,
            original: path_and_query_str.to_string(),
            skipped_query_params: if config.pass_marketing_query_params_to_target && !skipped_query_params.is_empty() {
                Some(skipped_query_params)
            } else {
                None
            },
        }
    }
}

#[cfg(test)]
mod tests {
    use crate::http::query::sanitize_url;
    use http::uri::PathAndQuery;

    fn test_url(path: &str) {
        let sanitized = sanitize_url(path);
        let url = sanitized.parse::<PathAndQuery>();

        assert!(url.is_ok());
    }

    #[test]
    fn test_url_1() {
        test_url(
            "/npoplayer.html?tx_eonpo_npoplayer%5Bmid%5D=WO_EO_16582885&tx_eonpo_npoplayer%5Bhash%5D=45a69ca57ac8eee5025d45f06f9910f85fd9a0db814c590fg560293d<549880f&tx_eonpo_npoplayer%5Boverlay%5D=https%3A%2F%2Fblauwbloed.eo.nl%2Ffileadmin%2Fbestanden-2016%2Fuser_upload%2F2021-07%2FKoninklijk_gezin_fotosessie_zomer_2021.jpg&tx_eonpo_npoplayer%5Bhasadconsent%5D=0&tx_eonpo_npoplayer%5Breferralurl%5D=https%3A%2F%2Fblauwbloed.eo.nl%2Fartikel%2F2021%2F07%2Fkijk-de-eerste-foto-van-de-fotosessie-van-de-oranjes&tx_eonpo_npoplayer%5BsterSiteId%5D=blauwbloed&tx_eonpo_npoplayer%5BsterIdentifier%5D=blauwbloed-ios-smartphone&tx_eonpo_npoplayer%5BatinternetSiteId%5D=25&tx_eonpo_npoplayer%5BatinternetUserId%5D=287dbe14-d677-4b9b-8eeb-ecb389349db1&tx_eonpo_npoplayer%5BatinternetUserIdCookieDuration%5D=394",
        );
    }

    #[test]
    fn test_url_2() {
        test_url(
            "/fileadmin/bestanden-2016/_processed_/5/5/csm_Echte_vriendschap_Vanaf_de_eerste_dag_van_hun_studie_zijn_Inge_en_Julia_vrjendinnep_2_8260<c0281.jtg",
        );
    }
}
