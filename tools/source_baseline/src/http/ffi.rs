use crate::ffi_helpers::{c_char_to_str, string_to_c_char};
use crate::http::{Addr, Header, PathAndQueryWithSkipped, Request};
use crate::router_config::RouterConfig;
use serde_json::{from_str as json_decode, to_string as json_encode};
use std::os::raw::c_char;
use std::ptr::null;
use trusted_proxies::{Config, Trusted};

#[repr(C)]
#[derive(Debug)]
pub struct HeaderMap {
    name: *const c_char,
    value: *const c_char,
    next: *mut HeaderMap,
}

#[repr(C)]
pub struct TrustedProxies(*mut ());

pub fn http_headers_to_header_map(headers: Vec<Header>) -> *const HeaderMap {
    let mut current: *const HeaderMap = null();

    for header in &headers {
        current = Box::into_raw(Box::new(HeaderMap {
            name: string_to_c_char(header.name.clone()),
            value: string_to_c_char(header.value.clone()),
            next: current as *mut HeaderMap,
        }));
    }

    current
}

pub fn header_map_to_http_headers(header_map: *const HeaderMap) -> Vec<Header> {
    let mut headers = Vec::new();
    let mut current = header_map;

    while !current.is_null() {
        // Safety: current is a valid pointer to a HeaderMap
        let header = unsafe { &*current };
        current = header.next;

        let name = match c_char_to_str(header.name) {
            None => continue,
            Some(s) => s,
        };
        let value = match c_char_to_str(header.value) {
            None => continue,
            Some(s) => s,
        };

        headers.push(Header {
            name: name.to_string(),
            value: value.to_string(),
        });
    }

    headers
}

#[unsafe(no_mangle)]
pub extern "C" fn redirectionio_request_json_deserialize(str: *mut c_char) -> *const Request {
    let request_str = match c_char_to_str(str) {
        None => return null(),
        Some(str) => str,
    };

    let request = match json_decode(request_str) {
        Err(err) => {
            log::error!("cannot deserialize request {} for string {}", err, request_str);

            return null();
        }
        Ok(request) => request,
    };

    Box::into_raw(Box::new(request))
}

#[unsafe(no_mangle)]
/// # Safety
/// This function must be called with a valid pointer to Request or null pointer
pub unsafe extern "C" fn redirectionio_request_json_serialize(_request: *const Request) -> *const c_char {
    if _request.is_null() {
        return null();
    }

    let request = unsafe { &*_request };
    let request_serialized = match json_encode(request) {
        Err(_) => return null(),
        Ok(request_serialized) => request_serialized,
    };

    string_to_c_char(request_serialized)
}

#[unsafe(no_mangle)]
pub extern "C" fn redirectionio_request_create(
    _uri: *const c_char,
    _host: *const c_char,
    _scheme: *const c_char,
    _method: *const c_char,
    header_map: *const HeaderMap,
) -> *const Request {
    let uri = c_char_to_str(_uri).unwrap_or("/");
    let host = c_char_to_str(_host).map(|str| str.to_string());
    let scheme = c_char_to_str(_scheme).map(|str| str.to_string());
    let method = c_char_to_str(_method).map(|str| str.to_string());

    let config = RouterConfig::default();
    let mut request = Request::new(
        PathAndQueryWithSkipped::from_config(&config, uri),
        uri.to_string(),
        host,
        scheme,
        method,
        None,
        None,
    );
    let headers = header_map_to_http_headers(header_map);

    for header in headers {
        request.add_header(header.name, header.value, config.ignore_header_case);
    }

    Box::into_raw(Box::new(request))
}

#[unsafe(no_mangle)]
pub extern "C" fn redirectionio_trusted_proxies_create(_proxies_str: *const c_char) -> *const TrustedProxies {
    let mut trusted_proxies = Config::default();

    if let Some(proxies_str) = c_char_to_str(_proxies_str) {
        for proxy in proxies_str.split(',') {
            let proxy_norm = proxy.trim().to_string();

            if !proxy_norm.is_empty() {
                if let Err(e) = trusted_proxies.add_trusted_ip(proxy_norm.as_str()) {
                    log::warn!("cannot parse trusted proxy {}: {}", proxy_norm, e);
                }
            }
        }
    }

    Box::into_raw(Box::new(TrustedProxies(Box::into_raw(Box::new(trusted_proxies)) as *mut ())))
}

#[unsafe(no_mangle)]
/// # Safety
/// This function must be called with a valid pointer to TrustedProxies or null pointer
pub unsafe extern "C" fn redirectionio_trusted_proxies_add_proxy(_trusted_proxies: *mut TrustedProxies, _proxy_str: *const c_char) {
    if _trusted_proxies.is_null() {
        return;
    }

    let proxy_str = match c_char_to_str(_proxy_str).map(|str| str.to_string()) {
        None => return,
        Some(s) => s,
    };

    // Safety: _trusted_proxies is a valid pointer to a TrustedProxies
    let trusted_proxies = unsafe { &mut *_trusted_proxies };
    // Safety: trusted_proxies.0 is a valid pointer to a Config
    // It should be created once and never be freed, so it's safe to dereference it as it will never be freed
    let config = unsafe { &mut *(trusted_proxies.0 as *mut Config) };

    if let Err(e) = config.add_trusted_ip(proxy_str.as_str()) {
        log::warn!("cannot parse trusted proxy {}: {}", proxy_str, e);
    }
}

#[unsafe(no_mangle)]
/// # Safety
///
/// This function must be called with a valid pointer to Request or null pointer
/// and a valid pointer to TrustedProxies or null pointer
pub unsafe extern "C" fn redirectionio_request_set_remote_addr(
    _request: *mut Request,
    _remote_addr_str: *const c_char,
    _trusted_proxies: *const TrustedProxies,
) {
    if _request.is_null() {
        return;
    }

    // Safety: _request is a valid pointer to a Request
    let request = unsafe { &mut *_request };

    let remote_addr_str = match c_char_to_str(_remote_addr_str).map(|str| str.to_string()) {
        None => return,
        Some(s) => s,
    };

    let remote_addr = match remote_addr_str.parse::<Addr>() {
        Err(_) => {
            return;
        }
        Ok(addr) => addr,
    };

    let config = if _trusted_proxies.is_null() {
        &Config::default()
    } else {
        // Safety: _trusted_proxies is a valid pointer to a TrustedProxies
        let trusted_proxies = unsafe { &*_trusted_proxies };

        // SAFETY: trusted_proxies.0 is a valid pointer to a Config
        // It should be created once and never be freed, so it's safe to dereference it as it will never be freed
        unsafe { &*(trusted_proxies.0 as *mut Config) }
    };

    let trusted = Trusted::from(remote_addr.addr, request, config);

    request.set_remote_ip(trusted.ip());
}

#[unsafe(no_mangle)]
pub extern "C" fn redirectionio_request_from_str(_url: *const c_char) -> *const Request {
    let url = c_char_to_str(_url).unwrap_or("/");

    match url.parse::<Request>() {
        Err(err) => {
            log::error!("cannot create request for url {}: {}", url, err);

            null()
        }
        Ok(request) => Box::into_raw(Box::new(request)),
    }
}

#[unsafe(no_mangle)]
/// # Safety
///
/// This function must be called with a valid pointer to Request or null pointer
pub unsafe extern "C" fn redirectionio_request_drop(_request: *mut Request) {
    if _request.is_null() {
        return;
    }

    // Safety: _request is a valid pointer to a Request
    drop(unsafe { Box::from_raw(_request) });
}
