mod addr;
mod header;
mod query;
mod request;

#[cfg(not(target_arch = "wasm32"))]
pub mod ffi;

pub use addr::Addr;
pub use header::Header;
pub use query::PathAndQueryWithSkipped;
pub use query::sanitize_url;
pub use request::Request;
