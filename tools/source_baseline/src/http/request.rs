use super::header::Header;
use super::query::PathAndQueryWithSkipped;
#[cfg(feature = "router")]
use crate::api::Example;
#[cfg(feature = "router")]
use crate::http::sanitize_url;
#[cfg(feature = "router")]
use crate::router_config::RouterConfig;
use chrono::{DateTime, Utc};
#[cfg(feature = "router")]
use http::Error;
use percent_encoding::{AsciiSet, CONTROLS, utf8_percent_encode};
use serde::{Deserialize, Serialize};
use std::collections::BTreeMap;
use std::net::IpAddr;
use std::str::FromStr;
use trusted_proxies::RequestInformation;
use url::form_urlencoded::parse as parse_query;

const QUERY_ENCODE_SET: &AsciiSet = &CONTROLS.add(b' ').add(b'"').add(b'#').add(b'<').add(b'>');

#[derive(Serialize, Deserialize, Debug, Clone, Hash)]
pub struct Request {
    #[serde(rename = "path_and_query")]
    pub path_and_query_skipped: PathAndQueryWithSkipped,
    #[serde(rename = "path_and_query_v2")]
    pub path_and_query: Option<String>,
    pub host: Option<String>,
    pub scheme: Option<String>,
    pub method: Option<String>,
    pub headers: Vec<Header>,
    pub remote_addr: Option<IpAddr>,
    pub created_at: Option<DateTime<Utc>>,
    pub sampling_override: Option<bool>,
}

impl FromStr for Request {
    type Err = http::Error;

    fn from_str(s: &str) -> Result<Self, Self::Err> {
        let http_request = http::Request::<()>::builder().uri(s).method("GET").body(())?;
        let path_and_query_str = match http_request.uri().path_and_query() {
            None => "",
            Some(path_and_query) => path_and_query.as_str(),
        };

        Ok(Request::new(
            PathAndQueryWithSkipped::from_static(path_and_query_str),
            path_and_query_str.to_string(),
            http_request.uri().authority().map(|s| s.to_string()),
            http_request.uri().scheme_str().map(|s| s.to_string()),
            None,
            None,
            None,
        ))
    }
}

impl Request {
    pub fn new(
        path_and_query_skipped: PathAndQueryWithSkipped,
        path_and_query: String,
        host: Option<String>,
        scheme: Option<String>,
        method: Option<String>,
        remote_addr: Option<IpAddr>,
        sampling_override: Option<bool>,
    ) -> Request {
        Request {
            path_and_query_skipped,
            path_and_query: Some(path_and_query),
            host,
            scheme,
            method,
            headers: Vec::new(),
            remote_addr,
            created_at: Some(Utc::now()),
            sampling_override,
        }
    }

    #[cfg(feature = "router")]
    pub fn from_config(
        config: &RouterConfig,
        path_and_query: String,
        host: Option<String>,
        scheme: Option<String>,
        method: Option<String>,
        remote_addr: Option<IpAddr>,
        sampling_override: Option<bool>,
    ) -> Request {
        Request {
            path_and_query_skipped: PathAndQueryWithSkipped::from_config(config, path_and_query.as_str()),
            path_and_query: Some(path_and_query),
            host: host.map(|s| if config.ignore_host_case { s.to_lowercase() } else { s }),
            scheme,
            method,
            remote_addr,
            headers: Vec::new(),
            created_at: Some(Utc::now()),
            sampling_override,
        }
    }

    #[cfg(feature = "router")]
    pub fn from_example(router_config: &RouterConfig, example: &Example) -> Result<Self, Error> {
        let method = example.method.as_deref().unwrap_or("GET");
        let url = sanitize_url(example.url.as_str());
        let http_request = http::Request::<()>::builder().uri(url.as_str()).method(method).body(())?;
        let path_and_query_str = match http_request.uri().path_and_query() {
            None => "",
            Some(path_and_query) => path_and_query.as_str(),
        };

        let mut request = Request::from_config(
            router_config,
            path_and_query_str.to_string(),
            http_request.uri().authority().map(|s| s.to_string()),
            http_request.uri().scheme_str().map(|s| s.to_string()),
            example.method.clone(),
            None,
            None,
        );

        if let Some(headers) = &example.headers {
            for header in headers {
                request.add_header(header.name.clone(), header.value.clone(), false);
            }
        }

        if let Some(ip) = &example.ip_address {
            match IpAddr::from_str(ip) {
                Ok(remote_addr) => request.remote_addr = Some(remote_addr),
                Err(err) => {
                    log::error!("cannot parse ip address {}: {}", ip, err);
                }
            }
        }

        if let Some(datetime) = &example.datetime {
            request.set_created_at(Some(datetime.to_string()));
        }

        Ok(request)
    }

    #[cfg(feature = "router")]
    pub fn rebuild_with_config(config: &RouterConfig, request: &Request) -> Self {
        let original_url = match &request.path_and_query {
            Some(str) => str.as_str(),
            None => request.path_and_query_skipped.original.as_str(),
        };

        let path_and_query_skipped = PathAndQueryWithSkipped::from_config(config, original_url);
        let mut headers = Vec::new();

        for header in &request.headers {
            headers.push(Header {
                name: header.name.clone(),
                value: if config.ignore_header_case {
                    header.value.to_lowercase()
                } else {
                    header.value.clone()
                },
            });
        }

        Request {
            path_and_query_skipped,
            path_and_query: Some(original_url.to_string()),
            host: match &request.host {
                Some(host) => {
                    if config.ignore_host_case {
                        Some(host.to_lowercase())
                    } else {
                        Some(host.clone())
                    }
                }
                None => None,
            },
            scheme: request.scheme.clone(),
            method: request.method.clone(),
            headers,
            remote_addr: request.remote_addr,
            created_at: request.created_at,
            sampling_override: request.sampling_override,
        }
    }

    pub fn add_header(&mut self, name: String, value: String, ignore_case: bool) {
        self.headers.push(Header {
            name,
            value: if ignore_case { value.to_lowercase() } else { value },
        });
    }

    pub fn set_created_at(&mut self, created_at: Option<String>) {
        match created_at {
            None => (),
            Some(created_at) => match created_at.parse::<DateTime<Utc>>() {
                Ok(dt) => self.created_at = Some(dt),
                Err(err) => {
                    log::error!("cannot parse datetime {}: {}", created_at, err);
                }
            },
        };
    }

    pub fn method(&self) -> &str {
        match &self.method {
            None => "GET",
            Some(method) => method.as_str(),
        }
    }

    pub fn host(&self) -> Option<&str> {
        match &self.host {
            None => None,
            Some(host_str) => Some(host_str.as_str()),
        }
    }

    pub fn scheme(&self) -> Option<&str> {
        match &self.scheme {
            None => None,
            Some(scheme_str) => Some(scheme_str.as_str()),
        }
    }

    pub fn header_exists(&self, name: &str) -> bool {
        let lowercase_name = name.to_lowercase();

        for header in &self.headers {
            if header.name.to_lowercase() == lowercase_name {
                return true;
            }
        }

        false
    }

    pub fn set_remote_ip(&mut self, remote_ip: IpAddr) {
        self.remote_addr = Some(remote_ip);
    }

    pub fn header_values(&self, name: &str) -> Vec<&str> {
        let mut values = Vec::new();
        let lowercase_name = name.to_lowercase();

        for header in &self.headers {
            if header.name.to_lowercase() == lowercase_name {
                values.push(header.value.as_str());
            }
        }

        values
    }

    pub fn header_value(&self, name: &str) -> Option<String> {
        let values = self.header_values(name);

        if values.is_empty() { None } else { Some(values.join(",")) }
    }

    pub fn path_and_query(&self) -> String {
        match &self.path_and_query_skipped.path_and_query_matching {
            None => self.path_and_query_skipped.path_and_query.clone(),
            Some(path) => path.clone(),
        }
    }

    pub fn build_sorted_query(query: &str) -> Option<String> {
        let hash_query: BTreeMap<_, _> = parse_query(query.as_bytes()).into_owned().collect();

        let mut query_string = "".to_string();

        for (key, value) in &hash_query {
            query_string.push_str(&utf8_percent_encode(key, QUERY_ENCODE_SET).to_string());

            if !value.is_empty() {
                query_string.push('=');
                query_string.push_str(&utf8_percent_encode(value, QUERY_ENCODE_SET).to_string());
            }

            query_string.push('&');
        }

        query_string.pop();

        if query_string.is_empty() {
            return None;
        }

        Some(query_string)
    }
}

impl RequestInformation for Request {
    fn is_host_header_allowed(&self) -> bool {
        true
    }

    fn host_header(&self) -> Option<&str> {
        self.headers
            .iter()
            .find(|header| header.name.to_lowercase() == "host")
            .map(|header| header.value.as_str())
    }

    fn authority(&self) -> Option<&str> {
        self.host()
    }

    fn forwarded(&self) -> impl DoubleEndedIterator<Item = &str> {
        self.headers
            .iter()
            .filter(|header| header.name.to_lowercase() == "forwarded")
            .map(|header| header.value.as_str())
    }

    fn x_forwarded_for(&self) -> impl DoubleEndedIterator<Item = &str> {
        self.headers
            .iter()
            .filter(|header| header.name.to_lowercase() == "x-forwarded-for")
            .map(|header| header.value.as_str())
    }

    fn x_forwarded_host(&self) -> impl DoubleEndedIterator<Item = &str> {
        self.headers
            .iter()
            .filter(|header| header.name.to_lowercase() == "x-forwarded-host")
            .map(|header| header.value.as_str())
    }

    fn x_forwarded_proto(&self) -> impl DoubleEndedIterator<Item = &str> {
        self.headers
            .iter()
            .filter(|header| header.name.to_lowercase() == "x-forwarded-proto")
            .map(|header| header.value.as_str())
    }

    fn x_forwarded_by(&self) -> impl DoubleEndedIterator<Item = &str> {
        self.headers
            .iter()
            .filter(|header| header.name.to_lowercase() == "x-forwarded-by")
            .map(|header| header.value.as_str())
    }

    fn default_scheme(&self) -> Option<&str> {
        self.scheme()
    }
}
