use serde::{Deserialize, Serialize};

#[derive(Serialize, Deserialize, Debug, Clone)]
pub struct Header {
    #[serde(rename = "type")]
    pub kind: String,
    pub name: String,
    pub value: Option<String>,
}
