use crate::api::{BodyFilter, DateTimeConstraint, Example, HeaderFilter, IpConstraint, Marker, Source, Variable};
use crate::http::Request;
use crate::marker::{Marker as RouteMarker, MarkerString, StaticOrDynamic, Transform};
use crate::router::{IntoRoute, Route, RouteDateTime, RouteHeader, RouteHeaderKind, RouteIp, RouteTime, RouteWeekday};
use crate::router_config::RouterConfig;
use cidr::AnyIpCidr;
use percent_encoding::{AsciiSet, CONTROLS, utf8_percent_encode};
use serde::{Deserialize, Serialize};
use serde_json::from_str as json_decode;
use std::cmp::Ordering;
use std::collections::HashMap;

const SIMPLE_ENCODE_SET: &AsciiSet = CONTROLS;
const URL_ENCODE_SET: &AsciiSet = &CONTROLS.add(b' ').add(b'"').add(b'#').add(b'<').add(b'>');
const QUERY_ENCODE_SET: &AsciiSet = &CONTROLS.add(b' ').add(b'"').add(b'#').add(b'<').add(b'>').add(b'+');

#[derive(Serialize, Deserialize, Debug, Clone)]
pub struct Rule {
    pub id: String,
    pub source: Source,
    pub target: Option<String>,
    #[serde(alias = "redirect_code")]
    pub status_code: Option<u16>,
    pub rank: u16,
    #[serde(skip_serializing_if = "Vec::is_empty", default)]
    pub markers: Vec<Marker>,
    #[serde(skip_serializing_if = "Vec::is_empty", default)]
    pub variables: Vec<Variable>,
    pub body_filters: Option<Vec<BodyFilter>>,
    pub header_filters: Option<Vec<HeaderFilter>>,
    pub log_override: Option<bool>,
    pub reset: Option<bool>,
    pub stop: Option<bool>,
    pub examples: Option<Vec<Example>>,
    pub redirect_unit_id: Option<String>,
    pub configuration_log_unit_id: Option<String>,
    pub configuration_reset_unit_id: Option<String>,
    pub target_hash: Option<String>,
}

impl Ord for Rule {
    fn cmp(&self, other: &Self) -> Ordering {
        let order_on_rank = other.rank.cmp(&self.rank);

        if order_on_rank != Ordering::Equal {
            return order_on_rank;
        }

        other.id.cmp(&self.id)
    }
}

impl PartialOrd for Rule {
    fn partial_cmp(&self, other: &Self) -> Option<Ordering> {
        Some(self.cmp(other))
    }
}

impl PartialEq for Rule {
    fn eq(&self, other: &Self) -> bool {
        self.rank == other.rank && self.id == other.id
    }
}

impl Eq for Rule {}

impl Rule {
    pub fn from_json(rule_str: &str) -> Option<Rule> {
        let rule_result = json_decode(rule_str);

        if rule_result.is_err() {
            log::error!("Unable to create rule from string {}: {}", rule_str, rule_result.err().unwrap());

            return None;
        }

        Some(rule_result.unwrap())
    }

    pub fn variables(&self, markers_captured: &HashMap<String, String>, request: &Request) -> Vec<(String, String)> {
        let mut variables = Vec::new();
        let mut input = HashMap::new();

        for (name, value) in markers_captured {
            match self.get_marker(name.as_str()) {
                None => {
                    input.insert(name.clone(), value.clone());
                }
                Some(m) => {
                    input.insert(name.clone(), m.transform(value.clone()));
                }
            }
        }

        // Clone markers capture for bc break
        if self.variables.is_empty() {
            for (name, value) in &input {
                variables.push((name.clone(), value.clone()));
            }
        } else {
            for variable in &self.variables {
                variables.push((variable.name.clone(), variable.get_value(&input, request)));
            }
        }

        // Longest names first; names of equal length in a fixed order (the captured markers come out of a hash map)
        variables.sort_by(|(key_a, _), (key_b, _)| key_b.len().cmp(&key_a.len()).then_with(|| key_a.cmp(key_b)));

        variables
    }

    fn get_marker(&self, name: &str) -> Option<&Marker> {
        self.markers.iter().find(|m| m.name.as_str() == name)
    }

    fn markers(&self) -> Vec<RouteMarker> {
        let mut markers = Vec::new();

        for marker in &self.markers {
            let regex = utf8_percent_encode(marker.regex.as_str(), SIMPLE_ENCODE_SET).to_string();

            markers.push(RouteMarker::new(marker.name.clone(), regex));
        }

        markers
    }

    fn route_ips(&self) -> Option<Vec<RouteIp>> {
        match &self.source.ips {
            None => None,
            Some(ips) => {
                let mut route_ips = Vec::new();

                for ip in ips {
                    match ip {
                        IpConstraint::InRange(range) => match range.parse::<AnyIpCidr>() {
                            Ok(cidr) => route_ips.push(RouteIp::InRange(cidr)),
                            Err(err) => {
                                log::error!("cannot parse cidr {}: {}", range, err);
                            }
                        },
                        IpConstraint::NotInRange(range) => match range.parse::<AnyIpCidr>() {
                            Ok(cidr) => route_ips.push(RouteIp::NotInRange(cidr)),
                            Err(err) => {
                                log::error!("cannot parse cidr {}: {}", range, err);
                            }
                        },
                    }
                }

                if route_ips.is_empty() { None } else { Some(route_ips) }
            }
        }
    }

    fn route_datetimes(&self) -> Option<Vec<RouteDateTime>> {
        let mut route_datetimes = Vec::new();

        if let Some(source_datetimes) = self.source.datetime.as_ref() {
            for range in source_datetimes {
                let DateTimeConstraint(source_start, source_end) = range;
                route_datetimes.push(RouteDateTime::from_range(source_start, source_end));
            }
        }

        if route_datetimes.is_empty() { None } else { Some(route_datetimes) }
    }

    fn route_times(&self) -> Option<Vec<RouteTime>> {
        let mut route_times = Vec::new();

        if let Some(source_times) = self.source.time.as_ref() {
            for range in source_times {
                let DateTimeConstraint(source_start, source_end) = range;
                route_times.push(RouteTime::from_range(source_start, source_end));
            }
        }

        if route_times.is_empty() { None } else { Some(route_times) }
    }

    fn route_weekdays(&self) -> Option<RouteWeekday> {
        if let Some(source_weekdays) = self.source.weekdays.as_ref() {
            return RouteWeekday::from_weekdays(source_weekdays);
        }

        None
    }

    fn path_and_query(&self, ignore_case: bool) -> StaticOrDynamic {
        let markers = self.markers();

        let query = match self.source.query.clone() {
            None => None,
            Some(source_query) => Request::build_sorted_query(source_query.as_str()),
        };

        let mut path = utf8_percent_encode(self.source.path.as_str(), URL_ENCODE_SET).to_string();

        if let Some(query_string) = query {
            let query_string_encoded = utf8_percent_encode(query_string.as_str(), QUERY_ENCODE_SET).to_string();

            path.push_str(format!("?{query_string_encoded}").as_str());
        }

        StaticOrDynamic::new_with_markers(path.as_str(), markers, ignore_case)
    }

    fn host(&self, ignore_case: bool) -> Option<StaticOrDynamic> {
        Some(StaticOrDynamic::new_with_markers(
            self.source.host.as_ref()?.as_str(),
            self.markers(),
            ignore_case,
        ))
    }

    fn headers(&self, ignore_case: bool) -> Vec<RouteHeader> {
        let mut headers = Vec::new();

        if let Some(source_headers) = self.source.headers.as_ref() {
            for header in source_headers {
                headers.push(RouteHeader {
                    name: header.name.clone(),
                    kind: match header.kind.as_ref() {
                        "is_defined" => RouteHeaderKind::IsDefined,
                        "is_not_defined" => RouteHeaderKind::IsNotDefined,
                        "is_equals" => match &header.value {
                            None => continue,
                            Some(str) => RouteHeaderKind::IsEquals(if ignore_case { str.to_lowercase() } else { str.clone() }),
                        },
                        "is_not_equal_to" => match &header.value {
                            None => continue,
                            Some(str) => RouteHeaderKind::IsNotEqualTo(if ignore_case { str.to_lowercase() } else { str.clone() }),
                        },
                        "contains" => match &header.value {
                            None => continue,
                            Some(str) => RouteHeaderKind::Contains(if ignore_case { str.to_lowercase() } else { str.clone() }),
                        },
                        "does_not_contain" => match &header.value {
                            None => continue,
                            Some(str) => RouteHeaderKind::DoesNotContain(if ignore_case { str.to_lowercase() } else { str.clone() }),
                        },
                        "ends_with" => match &header.value {
                            None => continue,
                            Some(str) => RouteHeaderKind::EndsWith(if ignore_case { str.to_lowercase() } else { str.clone() }),
                        },
                        "starts_with" => match &header.value {
                            None => continue,
                            Some(str) => RouteHeaderKind::StartsWith(if ignore_case { str.to_lowercase() } else { str.clone() }),
                        },
                        "match_regex" => match &header.value {
                            None => continue,
                            Some(str) => match MarkerString::new(str, self.markers(), ignore_case) {
                                None => continue,
                                Some(marker) => RouteHeaderKind::MatchRegex(marker),
                            },
                        },
                        unknown => {
                            log::error!("unsupported header constraint type {}", unknown);

                            continue;
                        }
                    },
                })
            }
        }

        headers
    }
}

impl IntoRoute<Rule> for Rule {
    fn into_route(self, config: &RouterConfig) -> Route<Rule> {
        Route::new(
            self.source.methods.clone(),
            self.source.exclude_methods,
            self.source.scheme.clone(),
            self.host(config.ignore_host_case),
            self.path_and_query(config.ignore_path_and_query_case),
            self.headers(config.ignore_header_case),
            self.route_ips(),
            self.route_datetimes(),
            self.route_times(),
            self.route_weekdays(),
            self.id.clone(),
            0 - self.rank as i64,
            self,
        )
    }
}
