use serde::{Deserialize, Serialize};

#[derive(Serialize, Deserialize, Debug, Clone)]
pub struct DateTimeConstraint(pub Option<String>, pub Option<String>);
