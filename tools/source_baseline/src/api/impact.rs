use crate::action::{Action, UnitTrace};
use crate::api::redirection_loop::RedirectionLoop;
use crate::api::rules_message::RuleChangeSet;
use crate::api::{Example, Rule};
use crate::http::Header;
use crate::http::Request;
use crate::router::{Router, Trace};
use crate::router_config::RouterConfig;
use serde::{Deserialize, Serialize};
use std::sync::Arc;

// Input

#[derive(Deserialize, Debug, Clone)]
pub struct ImpactInput {
    pub router_config: RouterConfig,
    pub max_hops: u8,
    pub with_redirection_loop: bool,
    #[serde(default)]
    pub domains: Vec<String>,
    pub rule: Rule,
    pub action: String,
    pub rules: Vec<Rule>,
}

#[derive(Deserialize, Debug, Clone)]
pub struct ImpactProjectInput {
    pub max_hops: u8,
    pub with_redirection_loop: bool,
    #[serde(default)]
    pub domains: Vec<String>,
    pub rule: Rule,
    pub action: String,
    pub change_set: RuleChangeSet,
}

// Output

#[derive(Serialize, Debug, Clone, Default)]
pub struct ImpactOutput {
    pub impacts: Vec<Impact>,
}

#[derive(Serialize, Debug, Clone)]
pub struct Impact {
    example: Example,
    unit_trace: UnitTrace,
    backend_status_code: u16,
    response: Response,
    match_traces: Vec<Trace<Rule>>,
    error: Option<String>,
    redirection_loop: Option<RedirectionLoop>,
    should_log_request: bool,
}

#[derive(Serialize, Debug, Clone, Default)]
pub struct Response {
    pub status_code: u16,
    pub headers: Vec<Header>,
    pub body: String,
}

// Implementation

impl Impact {
    fn new_with_error(example: Example, error: String) -> Self {
        Impact {
            example,
            error: Some(error),
            unit_trace: UnitTrace::default(),
            backend_status_code: 0,
            response: Response::default(),
            redirection_loop: None,
            match_traces: Vec::new(),
            should_log_request: false,
        }
    }
}

impl ImpactOutput {
    pub fn from_impact_project(impact_input: ImpactProjectInput, existing_router: Arc<Router<Rule>>) -> ImpactOutput {
        let mut impact_router = impact_input.change_set.update_existing_router(existing_router.clone());
        let mut trace_unique_router = Router::<Rule>::from_arc_config(existing_router.config.clone());

        impact_router.remove(impact_input.rule.id.as_str());

        ImpactOutput::compute_impacts(
            &mut impact_router,
            &mut trace_unique_router,
            impact_input.rule.examples.clone(),
            impact_input.with_redirection_loop,
            impact_input.max_hops,
            impact_input.action.as_str(),
            impact_input.rule,
            impact_input.domains,
        )
    }

    pub fn create_result(impact_input: ImpactInput) -> ImpactOutput {
        let mut router = Router::<Rule>::from_config(impact_input.router_config.clone());
        let mut trace_unique_router = Router::<Rule>::from_config(impact_input.router_config.clone());

        for rule in impact_input.rules.iter() {
            // Even for a "add" action, we remove a potential previous version
            // of the rule. This occurs when adding a rule (still in draft) and
            // then editing it (still in add / draft). But we want the very last
            // version.
            if rule.id == impact_input.rule.id {
                continue;
            }
            router.insert(rule.clone());
        }

        ImpactOutput::compute_impacts(
            &mut router,
            &mut trace_unique_router,
            impact_input.rule.examples.clone(),
            impact_input.with_redirection_loop,
            impact_input.max_hops,
            impact_input.action.as_str(),
            impact_input.rule,
            impact_input.domains,
        )
    }

    #[allow(clippy::too_many_arguments)]
    fn compute_impacts(
        router: &mut Router<Rule>,
        trace_unique_router: &mut Router<Rule>,
        examples: Option<Vec<Example>>,
        with_redirection_loop: bool,
        max_hops: u8,
        action: &str,
        rule: Rule,
        project_domains: Vec<String>,
    ) -> ImpactOutput {
        if action == "add" || action == "update" {
            router.insert(rule.clone());
            trace_unique_router.insert(rule);
        }

        let mut impacts = Vec::new();

        if examples.is_none() {
            return ImpactOutput { impacts };
        }

        for example in examples.unwrap() {
            let request = match Request::from_example(&router.config, &example) {
                Ok(request) => request,
                Err(e) => {
                    impacts.push(Impact::new_with_error(
                        example.to_owned(),
                        format!("Cannot create query from example: {e}"),
                    ));

                    continue;
                }
            };

            let mut unit_trace = UnitTrace::default();

            let routes = router.match_request(&request);
            let mut action = Action::from_routes_rule(routes, &request, Some(&mut unit_trace));

            let example_status_code = example.response_status_code.unwrap_or(0);
            let (final_status_code, backend_status_code) =
                action.get_final_status_code_with_fallback(example_status_code, 200, &mut unit_trace);

            let headers = action.filter_headers(Vec::new(), backend_status_code, false, Some(&mut unit_trace));

            let mut body = "<!DOCTYPE html>
<html>
    <head>
    </head>
    <body>
    </body>
</html>";

            let mut b1;
            if let Some(mut body_filter) = action.create_filter_body(backend_status_code, &[]) {
                b1 = body_filter.filter(body.into(), Some(&mut unit_trace));
                let b2 = body_filter.end(Some(&mut unit_trace));
                b1.extend(b2);
                body = std::str::from_utf8(&b1).unwrap();
            }

            let should_log_request = action.should_log_request(true, final_status_code, Some(&mut unit_trace));

            unit_trace.squash_with_target_unit_traces();

            let redirection_loop = if with_redirection_loop {
                Some(RedirectionLoop::from_example(router, max_hops, &example, project_domains.clone()))
            } else {
                None
            };

            impacts.push(Impact {
                example: example.to_owned(),
                unit_trace,
                backend_status_code,
                response: Response {
                    status_code: final_status_code,
                    headers,
                    body: body.to_string(),
                },
                match_traces: trace_unique_router.trace_request(&request),
                error: None,
                redirection_loop,
                should_log_request,
            });
        }

        ImpactOutput { impacts }
    }
}
