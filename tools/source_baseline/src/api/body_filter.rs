use serde::{Deserialize, Serialize};

#[derive(Serialize, Deserialize, Debug, Clone)]
pub struct HTMLBodyFilter {
    pub action: String,
    pub value: String,
    pub inner_value: Option<String>,
    pub element_tree: Vec<String>,
    pub css_selector: Option<String>,
    pub id: Option<String>,
    pub target_hash: Option<String>,
}

#[derive(Serialize, Deserialize, Debug, Clone)]
pub struct TextBodyFilter {
    pub action: TextAction,
    pub content: String,
    pub id: Option<String>,
    pub target_hash: Option<String>,
}

#[derive(Serialize, Deserialize, Debug, Clone)]
pub enum TextAction {
    #[serde(rename = "append_text")]
    Append,
    #[serde(rename = "prepend_text")]
    Prepend,
    #[serde(rename = "replace_text")]
    Replace,
}

#[derive(Serialize, Deserialize, Debug, Clone)]
#[serde(untagged)]
pub enum BodyFilter {
    Text(TextBodyFilter),
    HTML(HTMLBodyFilter),
}
