use crate::{
    action::{Action, UnitTrace},
    http::{Header, Request},
    router::{Router, Trace},
    router_config::RouterConfig,
};
use std::sync::Arc;

use super::{Example, Rule};
use crate::api::redirection_loop::RedirectionLoop;
use crate::api::rules_message::RuleChangeSet;
use serde::{Deserialize, Serialize};

// Input

#[derive(Deserialize, Debug, Clone)]
pub struct ExplainRequestInput {
    pub router_config: RouterConfig,
    pub example: Example,
    pub rules: Vec<Rule>,
    pub max_hops: u8,
    #[serde(default)]
    pub project_domains: Vec<String>,
}

#[derive(Deserialize, Debug, Clone)]
pub struct ExplainRequestProjectInput {
    pub example: Example,
    pub change_set: RuleChangeSet,
    pub max_hops: u8,
    #[serde(default)]
    pub project_domains: Vec<String>,
}

// Output

#[derive(Serialize, Debug, Clone)]
pub struct ExplainRequestOutput {
    example: Example,
    unit_trace: UnitTrace,
    backend_status_code: u16,
    response: Response,
    match_traces: Vec<Trace<Rule>>,
    redirection_loop: Option<RedirectionLoop>,
    should_log_request: bool,
}

#[derive(Serialize, Debug, Clone, Default)]
pub struct Response {
    pub status_code: u16,
    pub headers: Vec<Header>,
    pub body: String,
}

#[derive(Serialize, Debug)]
pub struct ExplainRequestOutputError {
    pub message: String,
}

// Implementation

impl ExplainRequestOutput {
    pub fn create_result_from_project(
        explain_request_input: ExplainRequestProjectInput,
        existing_router: Arc<Router<Rule>>,
    ) -> Result<ExplainRequestOutput, ExplainRequestOutputError> {
        let explain_request_router = if explain_request_input.change_set.is_empty() {
            existing_router
        } else {
            Arc::new(explain_request_input.change_set.update_existing_router(existing_router))
        };

        Self::create_result(
            explain_request_router,
            &explain_request_input.example,
            explain_request_input.max_hops,
            explain_request_input.project_domains,
        )
    }

    pub fn create_result_without_project(
        explain_request_input: ExplainRequestInput,
    ) -> Result<ExplainRequestOutput, ExplainRequestOutputError> {
        let mut router = Router::<Rule>::from_config(explain_request_input.router_config);

        for rule in explain_request_input.rules.iter() {
            router.insert(rule.clone());
        }

        Self::create_result(
            Arc::new(router),
            &explain_request_input.example,
            explain_request_input.max_hops,
            explain_request_input.project_domains,
        )
    }

    fn create_result(
        router: Arc<Router<Rule>>,
        example: &Example,
        max_hops: u8,
        project_domains: Vec<String>,
    ) -> Result<ExplainRequestOutput, ExplainRequestOutputError> {
        let request = match Request::from_example(&router.config, example) {
            Ok(request) => request,
            Err(e) => {
                return Err(ExplainRequestOutputError {
                    message: format!("Invalid example: {e}"),
                });
            }
        };
        let mut unit_trace = UnitTrace::default();

        let routes = router.match_request(&request);
        let mut action = Action::from_routes_rule(routes, &request, Some(&mut unit_trace));

        let example_status_code = example.response_status_code.unwrap_or(0);
        let (final_status_code, backend_status_code) =
            action.get_final_status_code_with_fallback(example_status_code, 200, &mut unit_trace);

        let headers = action.filter_headers(Vec::new(), backend_status_code, false, Some(&mut unit_trace));

        let mut body = "<!DOCTYPE html>
<html>
    <head>
    </head>
    <body>
    </body>
</html>";

        let mut b1;
        if let Some(mut body_filter) = action.create_filter_body(backend_status_code, &[]) {
            b1 = body_filter.filter(body.into(), Some(&mut unit_trace));
            let b2 = body_filter.end(Some(&mut unit_trace));
            b1.extend(b2);
            body = std::str::from_utf8(&b1).unwrap();
        }

        let should_log_request = action.should_log_request(true, final_status_code, Some(&mut unit_trace));

        unit_trace.squash_with_target_unit_traces();

        let redirection_loop = Some(RedirectionLoop::from_example(router.as_ref(), max_hops, example, project_domains));

        Ok(ExplainRequestOutput {
            example: example.to_owned(),
            unit_trace,
            backend_status_code,
            response: Response {
                status_code: final_status_code,
                headers,
                body: body.to_string(),
            },
            match_traces: router.trace_request(&request),
            redirection_loop,
            should_log_request,
        })
    }
}
