use crate::api::Transformer;
use crate::marker::Transform;
use serde::{Deserialize, Serialize};

#[derive(Serialize, Deserialize, Debug, Clone)]
pub struct Marker {
    pub name: String,
    pub regex: String,
    #[serde(default)]
    pub transformers: Vec<Transformer>,
}

impl Transform for Marker {
    fn transform(&self, mut value: String) -> String {
        for transformer in &self.transformers {
            match transformer.to_transform() {
                None => (),
                Some(t) => {
                    value = t.transform(value);
                }
            }
        }

        value
    }
}
