use serde::{Deserialize, Serialize};

#[derive(Serialize, Deserialize, Debug, Clone)]
#[serde(rename_all = "snake_case")]
pub enum IpConstraint {
    InRange(String),
    NotInRange(String),
}
