use crate::api::Transformer;
use crate::http::Request;
use chrono::Datelike;
use serde::{Deserialize, Serialize};
use std::collections::HashMap;

#[derive(Serialize, Deserialize, Debug, Clone)]
#[serde(rename_all = "snake_case")]
pub enum VariableKind {
    Marker(String),
    RequestHeader { name: String, default: Option<String> },
    RequestHost,
    RequestMethod,
    RequestPath,
    RequestRemoteAddress,
    RequestScheme,
    RequestTime,
}

#[derive(Serialize, Deserialize, Debug, Clone)]
pub struct Variable {
    pub name: String,
    #[serde(rename = "type")]
    kind: VariableKind,
    #[serde(skip_serializing_if = "Vec::is_empty", default)]
    transformers: Vec<Transformer>,
}

impl Variable {
    pub fn get_value(&self, markers_captured: &HashMap<String, String>, request: &Request) -> String {
        let mut value = match &self.kind {
            VariableKind::RequestHeader { name, default } => Some(
                request
                    .header_value(name.as_str())
                    .unwrap_or_else(|| default.clone().unwrap_or_default()),
            ),
            VariableKind::RequestHost => request.host.clone(),
            VariableKind::RequestMethod => request.method.clone(),
            VariableKind::RequestPath => Some(request.path_and_query_skipped.original.clone()),
            VariableKind::RequestRemoteAddress => request.remote_addr.map(|addr| addr.to_string()),
            VariableKind::RequestScheme => request.scheme.clone(),
            VariableKind::RequestTime => request.created_at.map(|d| {
                // to_rfc2822 panics when the year is negative or has more than four digits
                if (0..=9999).contains(&d.year()) {
                    d.to_rfc2822()
                } else {
                    d.to_rfc3339()
                }
            }),
            VariableKind::Marker(marker_name) => markers_captured.get(marker_name.as_str()).cloned(),
        }
        .unwrap_or_default();

        for transformer in &self.transformers {
            match transformer.to_transform() {
                None => (),
                Some(t) => {
                    value = t.transform(value);
                }
            }
        }

        value
    }
}
