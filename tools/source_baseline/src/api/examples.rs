use serde::{Deserialize, Serialize};

#[derive(Serialize, Deserialize, Debug, Clone)]
pub struct Example {
    pub url: String,
    pub method: Option<String>,
    pub headers: Option<Vec<ExampleHeader>>,
    #[serde(skip_serializing_if = "Option::is_none", default)]
    pub datetime: Option<String>,
    pub ip_address: Option<String>,
    pub response_status_code: Option<u16>,
    pub must_match: bool,
    pub unit_ids_applied: Option<Vec<String>>,
}

#[derive(Serialize, Deserialize, Debug, Clone)]
pub struct ExampleHeader {
    pub name: String,
    pub value: String,
}

impl Example {
    pub fn with_url(&self, url: String) -> Example {
        let mut new_exemple = self.clone();
        new_exemple.url = url;
        new_exemple
    }

    pub fn with_method(&self, method: Option<String>) -> Example {
        let mut new_example = self.clone();
        new_example.method = method;
        new_example
    }
}
