use std::collections::HashMap;
use std::sync::Arc;

use crate::action::{Action, UnitTrace};
use crate::api::rules_message::RuleChangeSet;
use crate::api::{Example, Rule};
use crate::http::Request;
use crate::router::Router;
use crate::router_config::RouterConfig;
use serde::{Deserialize, Serialize};

// Input

#[derive(Deserialize, Debug, Clone)]
pub struct UnitIdsInput {
    pub router_config: RouterConfig,
    pub rules: Vec<Rule>,
}

#[derive(Deserialize, Debug, Clone)]
pub struct UnitIdsProjectInput {
    pub change_set: RuleChangeSet,
}

// Output

#[derive(Serialize, Debug, Clone, Default)]
pub struct UnitIdsOutput {
    pub rules: HashMap<String, RuleOutput>,
}

#[derive(Serialize, Debug, Clone, Default)]
pub struct RuleOutput {
    pub examples: Vec<Example>,
}

// Implementation

impl UnitIdsOutput {
    #[cfg(feature = "router")]
    pub fn create_result_from_project(unit_ids_input: UnitIdsProjectInput, existing_router: Arc<Router<Rule>>) -> UnitIdsOutput {
        let unit_ids_router = unit_ids_input.change_set.update_existing_router(existing_router);

        Self::create_result(&unit_ids_router)
    }

    #[cfg(feature = "router")]
    pub fn create_result_without_project(unit_ids_input: UnitIdsInput) -> UnitIdsOutput {
        let mut router = Router::<Rule>::from_config(unit_ids_input.router_config.clone());

        for rule in unit_ids_input.rules.iter() {
            router.insert(rule.clone());
        }

        router.cache(None);

        Self::create_result(&router)
    }

    #[cfg(feature = "router")]
    fn create_result(router: &Router<Rule>) -> UnitIdsOutput {
        let mut rules = HashMap::new();

        for (id, route) in router.routes() {
            let examples = &route.handler().examples;

            if examples.is_none() {
                continue;
            }

            let mut examples_output = Vec::new();

            for example in examples.as_ref().unwrap() {
                let request = match Request::from_example(&router.config, example) {
                    Ok(request) => request,
                    Err(_) => {
                        examples_output.push(example.clone());
                        continue;
                    }
                };

                let mut unit_trace = UnitTrace::default();

                let routes = router.match_request(&request);
                let mut action = Action::from_routes_rule(routes, &request, Some(&mut unit_trace));

                let action_status_code = action.get_status_code(0, Some(&mut unit_trace));
                let (_, backend_status_code) = if action_status_code != 0 {
                    (action_status_code, action_status_code)
                } else {
                    // We call the backend and get a response code
                    let backend_status_code = example.response_status_code.unwrap_or(200);
                    let final_status_code = action.get_status_code(backend_status_code, Some(&mut unit_trace));
                    (final_status_code, backend_status_code)
                };

                action.filter_headers(Vec::new(), backend_status_code, false, Some(&mut unit_trace));

                let body = "<!DOCTYPE html>
<html>
    <head>
    </head>
    <body>
    </body>
</html>";
                if let Some(mut body_filter) = action.create_filter_body(backend_status_code, &[]) {
                    body_filter.filter(body.into(), Some(&mut unit_trace));
                    body_filter.end(Some(&mut unit_trace));
                }

                unit_trace.squash_with_target_unit_traces();

                let mut final_example = example.clone();
                final_example.unit_ids_applied = Some(unit_trace.get_unit_ids_applied().into_iter().collect());
                examples_output.push(final_example);
            }

            rules.insert(id.clone(), RuleOutput { examples: examples_output });
        }

        UnitIdsOutput { rules }
    }
}
