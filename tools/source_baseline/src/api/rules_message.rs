use crate::api::Rule;
use crate::router::Router;
use serde::{Deserialize, Serialize};
use std::collections::HashSet;
use std::sync::Arc;

#[derive(Serialize, Deserialize, Debug, Clone, Default)]
pub struct RulesMessage {
    #[serde(rename = "hydra:member")]
    pub rules: Vec<Rule>,
}

#[derive(Serialize, Deserialize, Debug, Clone, Default)]
pub struct RuleChangeSet {
    pub added: Vec<Rule>,
    pub updated: Vec<Rule>,
    pub deleted: HashSet<String>,
}

impl RuleChangeSet {
    pub fn update_existing_router(self, existing_router: Arc<Router<Rule>>) -> Router<Rule> {
        let mut new_router = existing_router.as_ref().clone();

        new_router.apply_change_set(self.added, self.updated, self.deleted);

        new_router
    }

    pub fn is_empty(&self) -> bool {
        self.added.is_empty() && self.updated.is_empty() && self.deleted.is_empty()
    }
}
