use crate::marker::{Camelize, Dasherize, Lowercase, Replace, Slice, Transform, Underscorize, Uppercase};
use serde::{Deserialize, Serialize};
use std::collections::HashMap;
use std::str::FromStr;

#[derive(Serialize, Deserialize, Debug, Clone)]
pub struct Transformer {
    #[serde(rename = "type")]
    pub kind: Option<String>,
    pub options: Option<HashMap<String, String>>,
}

impl Transformer {
    pub fn to_transform(&self) -> Option<Box<dyn Transform>> {
        match self.kind.as_ref() {
            None => None,
            Some(kind) => match kind.as_str() {
                "camelize" => Some(Box::<Camelize>::default()),
                "dasherize" => Some(Box::<Dasherize>::default()),
                "lowercase" => Some(Box::<Lowercase>::default()),
                "replace" => match self.options.as_ref() {
                    None => None,
                    Some(options) => {
                        if !options.contains_key("something") || !options.contains_key("with") {
                            return None;
                        }

                        Some(Box::new(Replace::new(
                            options.get("something").unwrap().clone(),
                            options.get("with").unwrap().clone(),
                        )))
                    }
                },
                "slice" => match self.options.as_ref() {
                    None => None,
                    Some(options) => {
                        if !options.contains_key("from") || !options.contains_key("to") {
                            return None;
                        }

                        let from = usize::from_str(options.get("from").unwrap()).unwrap_or(0);
                        let to = match usize::from_str(options.get("to").unwrap()) {
                            Err(_) => None,
                            Ok(value) => Some(value),
                        };

                        Some(Box::new(Slice::new(from, to)))
                    }
                },
                "underscorize" => Some(Box::<Underscorize>::default()),
                "uppercase" => Some(Box::<Uppercase>::default()),
                _ => None,
            },
        }
    }
}
