use std::collections::HashMap;
use std::sync::Arc;

use crate::{
    action::{Action, UnitTrace},
    http::Request,
    router::Router,
    router_config::RouterConfig,
};

use super::{Example, Rule};
use crate::api::redirection_loop::RedirectionLoop;
use crate::api::rules_message::RuleChangeSet;
use crate::router::Route;
use linked_hash_set::LinkedHashSet;
use serde::{Deserialize, Serialize};

// Input

#[derive(Deserialize, Debug, Clone)]
pub struct TestExamplesInput {
    pub router_config: RouterConfig,
    pub rules: Vec<Rule>,
    pub max_hops: u8,
    #[serde(default)]
    pub project_domains: Vec<String>,
}

#[derive(Deserialize, Debug, Clone, Default)]
pub struct TestExamplesProjectInput {
    pub change_set: RuleChangeSet,
    pub max_hops: u8,
    #[serde(default)]
    pub project_domains: Vec<String>,
}

#[derive(Serialize, Debug, Clone, Default)]
pub struct TestExamplesOutput {
    pub example_count: u32,
    pub failure_count: u32,
    pub error_count: u32,
    pub first_ten_failures: HashMap<String, FailedRule>,
    pub first_ten_errors: HashMap<String, ErroredRule>,
}

#[derive(Serialize, Debug, Clone)]
pub struct FailedRule {
    pub rule: Rule,
    pub failed_examples: Vec<FailedExample>,
}

#[derive(Serialize, Debug, Clone)]
pub struct FailedExample {
    example: Example,
    rule_ids_applied: LinkedHashSet<String>,
    unit_ids_applied: LinkedHashSet<String>,
    unit_ids_not_applied_anymore: LinkedHashSet<String>,
    redirection_loop: Option<RedirectionLoop>,
}

#[derive(Serialize, Debug, Clone)]
pub struct ErroredRule {
    pub rule: Rule,
    pub errored_examples: Vec<ErroredExample>,
}

#[derive(Serialize, Debug, Clone)]
pub struct ErroredExample {
    example: Example,
    error: String,
}

impl TestExamplesOutput {
    pub fn from_project(test_examples_input: TestExamplesProjectInput, existing_router: Arc<Router<Rule>>) -> TestExamplesOutput {
        let test_example_router = if test_examples_input.change_set.is_empty() {
            existing_router
        } else {
            Arc::new(test_examples_input.change_set.update_existing_router(existing_router))
        };

        Self::create_result(
            &test_example_router,
            test_examples_input.max_hops,
            test_examples_input.project_domains,
        )
    }

    pub fn create_result_without_project(test_examples_input: TestExamplesInput) -> TestExamplesOutput {
        let mut router = Router::<Rule>::from_config(test_examples_input.router_config.clone());

        for rule in test_examples_input.rules.iter() {
            router.insert(rule.clone());
        }

        Self::create_result(&router, test_examples_input.max_hops, test_examples_input.project_domains)
    }

    fn create_result(router: &Router<Rule>, max_hops: u8, project_domains: Vec<String>) -> TestExamplesOutput {
        let mut results = TestExamplesOutput::default();

        // Iterate in id order: the result (which failures are kept as a sample) must not depend on the hash map order
        let mut routes: Vec<_> = router.routes().iter().collect();
        routes.sort_by(|(a, _), (b, _)| a.cmp(b));

        for (id, route) in routes {
            let examples = &route.handler().examples;

            if examples.is_none() {
                continue;
            }

            for example in examples.as_ref().unwrap().iter() {
                Self::test_example(
                    router,
                    example,
                    &mut results,
                    id.as_str(),
                    route.clone(),
                    max_hops,
                    project_domains.clone(),
                );
            }
        }

        results
    }

    pub fn test_example(
        router: &Router<Rule>,
        example: &Example,
        results: &mut TestExamplesOutput,
        id: &str,
        route: Arc<Route<Rule>>,
        max_hops: u8,
        project_domains: Vec<String>,
    ) {
        if example.unit_ids_applied.is_none() {
            return;
        }

        let request = match Request::from_example(&router.config, example) {
            Ok(request) => request,
            Err(e) => {
                results.add_errored_example(route.handler(), example.clone(), e.to_string());

                return;
            }
        };
        let mut unit_trace = UnitTrace::default();

        let routes = router.match_request(&request);
        let mut action = Action::from_routes_rule(routes, &request, Some(&mut unit_trace));

        let action_status_code = action.get_status_code(0, Some(&mut unit_trace));
        let (final_status_code, backend_status_code) = if action_status_code != 0 {
            (action_status_code, action_status_code)
        } else {
            // We call the backend and get a response code
            let backend_status_code = example.response_status_code.unwrap_or(200);
            let final_status_code = action.get_status_code(backend_status_code, Some(&mut unit_trace));
            (final_status_code, backend_status_code)
        };

        action.filter_headers(Vec::new(), backend_status_code, false, Some(&mut unit_trace));

        if let Some(mut body_filter) = action.create_filter_body(backend_status_code, &[]) {
            let body = "<!DOCTYPE html>
<html>
    <head>
    </head>
    <body>
    </body>
</html>";

            body_filter.filter(body.into(), Some(&mut unit_trace));
            body_filter.end(Some(&mut unit_trace));
        }

        action.should_log_request(true, final_status_code, Some(&mut unit_trace));

        unit_trace.squash_with_target_unit_traces();

        let unit_ids_not_applied_anymore = unit_trace.diff(example.unit_ids_applied.clone().unwrap());

        // If it should match but not unit are applied anymore
        // If it should match but the rule is not applied
        // If it should not match but the rule is applied
        if example.must_match && (!unit_ids_not_applied_anymore.is_empty() || !unit_trace.rule_ids_contains(id))
            || !example.must_match && unit_trace.rule_ids_contains(id)
        {
            results.add_failed_example(
                route.handler(),
                example.clone(),
                unit_trace.get_rule_ids_applied(),
                unit_trace.get_unit_ids_applied(),
                unit_ids_not_applied_anymore,
                None,
            );
        } else {
            let redirection_loop = RedirectionLoop::from_example(router, max_hops, example, project_domains);

            if redirection_loop.has_error_too_many_hops() || redirection_loop.has_error_loop() {
                results.add_failed_example(
                    route.handler(),
                    example.clone(),
                    unit_trace.get_rule_ids_applied(),
                    unit_trace.get_unit_ids_applied(),
                    unit_ids_not_applied_anymore,
                    Some(redirection_loop),
                );
            }
        }

        results.increment_example_count();
    }

    pub fn add_failed_example(
        &mut self,
        rule: &Rule,
        example: Example,
        rule_ids_applied: LinkedHashSet<String>,
        unit_ids_applied: LinkedHashSet<String>,
        unit_ids_not_applied_anymore: LinkedHashSet<String>,
        redirection_loop: Option<RedirectionLoop>,
    ) {
        self.failure_count += 1;
        if self.first_ten_failures.len() <= 10 {
            let failed_example = FailedExample {
                example,
                rule_ids_applied,
                unit_ids_applied,
                unit_ids_not_applied_anymore,
                redirection_loop,
            };

            let failed_rule = self
                .first_ten_failures
                .entry(rule.id.clone())
                .or_insert_with(|| FailedRule::new((*rule).clone()));

            failed_rule.failed_examples.push(failed_example);
        }
    }

    pub fn add_errored_example(&mut self, rule: &Rule, example: Example, error: String) {
        self.error_count += 1;
        if self.first_ten_errors.len() <= 10 {
            let errored_example = ErroredExample { example, error };

            let errored_rule = self
                .first_ten_errors
                .entry(rule.id.clone())
                .or_insert_with(|| ErroredRule::new((*rule).clone()));

            errored_rule.errored_examples.push(errored_example);
        }
    }

    pub fn increment_example_count(&mut self) {
        self.example_count += 1;
    }
}

impl FailedRule {
    pub fn new(rule: Rule) -> Self {
        Self {
            rule,
            failed_examples: Vec::new(),
        }
    }
}

impl ErroredRule {
    pub fn new(rule: Rule) -> Self {
        Self {
            rule,
            errored_examples: Vec::new(),
        }
    }
}
