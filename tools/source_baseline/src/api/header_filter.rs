use serde::{Deserialize, Serialize};

#[derive(Serialize, Deserialize, Debug, Clone)]
pub struct HeaderFilter {
    pub action: String,
    pub header: String,
    pub value: String,
    // In 3.0 make this mandatory
    pub id: Option<String>,
    // In 3.0 make this mandatory
    pub target_hash: Option<String>,
}
