use crate::action::Action;
use crate::api::Log;
use crate::ffi_helpers::{c_char_to_str, string_to_c_char};
use crate::http::Request;
use crate::http::ffi::{HeaderMap, header_map_to_http_headers};
use serde_json::to_string as json_encode;
use std::os::raw::{c_char, c_ushort};
use std::ptr::null;

#[unsafe(no_mangle)]
pub extern "C" fn redirectionio_api_get_rule_api_version() -> *const c_char {
    string_to_c_char("2.0.0".to_string())
}

#[unsafe(no_mangle)]
pub extern "C" fn redirectionio_api_create_log_in_json(
    _request: *mut Request,
    code: c_ushort,
    _response_headers: *const HeaderMap,
    _action: *mut Action,
    _proxy: *const c_char,
    time: u64,
    _client_ip: *const c_char,
) -> *const c_char {
    if _request.is_null() {
        return null();
    }

    let proxy = c_char_to_str(_proxy).unwrap_or("");
    let client_ip = c_char_to_str(_client_ip).unwrap_or("");
    // Safety: _action is a valid pointer to a Action
    let action = if _action.is_null() { None } else { Some(unsafe { &*_action }) };
    // Safety: _request is a valid pointer to a Request
    let request = unsafe { &*_request };
    let response_headers = header_map_to_http_headers(_response_headers);

    let log = Log::from_proxy(request, code, &response_headers, action, proxy, time as u128, client_ip);

    let log_serialized = match json_encode(&log) {
        Err(_) => return null(),
        Ok(s) => s,
    };

    string_to_c_char(log_serialized)
}
