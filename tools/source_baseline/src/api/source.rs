use crate::api::{DateTimeConstraint, Header, IpConstraint};
use serde::{Deserialize, Serialize};

#[derive(Serialize, Deserialize, Debug, Clone)]
pub struct Source {
    pub scheme: Option<String>,
    pub host: Option<String>,
    pub ips: Option<Vec<IpConstraint>>,
    #[serde(skip_serializing_if = "Option::is_none", default)]
    pub datetime: Option<Vec<DateTimeConstraint>>,
    #[serde(skip_serializing_if = "Option::is_none", default)]
    pub time: Option<Vec<DateTimeConstraint>>,
    pub path: String,
    pub query: Option<String>,
    pub headers: Option<Vec<Header>>,
    pub methods: Option<Vec<String>>,
    pub exclude_methods: Option<bool>,
    pub response_status_codes: Option<Vec<u16>>,
    pub exclude_response_status_codes: Option<bool>,
    pub sampling: Option<u32>,
    #[serde(skip_serializing_if = "Option::is_none", default)]
    pub weekdays: Option<Vec<String>>,
}
