use serde::Serialize;
use url::Url;

use crate::{action::Action, http::Request, router::Router};

use super::{Example, Rule};

const REDIRECTION_CODES: [u16; 4] = [301, 302, 307, 308];

#[derive(Serialize, Debug, Clone)]
pub struct RedirectionLoop {
    hops: Vec<RedirectionHop>,
    error: Option<RedirectionError>,
}

#[derive(Serialize, Debug, Clone, Default)]
pub struct RedirectionHop {
    pub url: String,
    pub status_code: u16,
    pub method: String,
}

#[derive(Serialize, Debug, Clone)]
enum RedirectionError {
    AtLeastOneHop,
    TooManyHops,
    Loop,
}

impl RedirectionLoop {
    pub fn from_example(router: &Router<Rule>, max_hops: u8, example: &Example, project_domains: Vec<String>) -> RedirectionLoop {
        Self::compute(router, max_hops, example, project_domains)
    }
    pub fn has_error(&self) -> bool {
        self.error.is_some()
    }

    pub fn has_error_too_many_hops(&self) -> bool {
        self.error.is_some() && matches!(self.error, Some(RedirectionError::TooManyHops))
    }

    pub fn has_error_loop(&self) -> bool {
        self.error.is_some() && matches!(self.error, Some(RedirectionError::Loop))
    }

    fn compute(router: &Router<Rule>, max_hops: u8, example: &Example, project_domains: Vec<String>) -> RedirectionLoop {
        let mut current_url = example.url.clone();
        let mut current_method = example.method.clone().unwrap_or(String::from("GET"));
        let mut error = None;

        let mut hops = vec![RedirectionHop {
            url: current_url.clone(),
            status_code: 0,
            method: current_method.clone(),
        }];

        'outer: for i in 1..=max_hops {
            let new_example = example.with_url(current_url.clone()).with_method(Some(current_method.clone()));

            let request = match Request::from_example(&router.config, &new_example) {
                Ok(request) => request,
                Err(err) => {
                    log::warn!("cannot create request from new target: {:?} : {}", new_example, err);

                    break;
                }
            };

            let routes = router.match_request(&request);
            let mut action = Action::from_routes_rule(routes, &request, None);

            let action_status_code = action.get_status_code(0, None);
            let (final_status_code, backend_status_code) = if action_status_code != 0 {
                (action_status_code, action_status_code)
            } else {
                // We call the backend and get a response code
                let backend_status_code = new_example.response_status_code.unwrap_or(200);
                let final_status_code = action.get_status_code(backend_status_code, None);
                (final_status_code, backend_status_code)
            };

            if !REDIRECTION_CODES.contains(&final_status_code) {
                break;
            }

            let headers = action.filter_headers(Vec::new(), backend_status_code, false, None);

            let mut found = false;
            for header in headers.iter() {
                if header.name.to_lowercase() == "location" {
                    current_url = join_url(current_url.as_str(), header.value.as_str());
                    found = true;
                    break;
                }
            }

            if !found {
                break;
            }

            if i > 1 {
                error = Some(RedirectionError::AtLeastOneHop);
            }

            if [301, 302].contains(&final_status_code) {
                current_method = String::from("GET");
            }

            for hop in hops.iter() {
                if hop.url == current_url && hop.method == current_method {
                    hops.push(RedirectionHop {
                        url: current_url,
                        status_code: final_status_code,
                        method: current_method,
                    });
                    error = Some(RedirectionError::Loop);
                    break 'outer;
                }
            }

            hops.push(RedirectionHop {
                url: current_url.clone(),
                status_code: final_status_code,
                method: current_method.clone(),
            });

            // If the url cannot be parsed, let's treat it as a relative Url.
            // Otherwise, we check if the corresponding domain is registered in the project.
            if let Ok(url) = Url::parse(&current_url) {
                if !project_domains.is_empty() && !project_domains.contains(&url.host_str().unwrap_or_default().to_string()) {
                    // The current url target a domain that is not registered in the project.
                    // So we consider there is no redirection loop here.
                    break;
                }
            }

            if i >= max_hops {
                error = Some(RedirectionError::TooManyHops);
                break;
            }
        }

        RedirectionLoop { hops, error }
    }
}

fn join_url(base: &str, path: &str) -> String {
    let base = match Url::parse(base) {
        Ok(url) => url,
        Err(_) => return path.to_string(),
    };

    let url = match base.join(path) {
        Ok(url) => url,
        Err(_) => return path.to_string(),
    };

    url.to_string()
}
