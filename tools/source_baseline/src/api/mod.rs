mod body_filter;
mod date_time;
mod examples;
#[cfg(feature = "router")]
mod explain_request;
#[cfg(not(target_arch = "wasm32"))]
mod ffi;
mod header;
mod header_filter;
#[cfg(feature = "router")]
mod impact;
mod ip;
mod log;
mod marker;
#[cfg(feature = "router")]
mod redirection_loop;
#[cfg(feature = "router")]
mod rule;
#[cfg(feature = "router")]
mod rules_message;
mod source;
#[cfg(feature = "router")]
mod test_examples;
mod transformer;
#[cfg(feature = "router")]
mod unit_ids;
mod variable;

pub use self::log::{LegacyLog, Log};
pub use body_filter::{BodyFilter, HTMLBodyFilter, TextAction, TextBodyFilter};
pub use date_time::DateTimeConstraint;
pub use examples::Example;
#[cfg(feature = "router")]
pub use explain_request::{ExplainRequestInput, ExplainRequestOutput, ExplainRequestOutputError, ExplainRequestProjectInput};
pub use header::Header;
pub use header_filter::HeaderFilter;
#[cfg(feature = "router")]
pub use impact::{ImpactInput, ImpactOutput, ImpactProjectInput};
pub use ip::IpConstraint;
pub use marker::Marker;
#[cfg(feature = "router")]
pub use rule::Rule;
#[cfg(feature = "router")]
pub use rules_message::{RuleChangeSet, RulesMessage};
pub use source::Source;
#[cfg(feature = "router")]
pub use test_examples::{TestExamplesInput, TestExamplesOutput, TestExamplesProjectInput};
pub use transformer::Transformer;
#[cfg(feature = "router")]
pub use unit_ids::{UnitIdsInput, UnitIdsOutput, UnitIdsProjectInput};
pub use variable::{Variable, VariableKind};
