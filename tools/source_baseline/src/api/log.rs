use crate::action::Action;
use crate::http::{Addr, Header, Request};
use serde::{Deserialize, Serialize};

#[derive(Serialize, Deserialize, Debug, Clone)]
pub struct Log {
    code: u16,
    to: String,
    time: u128,
    proxy: String,
    ips: Option<Vec<String>>,
    from: FromLog,
    duration: Option<u128>,
}

#[derive(Serialize, Deserialize, Debug, Clone)]
struct FromLog {
    #[serde(rename = "ruleIds")]
    rule_ids: Option<Vec<String>>,
    url: String,
    method: Option<String>,
    scheme: Option<String>,
    host: Option<String>,
    referer: Option<String>,
    #[serde(rename = "userAgent")]
    user_agent: Option<String>,
    #[serde(rename = "contentType")]
    content_type: Option<String>,
}

#[derive(Serialize, Deserialize, Debug, Clone)]
pub struct LegacyLog {
    status_code: u16,
    host: Option<String>,
    method: Option<String>,
    request_uri: Option<String>,
    user_agent: Option<String>,
    referer: Option<String>,
    scheme: Option<String>,
    use_json: Option<bool>,
    target: Option<String>,
    rule_id: Option<String>,
}

impl Log {
    pub fn from_legacy(legacy: LegacyLog, proxy: String) -> Self {
        let now = chrono::Utc::now().timestamp() as u128;

        Log {
            code: legacy.status_code,
            to: legacy.target.unwrap_or_default(),
            time: now,
            proxy,
            ips: None,
            from: FromLog {
                rule_ids: legacy.rule_id.map(|id| vec![id]),
                url: legacy.request_uri.unwrap_or_default(),
                method: legacy.method,
                scheme: legacy.scheme,
                host: legacy.host,
                referer: legacy.referer,
                user_agent: legacy.user_agent,
                content_type: None,
            },
            duration: None,
        }
    }

    #[allow(clippy::too_many_arguments)]
    pub fn from_proxy(
        request: &Request,
        code: u16,
        response_headers: &[Header],
        action: Option<&Action>,
        proxy: &str,
        request_start_time: u128,
        client_ip: &str,
    ) -> Log {
        let mut location = None;
        let mut user_agent = None;
        let mut referer = None;
        let mut content_type = None;
        let mut ips = Vec::new();
        let now = chrono::Utc::now().timestamp_millis() as u128;
        let duration = now.checked_sub(request_start_time);

        if let Ok(addr) = client_ip.parse::<Addr>() {
            ips.push(addr.addr);
        }

        for header in &request.headers {
            if header.name.to_lowercase() == "user-agent" {
                user_agent = Some(header.value.clone())
            }

            if header.name.to_lowercase() == "referer" {
                referer = Some(header.value.clone())
            }

            if header.name.to_lowercase() == "x-forwarded-for" {
                let forwarded_ips = header.value.split(',');

                for forwarded_ip in forwarded_ips {
                    if let Ok(addr) = forwarded_ip.parse::<Addr>() {
                        ips.push(addr.addr);
                    }
                }
            }

            if header.name.to_lowercase() == "forwarded" {
                for (name, val) in header.value.split(';').flat_map(|val| val.split(',')).flat_map(|pair| {
                    let mut items = pair.trim().splitn(2, '=');
                    Some((items.next()?, items.next()?))
                }) {
                    if name.trim().to_lowercase().as_str() == "for" {
                        let ip = val.trim().trim_start_matches('"').trim_end_matches('"').to_string();

                        if let Ok(ip) = ip.parse::<Addr>() {
                            ips.push(ip.addr);
                        }
                    }
                }
            }
        }

        for header in response_headers {
            if header.name.to_lowercase() == "location" {
                location = Some(header.value.clone())
            }

            if header.name.to_lowercase() == "content-type" {
                content_type = Some(header.value.clone())
            }
        }

        let from = FromLog {
            rule_ids: action.map(|a| a.get_applied_rule_ids().iter().cloned().collect()),
            url: request.path_and_query_skipped.original.clone(),
            method: request.method.clone(),
            scheme: request.scheme.clone(),
            host: request.host.clone(),
            referer,
            user_agent,
            content_type,
        };

        Log {
            code,
            from,
            proxy: proxy.to_string(),
            time: request_start_time,
            ips: Some(ips.iter().map(|ip| ip.to_string()).collect()),
            to: location.unwrap_or_default(),
            duration,
        }
    }
}
