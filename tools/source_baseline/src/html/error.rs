use std::result;

/// This error describes all of the potential failures that can occur during the html parse process.
#[derive(Debug)]
#[non_exhaustive]
pub enum HtmlParseError {
    FromUtf8Error(std::string::FromUtf8Error),
}

impl std::fmt::Display for HtmlParseError {
    fn fmt(&self, f: &mut std::fmt::Formatter<'_>) -> std::fmt::Result {
        match self {
            Self::FromUtf8Error(source) => write!(f, "{source}"),
        }
    }
}

impl std::error::Error for HtmlParseError {}

impl From<std::string::FromUtf8Error> for HtmlParseError {
    fn from(error: std::string::FromUtf8Error) -> Self {
        Self::FromUtf8Error(error)
    }
}

pub type Result<T> = result::Result<T, HtmlParseError>;
