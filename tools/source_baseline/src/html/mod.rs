mod error;

use crate::html::TokenType::{CommentToken, DoctypeToken, EndTagToken, ErrorToken, SelfClosingTagToken, StartTagToken, TextToken};
pub use error::HtmlParseError;
use error::Result;
use std::fmt::Display;
use std::string::ToString;

#[derive(Debug, Clone, Copy, PartialEq, Eq)]
pub enum TokenType {
    NoneToken,
    ErrorToken,
    TextToken,
    StartTagToken,
    EndTagToken,
    SelfClosingTagToken,
    CommentToken,
    DoctypeToken,
}

pub struct Error {
    pub kind: ErrorKind,
    pub read_error: Option<std::io::Error>,
}

pub enum ErrorKind {
    ReadError,
    MaxBufferError,
    EOFError,
}

#[derive(Debug, Clone)]
pub struct Attribute {
    pub namespace: String,
    pub key: Option<String>,
    pub value: Option<String>,
}

#[derive(Debug, Clone)]
pub struct Token {
    pub token_type: TokenType,
    pub data: Option<String>,
    pub attrs: Vec<Attribute>,
}

#[derive(Debug, Clone)]
struct Span {
    start: usize,
    end: usize,
}

pub struct Tokenizer {
    reader: Vec<u8>,
    token: TokenType,
    err: Option<Error>,
    raw: Span,
    data: Span,
    pending_attribute: [Span; 2],
    attribute: Vec<[Span; 2]>,
    number_attribute_returned: usize,
    raw_tag: String,
    text_is_raw: bool,
    convert_null: bool,
    allow_cdata: bool,
}

impl Token {
    fn tag_string(&self) -> String {
        if self.data.is_none() {
            return "".to_string();
        }

        let mut tag = self.data.as_ref().unwrap().clone();

        if self.attrs.is_empty() {
            return tag;
        }

        for attr in &self.attrs {
            tag.push(' ');
            tag.push_str(attr.key.as_ref().unwrap().as_str());
            tag.push_str("=\"");
            tag.push_str(attr.value.as_ref().unwrap().as_str());
            tag.push('"');
        }

        tag
    }
}

impl Display for Token {
    fn fmt(&self, f: &mut std::fmt::Formatter<'_>) -> std::fmt::Result {
        let str = match self.token_type {
            ErrorToken => "".to_string(),
            TextToken => self.data.as_ref().unwrap().clone(),
            StartTagToken => ["<", self.tag_string().as_str(), ">"].join(""),
            EndTagToken => ["</", self.tag_string().as_str(), ">"].join(""),
            SelfClosingTagToken => ["<", self.tag_string().as_str(), "/>"].join(""),
            CommentToken => ["<!--", self.data.as_ref().unwrap().as_str(), "-->"].join(""),
            DoctypeToken => ["<!DOCTYPE ", self.data.as_ref().unwrap().as_str(), ">"].join(""),
            _ => "invalid".to_string(),
        };
        write!(f, "{}", str)
    }
}

impl Tokenizer {
    pub fn new(reader: Vec<u8>) -> Tokenizer {
        Tokenizer::new_fragment(reader, "".to_string())
    }

    pub fn new_fragment(reader: Vec<u8>, mut context_tag: String) -> Tokenizer {
        let mut tokenizer = Tokenizer {
            reader,
            token: TokenType::NoneToken,
            err: None,
            raw: Span { start: 0, end: 0 },
            data: Span { start: 0, end: 0 },
            pending_attribute: [Span { start: 0, end: 0 }, Span { start: 0, end: 0 }],
            attribute: Vec::new(),
            number_attribute_returned: 0,
            raw_tag: "".to_string(),
            text_is_raw: false,
            convert_null: false,
            allow_cdata: true,
        };

        if !context_tag.is_empty() {
            context_tag = context_tag.to_lowercase();

            match context_tag.as_str() {
                "iframe" | "noembed" | "noframes" | "noscript" | "plaintext" | "script" | "style" | "title" | "textarea" | "xmp" => {
                    tokenizer.raw_tag.clone_from(&context_tag);
                }
                _ => {}
            }
        }

        tokenizer
    }

    pub fn err(&self) -> Option<&Error> {
        self.err.as_ref()
    }

    /// Raw-text element (title, script, ...) whose content the next call of `next()` will read, "" outside one
    pub fn raw_tag(&self) -> &str {
        self.raw_tag.as_str()
    }

    pub fn allow_cdata(&mut self, allow_cdata: bool) {
        self.allow_cdata = allow_cdata;
    }

    #[allow(clippy::should_implement_trait)]
    pub fn next(&mut self) -> Result<TokenType> {
        self.raw.start = self.raw.end;
        self.data.start = self.raw.end;
        self.data.end = self.raw.end;

        if self.err.is_some() {
            self.token = ErrorToken;

            return Ok(self.token);
        }

        if !self.raw_tag.is_empty() {
            if self.raw_tag == "plaintext" {
                while self.err.is_none() {
                    self.read_byte();
                }

                self.data.end = self.raw.end;
                self.text_is_raw = true;
            } else {
                self.read_raw_or_cdata();
            }

            if self.data.end > self.data.start {
                self.token = TextToken;
                self.convert_null = true;

                return Ok(self.token);
            }
        }

        self.text_is_raw = false;
        self.convert_null = false;

        'main: loop {
            let mut byte = self.read_byte() as char;

            if self.err.is_some() {
                break 'main;
            }

            if byte != '<' {
                continue 'main;
            }

            byte = self.read_byte() as char;

            if self.err.is_some() {
                break 'main;
            }

            let token_type: TokenType;

            if byte.is_ascii_alphabetic() {
                token_type = StartTagToken;
            } else if byte == '/' {
                token_type = EndTagToken;
            } else if byte == '!' || byte == '?' {
                token_type = CommentToken;
            } else {
                self.raw.end -= 1;
                continue;
            }

            let x = self.raw.end - "<a".len();

            if self.raw.start < x {
                self.raw.end = x;
                self.data.end = x;

                self.token = TextToken;

                return Ok(self.token);
            }

            match token_type {
                StartTagToken => {
                    self.token = self.read_start_tag()?;

                    return Ok(self.token);
                }
                EndTagToken => {
                    let end_byte = self.read_byte() as char;

                    if self.err.is_some() {
                        break 'main;
                    }

                    if end_byte == '>' {
                        self.token = CommentToken;

                        return Ok(self.token);
                    }

                    if end_byte.is_ascii_alphabetic() {
                        self.read_tag(false);

                        if self.err.is_some() {
                            self.token = ErrorToken;
                        } else {
                            self.token = EndTagToken;
                        }

                        return Ok(self.token);
                    }

                    self.raw.end -= 1;
                    self.read_until_close_angle();
                    self.token = CommentToken;

                    return Ok(self.token);
                }
                CommentToken => {
                    if byte == '!' {
                        self.token = self.read_markup_declaration();

                        return Ok(self.token);
                    }

                    self.raw.end -= 1;
                    self.read_until_close_angle();
                    self.token = CommentToken;

                    return Ok(self.token);
                }
                _ => {}
            }
        }

        if self.raw.start < self.raw.end {
            self.data.end = self.raw.end;
            self.token = TextToken;

            return Ok(self.token);
        }

        self.token = ErrorToken;

        Ok(self.token)
    }

    pub fn buffered(&self) -> Vec<u8> {
        self.reader[self.raw.end..].to_vec()
    }

    pub fn buffered_as_string(&self) -> Result<String> {
        Ok(String::from_utf8(self.buffered())?)
    }

    pub fn raw(&self) -> Vec<u8> {
        self.reader[self.raw.start..self.raw.end].to_vec()
    }

    pub fn raw_as_string(&self) -> Result<String> {
        Ok(String::from_utf8(self.raw())?)
    }

    pub fn text(&mut self) -> Result<Option<String>> {
        match self.token {
            TextToken | CommentToken | DoctypeToken => {
                let mut s = String::from_utf8(self.reader[self.data.start..self.data.end].to_vec())?;

                self.data.start = self.raw.end;
                self.data.end = self.raw.end;

                if self.convert_null || self.token == TextToken && s.contains('\x00') {
                    s = s.replace('\x00', "\u{fffd}".to_string().as_str());
                }

                Ok(Some(s))
            }
            _ => Ok(None),
        }
    }

    pub fn tag_name(&mut self) -> Result<(Option<String>, bool)> {
        if self.data.start < self.data.end {
            match self.token {
                StartTagToken | EndTagToken | SelfClosingTagToken => {
                    let s = String::from_utf8(self.reader[self.data.start..self.data.end].to_vec())?;

                    self.data.start = self.raw.end;
                    self.data.end = self.raw.end;

                    return Ok((Some(s.to_lowercase()), self.number_attribute_returned < self.attribute.len()));
                }
                _ => {}
            }
        }

        Ok((None, false))
    }

    pub fn tag_attr(&mut self) -> Result<(Option<String>, Option<String>, bool)> {
        if self.number_attribute_returned < self.attribute.len() {
            match self.token {
                StartTagToken | SelfClosingTagToken => {
                    let attr = &self.attribute[self.number_attribute_returned];
                    self.number_attribute_returned += 1;

                    let key = String::from_utf8(self.reader[attr[0].start..attr[0].end].to_vec())?;
                    let val = String::from_utf8(self.reader[attr[1].start..attr[1].end].to_vec())?;

                    return Ok((
                        Some(key.to_lowercase()),
                        Some(val),
                        self.number_attribute_returned < self.attribute.len(),
                    ));
                }
                _ => {}
            }
        }

        Ok((None, None, false))
    }

    pub fn token(&mut self) -> Result<Token> {
        let mut token = Token {
            token_type: self.token,
            attrs: Vec::new(),
            data: None,
        };

        match self.token {
            TextToken | CommentToken | DoctypeToken => {
                token.data = self.text()?;
            }
            StartTagToken | SelfClosingTagToken | EndTagToken => {
                let (name, mut has_attr) = self.tag_name()?;

                while has_attr {
                    let (key, val, has_attr_attr) = self.tag_attr()?;
                    has_attr = has_attr_attr;

                    token.attrs.push(Attribute {
                        key,
                        value: val,
                        namespace: "".to_string(),
                    })
                }

                token.data = name;
            }
            _ => {}
        }

        Ok(token)
    }

    fn read_byte(&mut self) -> u8 {
        match self.reader.get(self.raw.end) {
            Some(byte) => {
                self.raw.end += 1;

                *byte
            }
            None => {
                self.err = Some(Error {
                    kind: ErrorKind::EOFError,
                    read_error: None,
                });

                0
            }
        }
    }

    fn skip_white_space(&mut self) {
        if self.err.is_some() {
            return;
        }

        loop {
            let byte = self.read_byte() as char;

            if self.err.is_some() {
                return;
            }

            match byte {
                ' ' | '\n' | '\r' | '\t' | '\x0c' => {}
                _ => {
                    self.raw.end -= 1;

                    return;
                }
            }
        }
    }

    fn read_raw_or_cdata(&mut self) {
        if self.raw_tag == "script" {
            self.read_script();
            self.text_is_raw = true;
            self.raw_tag = "".to_string();

            return;
        }

        loop {
            let mut byte = self.read_byte() as char;

            if self.err.is_some() {
                break;
            }

            if byte != '<' {
                continue;
            }

            byte = self.read_byte() as char;

            if self.err.is_some() {
                break;
            }

            if byte != '/' {
                continue;
            }

            if self.read_raw_end_tag() || self.err.is_some() {
                break;
            }
        }

        self.data.end = self.raw.end;
        self.text_is_raw = self.raw_tag != "textarea" && self.raw_tag != "title";
        self.raw_tag = "".to_string();
    }

    fn read_raw_end_tag(&mut self) -> bool {
        for i in 0..self.raw_tag.len() {
            let byte = self.read_byte();

            if self.err.is_some() {
                return false;
            }

            if byte != self.raw_tag.as_bytes()[i] && byte != self.raw_tag.as_bytes()[i] - (b'a' - b'A') {
                self.raw.end -= 1;

                return false;
            }
        }

        let byte = self.read_byte() as char;

        if self.err.is_some() {
            return false;
        }

        match byte {
            ' ' | '\n' | '\r' | '\t' | '\x0c' | '/' | '>' => {
                self.raw.end -= 3 + self.raw_tag.len();

                true
            }
            _ => {
                self.raw.end -= 1;

                false
            }
        }
    }

    fn read_script(&mut self) {
        self.read_script_data();
        self.data.end = self.raw.end;
    }

    fn read_script_data(&mut self) {
        let byte = self.read_byte() as char;

        if self.err.is_some() {
            return;
        }

        if byte == '<' {
            self.read_script_data_less_than_sign();

            return;
        }

        self.read_script_data();
    }

    fn read_script_data_less_than_sign(&mut self) {
        let byte = self.read_byte() as char;

        if self.err.is_some() {
            return;
        }

        match byte {
            '/' => {
                self.read_script_data_end_tag_open();
            }
            '!' => {
                self.read_script_data_escape_start();
            }
            _ => {
                self.raw.end -= 1;
                self.read_script_data();
            }
        }
    }

    fn read_script_data_end_tag_open(&mut self) {
        if self.read_raw_end_tag() || self.err.is_some() {
            return;
        }

        self.read_script_data();
    }

    fn read_script_data_escape_start(&mut self) {
        let byte = self.read_byte() as char;

        if self.err.is_some() {
            return;
        }

        if byte == '-' {
            self.read_script_data_escape_start_dash();

            return;
        }

        self.raw.end -= 1;
        self.read_script_data();
    }

    fn read_script_data_escape_start_dash(&mut self) {
        let byte = self.read_byte() as char;

        if self.err.is_some() {
            return;
        }

        if byte == '-' {
            self.read_script_data_escaped_dash_dash();

            return;
        }

        self.raw.end -= 1;
        self.read_script_data();
    }

    fn read_script_data_escaped(&mut self) {
        let byte = self.read_byte() as char;

        if self.err.is_some() {
            return;
        }

        match byte {
            '-' => {
                self.read_script_data_escaped_dash();
            }
            '<' => {
                self.read_script_data_escaped_less_than_sign();
            }
            _ => {
                self.read_script_data_escaped();
            }
        }
    }

    fn read_script_data_escaped_dash(&mut self) {
        let byte = self.read_byte() as char;

        if self.err.is_some() {
            return;
        }

        match byte {
            '-' => {
                self.read_script_data_escaped_dash_dash();
            }
            '<' => {
                self.read_script_data_escaped_less_than_sign();
            }
            _ => {
                self.read_script_data_escaped();
            }
        }
    }

    fn read_script_data_escaped_dash_dash(&mut self) {
        let byte = self.read_byte() as char;

        if self.err.is_some() {
            return;
        }

        match byte {
            '-' => {
                self.read_script_data_escaped_dash_dash();
            }
            '<' => {
                self.read_script_data_escaped_less_than_sign();
            }
            '>' => {
                self.read_script_data();
            }
            _ => {
                self.read_script_data_escaped();
            }
        }
    }

    fn read_script_data_escaped_less_than_sign(&mut self) {
        let byte = self.read_byte() as char;

        if self.err.is_some() {
            return;
        }

        if byte == '/' {
            self.read_script_data_escaped_end_tag_open();

            return;
        }

        if byte.is_ascii_alphabetic() {
            self.read_script_data_double_escape_start();

            return;
        }

        self.raw.end -= 1;
        self.read_script_data();
    }

    fn read_script_data_escaped_end_tag_open(&mut self) {
        if self.read_raw_end_tag() || self.err.is_some() {
            return;
        }

        self.read_script_data_escaped();
    }

    fn read_script_data_double_escape_start(&mut self) {
        self.raw.end -= 1;

        for i in 0.."script".len() {
            let byte = self.read_byte();

            if self.err.is_some() {
                return;
            }

            if byte != b"script"[i] && byte != b"SCRIPT"[i] {
                self.raw.end -= 1;
                self.read_script_data_escaped();

                return;
            }
        }

        let byte = self.read_byte() as char;

        if self.err.is_some() {
            return;
        }

        match byte {
            ' ' | '\n' | '\r' | '\t' | '\x0c' | '/' | '>' => {
                self.read_script_data_double_escaped();
            }
            _ => {
                self.raw.end -= 1;
                self.read_script_data_escaped();
            }
        }
    }

    fn read_script_data_double_escaped(&mut self) {
        let byte = self.read_byte() as char;

        if self.err.is_some() {
            return;
        }

        match byte {
            '-' => {
                self.read_script_data_double_escaped_dash();
            }
            '<' => {
                self.read_script_data_double_escaped_less_than_sign();
            }
            _ => {
                self.read_script_data_double_escaped();
            }
        }
    }

    fn read_script_data_double_escaped_dash(&mut self) {
        let byte = self.read_byte() as char;

        if self.err.is_some() {
            return;
        }

        match byte {
            '-' => {
                self.read_script_data_double_escaped_dash_dash();
            }
            '<' => {
                self.read_script_data_double_escaped_less_than_sign();
            }
            _ => {
                self.read_script_data_double_escaped();
            }
        }
    }

    fn read_script_data_double_escaped_dash_dash(&mut self) {
        let byte = self.read_byte() as char;

        if self.err.is_some() {
            return;
        }

        match byte {
            '-' => {
                self.read_script_data_double_escaped_dash_dash();
            }
            '<' => {
                self.read_script_data_double_escaped_less_than_sign();
            }
            '>' => {
                self.read_script_data();
            }
            _ => {
                self.read_script_data_double_escaped();
            }
        }
    }

    fn read_script_data_double_escaped_less_than_sign(&mut self) {
        let byte = self.read_byte() as char;

        if self.err.is_some() {
            return;
        }

        if byte == '/' {
            self.read_script_data_double_escaped_end();

            return;
        }

        self.raw.end -= 1;
        self.read_script_data_double_escaped();
    }

    fn read_script_data_double_escaped_end(&mut self) {
        if self.read_raw_end_tag() {
            self.raw.end += "</script>".len();
            self.read_script_data_escaped();

            return;
        }

        if self.err.is_some() {
            return;
        }

        self.read_script_data_double_escaped();
    }

    fn read_comment(&mut self) {
        self.data.start = self.raw.end;
        let mut dash_count = 2;

        loop {
            let byte = self.read_byte() as char;

            if self.err.is_some() {
                if dash_count > 2 {
                    dash_count = 2;
                }

                self.data.end = self.raw.end - dash_count;

                break;
            }

            match byte {
                '-' => {
                    dash_count += 1;

                    continue;
                }
                '>' => {
                    if dash_count >= 2 {
                        self.data.end = self.raw.end - "-->".len();

                        break;
                    }
                }
                '!' => {
                    if dash_count >= 2 {
                        let byte = self.read_byte() as char;

                        if self.err.is_some() {
                            self.data.end = self.raw.end;

                            break;
                        }

                        if byte == '>' {
                            self.data.end = self.raw.end - "--!>".len();

                            break;
                        }
                    }
                }
                _ => {}
            }

            dash_count = 0;
        }

        if self.data.end < self.data.start {
            self.data.end = self.data.start;
        }
    }

    fn read_until_close_angle(&mut self) {
        self.data.start = self.raw.end;

        loop {
            let byte = self.read_byte() as char;

            if self.err.is_some() {
                self.data.end = self.raw.end;

                return;
            }

            if byte == '>' {
                self.data.end = self.raw.end - ">".len();

                return;
            }
        }
    }

    fn read_markup_declaration(&mut self) -> TokenType {
        self.data.start = self.raw.end;
        let first_byte = self.read_byte() as char;

        if self.err.is_some() {
            self.data.end = self.raw.end;

            return CommentToken;
        }

        let second_byte = self.read_byte() as char;

        if self.err.is_some() {
            self.data.end = self.raw.end;

            return CommentToken;
        }

        if first_byte == '-' && second_byte == '-' {
            self.read_comment();

            return CommentToken;
        }

        self.raw.end -= 2;

        if self.read_doc_type() {
            return DoctypeToken;
        }

        if self.allow_cdata && self.read_cdata() {
            self.convert_null = true;

            return TextToken;
        }

        self.read_until_close_angle();

        CommentToken
    }

    fn read_doc_type(&mut self) -> bool {
        let doctype = "DOCTYPE".to_string();

        for i in 0..doctype.len() {
            let byte = self.read_byte();

            if self.err.is_some() {
                self.data.end = self.raw.end;

                return false;
            }

            if byte != doctype.as_bytes()[i] && byte != doctype.as_bytes()[i] + (b'a' - b'A') {
                self.raw.end = self.data.start;

                return false;
            }
        }

        self.skip_white_space();

        if self.err.is_some() {
            self.data.start = self.raw.end;
            self.data.end = self.raw.end;

            return true;
        }

        self.read_until_close_angle();

        true
    }

    fn read_cdata(&mut self) -> bool {
        let cdata = "[CDATA[".to_string();

        for i in 0..cdata.len() {
            let byte = self.read_byte();

            if self.err.is_some() {
                self.data.end = self.raw.end;

                return false;
            }

            if byte != cdata.as_bytes()[i] {
                self.raw.end = self.data.start;

                return false;
            }
        }

        self.data.start = self.raw.end;
        let mut brackets = 0;

        loop {
            let byte = self.read_byte() as char;

            if self.err.is_some() {
                self.data.end = self.raw.end;

                return true;
            }

            match byte {
                ']' => {
                    brackets += 1;
                }
                '>' => {
                    if brackets > 2 {
                        self.data.end = self.raw.end - "]]>".len();

                        return true;
                    }

                    brackets = 0;
                }
                _ => {
                    brackets = 0;
                }
            }
        }
    }

    fn start_tag_in(&self, ss: Vec<String>) -> bool {
        'main: for s in ss {
            if self.data.end - self.data.start != s.len() {
                continue;
            }

            for i in 0..s.len() {
                let mut c = self.reader[self.data.start + i];

                if c.is_ascii_uppercase() {
                    c += b'a' - b'A';
                }

                if c != s.as_bytes()[i] {
                    continue 'main;
                }
            }

            return true;
        }

        false
    }

    fn read_start_tag(&mut self) -> Result<TokenType> {
        self.read_tag(true);

        if self.err.is_some() {
            return Ok(ErrorToken);
        }

        let mut raw = false;
        let mut byte = self.reader[self.data.start];

        if byte.is_ascii_uppercase() {
            byte += b'a' - b'A';
        }

        let byte_char = byte as char;

        match byte_char {
            'i' => {
                raw = self.start_tag_in(vec!["iframe".to_string()]);
            }
            'n' => {
                raw = self.start_tag_in(vec!["noembed".to_string(), "noframes".to_string(), "noscript".to_string()]);
            }
            'p' => {
                raw = self.start_tag_in(vec!["plaintext".to_string()]);
            }
            's' => {
                raw = self.start_tag_in(vec!["script".to_string(), "style".to_string()]);
            }
            't' => {
                raw = self.start_tag_in(vec!["textarea".to_string(), "title".to_string()]);
            }
            'x' => {
                raw = self.start_tag_in(vec!["xmp".to_string()]);
            }
            _ => {}
        }

        if raw {
            self.raw_tag = String::from_utf8(self.reader[self.data.start..self.data.end].to_vec())?.to_lowercase();
        }

        if self.err.is_none() && self.reader[self.raw.end - 2] == b'/' {
            return Ok(SelfClosingTagToken);
        }

        Ok(StartTagToken)
    }

    fn read_tag(&mut self, save_attr: bool) {
        self.attribute = self.attribute[..0].to_vec();
        self.number_attribute_returned = 0;
        self.read_tag_name();
        self.skip_white_space();

        if self.err.is_some() {
            return;
        }

        loop {
            let byte = self.read_byte() as char;

            if self.err.is_some() || byte == '>' {
                return;
            }

            self.raw.end -= 1;
            self.read_tag_name_attr_key();
            self.read_tag_name_attr_value();

            if save_attr && self.pending_attribute[0].start != self.pending_attribute[0].end {
                self.attribute.push(self.pending_attribute.clone());
            }

            self.skip_white_space();

            if self.err.is_some() {
                return;
            }
        }
    }

    fn read_tag_name(&mut self) {
        self.data.start = self.raw.end - 1;

        loop {
            let byte = self.read_byte() as char;

            if self.err.is_some() {
                self.data.end = self.raw.end;

                return;
            }

            match byte {
                ' ' | '\n' | '\r' | '\t' | '\x0c' => {
                    self.data.end = self.raw.end - 1;

                    return;
                }
                '/' | '>' => {
                    self.raw.end -= 1;
                    self.data.end = self.raw.end;

                    return;
                }
                _ => {}
            }
        }
    }

    fn read_tag_name_attr_key(&mut self) {
        self.pending_attribute[0].start = self.raw.end;

        loop {
            let byte = self.read_byte() as char;

            if self.err.is_some() {
                self.pending_attribute[0].end = self.raw.end;

                return;
            }

            match byte {
                ' ' | '\n' | '\r' | '\t' | '\x0c' | '/' => {
                    self.pending_attribute[0].end = self.raw.end - 1;

                    return;
                }
                '=' | '>' => {
                    self.raw.end -= 1;
                    self.pending_attribute[0].end = self.raw.end;

                    return;
                }
                _ => {}
            }
        }
    }

    fn read_tag_name_attr_value(&mut self) {
        self.pending_attribute[1].start = self.raw.end;
        self.pending_attribute[1].end = self.raw.end;
        self.skip_white_space();

        if self.err.is_some() {
            return;
        }

        let byte = self.read_byte() as char;

        if self.err.is_some() {
            return;
        }

        if byte != '=' {
            self.raw.end -= 1;

            return;
        }

        self.skip_white_space();

        if self.err.is_some() {
            return;
        }

        let quote = self.read_byte() as char;

        if self.err.is_some() {
            return;
        }

        match quote {
            '>' => {
                self.raw.end -= 1;
            }
            '\'' | '"' => {
                self.pending_attribute[1].start = self.raw.end;

                loop {
                    let byte = self.read_byte() as char;

                    if self.err.is_some() {
                        self.pending_attribute[1].end = self.raw.end;

                        return;
                    }

                    if byte == quote {
                        self.pending_attribute[1].end = self.raw.end - 1;

                        return;
                    }
                }
            }
            _ => {
                self.pending_attribute[1].start = self.raw.end - 1;

                loop {
                    let byte = self.read_byte() as char;

                    if self.err.is_some() {
                        self.pending_attribute[1].end = self.raw.end;

                        return;
                    }

                    match byte {
                        ' ' | '\n' | '\r' | '\t' | '\x0c' => {
                            self.pending_attribute[1].end = self.raw.end - 1;

                            return;
                        }
                        '>' => {
                            self.raw.end -= 1;
                            self.pending_attribute[1].end = self.raw.end;

                            return;
                        }
                        _ => {}
                    }
                }
            }
        }
    }
}

#[cfg(test)]
mod tests {
    macro_rules! html_tests {
        ($($name:ident: $value:expr,)*) => {
        $(
            #[test]
            fn $name() {
                let (html, golden) = $value;
                let reader = html.as_bytes().to_vec();
                let mut tokenizer = Tokenizer::new(reader);

                if !golden.is_empty() {
                    let splits = golden.split("$");

                    for split in splits {
                        let token_type = tokenizer.next().unwrap();

                        assert_ne!(token_type, ErrorToken);
                        let actual_token = tokenizer.token().unwrap();
                        assert_eq!(actual_token.to_string(), split);
                    }
                }

                tokenizer.next().unwrap();
                assert_eq!(true, tokenizer.err().is_some());
            }
        )*
        }
    }

    use super::*;

    html_tests! {
        empty: ("".to_string(), "".to_string()),
        text: ("foo  bar".to_string(), "foo  bar".to_string()),
        entity: ("one &lt; two".to_string(), "one &lt; two".to_string()),
        tags: ("<a>b<c/>d</e>".to_string(), "<a>$b$<c/>$d$</e>".to_string()),
        not_a_tag_0: ("<".to_string(), "<".to_string()),
        not_a_tag_1: ("</".to_string(), "</".to_string()),
        not_a_tag_2: ("</>".to_string(), "<!---->".to_string()),
        not_a_tag_3: ("a</>b".to_string(), "a$<!---->$b".to_string()),
        not_a_tag_4: ("</ >".to_string(), "<!-- -->".to_string()),
        not_a_tag_5: ("</.".to_string(), "<!--.-->".to_string()),
        not_a_tag_6: ("</.>".to_string(), "<!--.-->".to_string()),
        not_a_tag_7: ("a < b".to_string(), "a < b".to_string()),
        not_a_tag_8: ("<.>".to_string(), "<.>".to_string()),
        not_a_tag_9: ("a<<<b>>>c".to_string(), "a<<$<b>$>>c".to_string()),
        not_a_tag_10: ("i x<0 and y < 0 then x*y>0".to_string(), "i x<0 and y < 0 then x*y>0".to_string()),
        not_a_tag_11: ("<<p>".to_string(), "<$<p>".to_string()),
        tag_name_eof_0: ("<a".to_string(), "".to_string()),
        tag_name_eof_1: ("<a ".to_string(), "".to_string()),
        tag_name_eof_2: ("a<b".to_string(), "a".to_string()),
        tag_name_eof_3: ("<a><b ".to_string(), "<a>".to_string()),
        tag_name_eof_4: ("<a x ".to_string(), "".to_string()),
        malformed_tag_0: ("<p</p>".to_string(), "<p< p=\"\">".to_string()),
        malformed_tag_1: ("<p </p>".to_string(), "<p <=\"\" p=\"\">".to_string()),
        malformed_tag_2: ("<p id".to_string(), "".to_string()),
        malformed_tag_3: ("<p id=".to_string(), "".to_string()),
        malformed_tag_4: ("<p id=>".to_string(), "<p id=\"\">".to_string()),
        malformed_tag_5: ("<p id=0".to_string(), "".to_string()),
        malformed_tag_6: ("<p id=0</p>".to_string(), "<p id=\"0</p\">".to_string()),
        malformed_tag_7: ("<p id=\"0</p>".to_string(), "".to_string()),
        malformed_tag_8: ("<p id=\"0\"</p>".to_string(), "<p id=\"0\" <=\"\" p=\"\">".to_string()),
        malformed_tag_9: ("<p></p id".to_string(), "<p>".to_string()),
        basic_raw_text: ("<script><a></b></script>".to_string(), "<script>$<a></b>$</script>".to_string()),
        unfinished_script_end_tag: ("<SCRIPT>a</SCR".to_string(), "<script>$a</SCR".to_string()),
        broken_script_end_tag: ("<SCRIPT>a</SCR ipt>".to_string(), "<script>$a</SCR ipt>".to_string()),
        eof_in_script_end_tag: ("<SCRIPT>a</SCRipt".to_string(), "<script>$a</SCRipt".to_string()),
        scriptx_end_tag: ("<SCRIPT>a</SCRiptx".to_string(), "<script>$a</SCRiptx".to_string()),
        space_completes_script_end_tag: ("<SCRIPT>a</SCRipt ".to_string(), "<script>$a".to_string()),
        sup_completes_script_end_tag: ("<SCRIPT>a</SCRipt>".to_string(), "<script>$a$</script>".to_string()),
        nested_script_tag: ("<SCRIPT>a</SCRipt<script>".to_string(), "<script>$a</SCRipt<script>".to_string()),
        script_end_tag_after_unfinihsed: ("<SCRIPT>a</SCRipt</script>".to_string(), "<script>$a</SCRipt$</script>".to_string()),
        script_style_mistmatched_tag: ("<script>a</style>".to_string(), "<script>$a</style>".to_string()),
        style_element_with_entity: ("<style>&apos;".to_string(), "<style>$&apos;".to_string()),
        textarea_with_tag: ("<textarea><div></textarea>".to_string(), "<textarea>$<div>$</textarea>".to_string()),
        title_with_tag_and_entity: ("<title><b>K&amp;R C</b></title>".to_string(), "<title>$<b>K&amp;R C</b>$</title>".to_string()),
        proper_doctype: ("<!DOCTYPE html>".to_string(), "<!DOCTYPE html>".to_string()),
        doctype_with_no_space: ("<!doctypehtml>".to_string(), "<!DOCTYPE html>".to_string()),
        doctype_with_two_space: ("<!doctype  html>".to_string(), "<!DOCTYPE html>".to_string()),
        doctype_looks_like: ("<!DOCUMENT html>".to_string(), "<!--DOCUMENT html-->".to_string()),
        doctype_at_eof: ("<!DOCTYPE".to_string(), "<!DOCTYPE >".to_string()),
        xml_processing_instruction: ("<?xml?>".to_string(), "<!--?xml?-->".to_string()),
        comment_0: ("abc<b><!-- skipme --></b>def".to_string(), "abc$<b>$<!-- skipme -->$</b>$def".to_string()),
        comment_1: ("a<!-->z".to_string(), "a$<!---->$z".to_string()),
        comment_2: ("a<!--->z".to_string(), "a$<!---->$z".to_string()),
        comment_3: ("a<!--x>-->z".to_string(), "a$<!--x>-->$z".to_string()),
        comment_4: ("a<!--x->-->z".to_string(), "a$<!--x->-->$z".to_string()),
        comment_5: ("a<!>z".to_string(), "a$<!---->$z".to_string()),
        comment_6: ("a<!->z".to_string(), "a$<!----->$z".to_string()),
        comment_7: ("a<!---<>z".to_string(), "a$<!---<>z-->".to_string()),
        comment_8: ("a<!--z".to_string(), "a$<!--z-->".to_string()),
        comment_9: ("a<!--z-".to_string(), "a$<!--z-->".to_string()),
        comment_10: ("a<!--z--".to_string(), "a$<!--z-->".to_string()),
        comment_11: ("a<!--z---".to_string(), "a$<!--z--->".to_string()),
        comment_12: ("a<!--z----".to_string(), "a$<!--z---->".to_string()),
        comment_13: ("a<!--x--!>z".to_string(), "a$<!--x-->$z".to_string()),
        backslash: ("<p id=\"a\\\"b\">".to_string(), "<p id=\"a\\\" b\"=\"\">".to_string()),
        tricky: ("<p \t\n iD=\"a&quot;B\"  foo=\"bar\"><EM>te&lt;&amp;;xt</em></p>".to_string(), "<p id=\"a&quot;B\" foo=\"bar\">$<em>$te&lt;&amp;;xt$</em>$</p>".to_string()),
        no_such_entity: ("<a b=\"c&noSuchEntity;d\">&lt;&alsoDoesntExist;&".to_string(), "<a b=\"c&noSuchEntity;d\">$&lt;&alsoDoesntExist;&".to_string()),
        entity_without_semicolon: ("&notit;&notin;<a b=\"q=z&amp=5&notice=hello&not;=world\">".to_string(), "&notit;&notin;$<a b=\"q=z&amp=5&notice=hello&not;=world\">".to_string()),
        attribute_empty: ("<input disabled FOO>".to_string(), "<input disabled=\"\" foo=\"\">".to_string()),
        attribute_empty_with_space: ("<input disabled FOO >".to_string(), "<input disabled=\"\" foo=\"\">".to_string()),
        attribute_unquoted: ("<input value=yes FOO=BAR>".to_string(), "<input value=\"yes\" foo=\"BAR\">".to_string()),
        attribute_unquoted_with_space: ("<input value = yes FOO = BAR>".to_string(), "<input value=\"yes\" foo=\"BAR\">".to_string()),
        attribute_unquoted_with_trailing_space: ("<input value=yes FOO=BAR >".to_string(), "<input value=\"yes\" foo=\"BAR\">".to_string()),
        attribute_value_single_quoted: ("<input value='yes' FOO='BAR'>".to_string(), "<input value=\"yes\" foo=\"BAR\">".to_string()),
        attribute_value_single_quoted_with_trailing_space: ("<input value='yes' FOO='BAR' >".to_string(), "<input value=\"yes\" foo=\"BAR\">".to_string()),
        attribute_value_double_quoted: ("<input value=\"I'm an attribute\" FOO=\"BAR\">".to_string(), "<input value=\"I'm an attribute\" foo=\"BAR\">".to_string()),
        attribute_name_characters: ("<meta http-equiv=\"content-type\">".to_string(), "<meta http-equiv=\"content-type\">".to_string()),
        attribute_mixed: ("a<P V=\"0 1\" w='2' X=3 y>z".to_string(), "a$<p v=\"0 1\" w=\"2\" x=\"3\" y=\"\">$z".to_string()),
        attribute_with_a_solitary_single_quote: ("<p id=can't><p id=won't>".to_string(), "<p id=\"can't\">$<p id=\"won't\">".to_string()),
    }
}
