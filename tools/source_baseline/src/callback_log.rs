use crate::ffi_helpers::string_to_c_char;
use log::{Metadata, Record};
use std::os::raw::{c_char, c_short, c_void};
use std::sync::Once;

#[allow(non_camel_case_types)]
pub type redirectionio_log_callback = extern "C" fn(*const c_char, *const c_void, c_short);

pub struct CallbackLogger {
    pub callback: Option<redirectionio_log_callback>,
    pub data: Option<&'static c_void>,
}

impl log::Log for CallbackLogger {
    fn enabled(&self, _metadata: &Metadata) -> bool {
        true
    }

    fn log(&self, record: &Record) {
        if self.callback.is_none() {
            return;
        }

        if self.data.is_none() {
            return;
        }

        if self.enabled(record.metadata()) {
            let log_str = format!("{} - {}", record.level(), record.args());
            let cstr = string_to_c_char(log_str);

            (self.callback.unwrap())(cstr, self.data.unwrap(), record.level() as i16);
        }
    }

    fn flush(&self) {}
}

static INIT: Once = Once::new();

#[unsafe(no_mangle)]
pub extern "C" fn redirectionio_log_init_stderr() {
    // Only one logger can be installed per process: a second call must not abort the host
    if let Err(err) = stderrlog::new().init() {
        log::error!("cannot init stderr logger: {}", err);
    }
}

#[unsafe(no_mangle)]
pub unsafe extern "C" fn redirectionio_log_init_with_callback(callback: redirectionio_log_callback, data: &'static c_void) {
    let logger = CallbackLogger {
        callback: Some(callback),
        data: Some(data),
    };

    INIT.call_once(|| {
        if let Err(err) = log::set_boxed_logger(Box::new(logger)).map(|()| log::set_max_level(log::LevelFilter::Trace)) {
            log::error!("cannot set logger: {}", err);
        }
    });
}
