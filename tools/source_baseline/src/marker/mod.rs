mod transformer;

use serde::{Deserialize, Serialize};
use std::collections::HashMap;
use std::sync::{Arc, RwLock};

use crate::regex::LazyRegex;
pub use transformer::{Camelize, Dasherize, Lowercase, Replace, Slice, Transform, Underscorize, Uppercase};

#[derive(Serialize, Deserialize, Debug, Clone)]
pub struct Marker {
    name: String,
    regex: String,
}

#[derive(Serialize, Debug, Clone)]
pub enum StaticOrDynamic {
    Static(String),
    Dynamic(MarkerString),
}

#[derive(Serialize, Debug, Clone)]
pub struct MarkerString {
    pub regex: String,
    pub capture: String,
    pub ignore_case: bool,
    markers: HashMap<String, String>,
    #[serde(skip)]
    regex_capture: Arc<RwLock<LazyRegex>>,
}

impl Marker {
    pub fn new(name: String, regex: String) -> Marker {
        Marker { name, regex }
    }

    pub fn format(&self) -> String {
        format!("@{}", self.name)
    }
}

impl MarkerString {
    pub fn new(str: &str, mut markers: Vec<Marker>, ignore_case: bool) -> Option<MarkerString> {
        // Create regex string
        let mut regex = regex::escape(str);
        let mut capture = regex.clone();
        let mut marker_map = HashMap::new();

        // Sort markers by length
        markers.sort_by(|a, b| b.name.len().cmp(&a.name.len()));

        // Foreach marker replace
        for marker in &markers {
            let marker_regex = format!("(?:{})", marker.regex);
            let marker_capture = format!("(?P<{}>{})", marker.name, marker.regex);

            if regex.contains(marker.format().as_str()) {
                regex = regex.replace(marker.format().as_str(), marker_regex.as_str());
                // A group name can be declared only once: capture the first occurrence, only match the next ones
                capture = capture
                    .replacen(marker.format().as_str(), marker_capture.as_str(), 1)
                    .replace(marker.format().as_str(), marker_regex.as_str());
                marker_map.insert(marker.name.clone(), marker_capture);
            }
        }

        if marker_map.is_empty() {
            return None;
        }

        Some(MarkerString {
            regex,
            regex_capture: Arc::new(RwLock::new(LazyRegex::new_leaf(capture.as_str(), ignore_case))),
            capture,
            markers: marker_map,
            ignore_case,
        })
    }

    pub fn capture(&self, str: &str) -> HashMap<String, String> {
        let mut parameters = HashMap::new();

        let regex = match self.regex_capture.read() {
            Ok(regex) => match regex.regex() {
                Some(regex) => regex,
                None => return parameters,
            },
            Err(_) => return parameters,
        };

        let capture = match regex.captures(str) {
            None => return parameters,
            Some(capture) => capture,
        };

        for named_group in regex.capture_names() {
            let name = match named_group {
                None => continue,
                Some(group) => group,
            };

            let value = match capture.name(name) {
                None => continue,
                Some(matched) => matched.as_str().to_string(),
            };

            parameters.insert(name.to_string(), value);
        }

        parameters
    }

    pub fn compile(&self) -> bool {
        match self.regex_capture.write() {
            Ok(mut regex) => {
                *regex = regex.compile();

                true
            }
            Err(_) => false,
        }
    }
}

impl StaticOrDynamic {
    pub fn new_with_markers(str: &str, markers: Vec<Marker>, ignore_case: bool) -> StaticOrDynamic {
        if markers.is_empty() {
            if ignore_case {
                return StaticOrDynamic::Static(str.to_lowercase());
            }

            return StaticOrDynamic::Static(str.to_string());
        }

        match MarkerString::new(str, markers, ignore_case) {
            None => StaticOrDynamic::Static(if ignore_case { str.to_lowercase() } else { str.to_string() }),
            Some(marker) => StaticOrDynamic::Dynamic(marker),
        }
    }

    pub fn capture(&self, str: &str) -> HashMap<String, String> {
        match self {
            StaticOrDynamic::Static(_) => HashMap::new(),
            StaticOrDynamic::Dynamic(marker_string) => marker_string.capture(str),
        }
    }

    /// Variables must be sorted by name length, longest first
    pub fn replace(str: String, variables: &[(String, String)]) -> String {
        // One pass over the template: at each '@' the longest known name wins, and a substituted value is never
        // scanned again (a value containing "@other", or a value joining the text before it into a longer name)
        let mut result = String::with_capacity(str.len());
        let mut rest = str.as_str();

        'template: while let Some(at) = rest.find('@') {
            result.push_str(&rest[..at]);
            let after = &rest[at + 1..];

            for (name, value) in variables {
                if after.starts_with(name.as_str()) {
                    result.push_str(value.as_str());
                    rest = &after[name.len()..];

                    continue 'template;
                }
            }

            result.push('@');
            rest = after;
        }

        result.push_str(rest);

        result
    }

    pub fn compile(&self) -> bool {
        match self {
            StaticOrDynamic::Static(_) => false,
            StaticOrDynamic::Dynamic(marker_string) => marker_string.compile(),
        }
    }
}
