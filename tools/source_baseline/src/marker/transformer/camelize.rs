use crate::marker::Transform;
use heck::ToLowerCamelCase;

#[derive(Default)]
pub struct Camelize;

impl Transform for Camelize {
    fn transform(&self, str: String) -> String {
        str.to_lower_camel_case()
    }
}
