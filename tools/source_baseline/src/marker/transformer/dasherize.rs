use crate::marker::Transform;
use heck::ToKebabCase;

#[derive(Default)]
pub struct Dasherize;

impl Transform for Dasherize {
    fn transform(&self, str: String) -> String {
        str.to_kebab_case()
    }
}
