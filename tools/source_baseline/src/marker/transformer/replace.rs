use crate::marker::Transform;

pub struct Replace {
    something: String,
    with: String,
}

impl Transform for Replace {
    fn transform(&self, str: String) -> String {
        str.replace(self.something.as_str(), self.with.as_str())
    }
}

impl Replace {
    pub fn new(something: String, with: String) -> Replace {
        Replace { something, with }
    }
}
