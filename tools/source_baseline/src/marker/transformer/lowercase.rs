use crate::marker::Transform;

#[derive(Default)]
pub struct Lowercase;

impl Transform for Lowercase {
    fn transform(&self, str: String) -> String {
        str.to_lowercase()
    }
}
