use crate::marker::Transform;

#[derive(Default)]
pub struct Uppercase;

impl Transform for Uppercase {
    fn transform(&self, str: String) -> String {
        str.to_uppercase()
    }
}
