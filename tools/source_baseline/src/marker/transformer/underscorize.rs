use crate::marker::Transform;
use heck::ToSnakeCase;

#[derive(Default)]
pub struct Underscorize;

impl Transform for Underscorize {
    fn transform(&self, str: String) -> String {
        str.to_snake_case()
    }
}
