use crate::marker::Transform;

pub struct Slice {
    from: usize,
    to: Option<usize>,
}

impl Transform for Slice {
    fn transform(&self, str: String) -> String {
        let from = self.from;
        let mut to = self.to.unwrap_or(str.len());

        if from > str.len() {
            return "".to_string();
        }

        if to > str.len() {
            to = str.len();
        }

        // from > to, or an index inside a multi-byte character, selects nothing
        str.get(from..to).unwrap_or_default().to_string()
    }
}

impl Slice {
    pub fn new(from: usize, to: Option<usize>) -> Slice {
        Slice { from, to }
    }
}
