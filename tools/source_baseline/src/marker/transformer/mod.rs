mod camelize;
mod dasherize;
mod lowercase;
mod replace;
mod slice;
mod underscorize;
mod uppercase;

pub use camelize::Camelize;
pub use dasherize::Dasherize;
pub use lowercase::Lowercase;
pub use replace::Replace;
pub use slice::Slice;
pub use underscorize::Underscorize;
pub use uppercase::Uppercase;

pub trait Transform {
    fn transform(&self, str: String) -> String;
}
