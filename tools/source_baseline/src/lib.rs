/*!
This crate provides a library for matching, handling and logging http requests with redirectionio
rule format.
*/

pub mod action;
pub mod api;
pub mod filter;
pub mod html;
pub mod http;
pub mod marker;
#[cfg(feature = "router")]
pub mod regex_radix_tree;
#[cfg(feature = "router")]
pub mod router;

#[cfg(not(target_arch = "wasm32"))]
mod callback_log;
#[cfg(feature = "dot")]
mod dot;
#[cfg(not(target_arch = "wasm32"))]
mod ffi_helpers;
mod regex;
mod router_config;
#[cfg(feature = "wasmbind")]
#[cfg(target_arch = "wasm32")]
mod wasm_api;

pub use router_config::RouterConfig;
