use crate::marker::MarkerString;
use serde::Serialize;
use std::collections::HashMap;

#[derive(Serialize, Debug, Clone)]
pub enum RouteHeaderKind {
    IsDefined,
    IsNotDefined,
    IsEquals(String),
    IsNotEqualTo(String),
    Contains(String),
    DoesNotContain(String),
    EndsWith(String),
    StartsWith(String),
    MatchRegex(MarkerString),
}

#[derive(Serialize, Debug, Clone)]
pub struct RouteHeader {
    pub kind: RouteHeaderKind,
    pub name: String,
}

impl RouteHeader {
    pub fn capture(&self, str: &str) -> HashMap<String, String> {
        match &self.kind {
            RouteHeaderKind::MatchRegex(marker_string) => marker_string.capture(str),
            _ => HashMap::new(),
        }
    }
}
