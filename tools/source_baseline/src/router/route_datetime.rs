use chrono::{DateTime, NaiveDateTime, Utc};
use serde::{Deserialize, Serialize};
use std::fmt::Display;

#[derive(Clone, Debug, Hash, Serialize, Deserialize, Eq, PartialEq, Ord, PartialOrd)]
pub struct RouteDateTime {
    pub start: Option<NaiveDateTime>,
    pub end: Option<NaiveDateTime>,
}

impl RouteDateTime {
    pub fn from_range(start: &Option<String>, end: &Option<String>) -> RouteDateTime {
        let mut route_start = None;
        let mut route_end = None;
        match start {
            None => (),
            Some(datetime) => match datetime.parse::<DateTime<Utc>>() {
                Ok(dt) => route_start = Some(dt.naive_utc()),
                Err(err) => {
                    log::error!("cannot parse datetime {}: {}", datetime, err);
                }
            },
        }
        match end {
            None => (),
            Some(datetime) => match datetime.parse::<DateTime<Utc>>() {
                Ok(dt) => route_end = Some(dt.naive_utc()),
                Err(err) => {
                    log::error!("cannot parse datetime {}: {}", datetime, err);
                }
            },
        }

        RouteDateTime {
            start: route_start,
            end: route_end,
        }
    }

    pub fn match_datetime(&self, datetime: &DateTime<Utc>) -> bool {
        let naive_datetime = datetime.naive_utc();
        match self.start {
            None => match self.end {
                None => true,
                Some(end) => naive_datetime < end,
            },
            Some(start) => match self.end {
                None => naive_datetime >= start,
                Some(end) => (naive_datetime >= start) && (naive_datetime < end),
            },
        }
    }
}

impl Display for RouteDateTime {
    fn fmt(&self, f: &mut std::fmt::Formatter<'_>) -> std::fmt::Result {
        let str = match self.start {
            None => match self.end {
                None => "always".to_string(),
                Some(end) => format!("before({})", end.format("%Y-%m-%d %H:%M:%S")),
            },
            Some(start) => match self.end {
                None => format!("after({})", start.format("%Y-%m-%d %H:%M:%S")),
                Some(end) => format!("in({}, {})", start.format("%Y-%m-%d %H:%M:%S"), end.format("%Y-%m-%d %H:%M:%S")),
            },
        };
        write!(f, "{}", str)
    }
}
