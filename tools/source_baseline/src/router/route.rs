use super::RouteHeader;
use super::route_datetime::RouteDateTime;
use super::route_ip::RouteIp;
use super::route_time::RouteTime;
use super::route_weekday::RouteWeekday;
#[cfg(feature = "dot")]
use crate::dot::DotBuilder;
use crate::http::Request;
use crate::marker::StaticOrDynamic;
use crate::router::RouterConfig;
#[cfg(feature = "dot")]
use dot_graph::{Graph, Node as GraphNode};
use serde::Serialize;
use std::cmp::Ordering;
use std::collections::HashMap;
use std::fmt::Debug;
#[cfg(feature = "dot")]
use std::sync::Arc;

#[derive(Serialize, Debug, Clone)]
pub struct Route<T> {
    handler: T,
    scheme: Option<String>,
    host: Option<StaticOrDynamic>,
    methods: Option<Vec<String>>,
    exclude_methods: Option<bool>,
    path_and_query: StaticOrDynamic,
    headers: Vec<RouteHeader>,
    ips: Option<Vec<RouteIp>>,
    datetime: Option<Vec<RouteDateTime>>,
    time: Option<Vec<RouteTime>>,
    weekdays: Option<RouteWeekday>,
    id: String,
    priority: i64,
}

impl<T> Route<T> {
    #[allow(clippy::too_many_arguments)]
    pub fn new(
        methods: Option<Vec<String>>,
        exclude_methods: Option<bool>,
        scheme: Option<String>,
        host: Option<StaticOrDynamic>,
        path_and_query: StaticOrDynamic,
        headers: Vec<RouteHeader>,
        ips: Option<Vec<RouteIp>>,
        datetime: Option<Vec<RouteDateTime>>,
        time: Option<Vec<RouteTime>>,
        weekdays: Option<RouteWeekday>,
        id: String,
        priority: i64,
        handler: T,
    ) -> Route<T> {
        Route {
            handler,
            scheme,
            host,
            methods,
            exclude_methods,
            path_and_query,
            headers,
            ips,
            datetime,
            time,
            weekdays,
            id,
            priority,
        }
    }

    pub fn handler(&self) -> &T {
        &self.handler
    }

    pub fn host(&self) -> Option<&StaticOrDynamic> {
        self.host.as_ref()
    }

    pub fn scheme(&self) -> Option<&str> {
        Some(self.scheme.as_ref()?.as_str())
    }

    pub fn headers(&self) -> &Vec<RouteHeader> {
        self.headers.as_ref()
    }

    pub fn methods(&self) -> Option<&Vec<String>> {
        self.methods.as_ref()
    }

    pub fn exclude_methods(&self) -> Option<bool> {
        self.exclude_methods
    }

    pub fn priority(&self) -> i64 {
        self.priority
    }

    pub fn path_and_query(&self) -> &StaticOrDynamic {
        &self.path_and_query
    }

    pub fn ips(&self) -> Option<&Vec<RouteIp>> {
        self.ips.as_ref()
    }

    pub fn datetime(&self) -> Option<&Vec<RouteDateTime>> {
        self.datetime.as_ref()
    }

    pub fn time(&self) -> Option<&Vec<RouteTime>> {
        self.time.as_ref()
    }

    pub fn weekdays(&self) -> Option<&RouteWeekday> {
        self.weekdays.as_ref()
    }

    pub fn id(&self) -> &str {
        self.id.as_str()
    }

    pub fn capture(&self, request: &Request) -> HashMap<String, String> {
        let path = request.path_and_query_skipped.path_and_query.as_str();
        let mut parameters = self.path_and_query().capture(path);

        if let Some(host) = self.host() {
            if let Some(request_host) = request.host.as_ref() {
                parameters.extend(host.capture(request_host));
            }
        }

        for header in self.headers() {
            for request_header in &request.headers {
                if request_header.name.to_lowercase() != header.name.to_lowercase() {
                    continue;
                }

                parameters.extend(header.capture(request_header.value.as_str()));
            }
        }

        parameters
    }

    pub fn compile(&self) -> u8 {
        let mut compiled = 0;

        if self.path_and_query.compile() {
            compiled += 1;
        }

        if let Some(host) = &self.host {
            if host.compile() {
                compiled += 1;
            }
        }

        compiled
    }
}

impl<T> PartialEq for Route<T>
where
    T: PartialEq,
{
    fn eq(&self, other: &Self) -> bool {
        self.handler.eq(&other.handler)
    }
}

impl<T> Eq for Route<T> where T: PartialEq {}

impl<T> PartialOrd for Route<T>
where
    T: PartialOrd,
{
    fn partial_cmp(&self, other: &Self) -> Option<Ordering> {
        self.handler.partial_cmp(&other.handler)
    }
}

impl<T> Ord for Route<T>
where
    T: Ord,
{
    fn cmp(&self, other: &Self) -> Ordering {
        self.handler.cmp(&other.handler)
    }
}

pub trait IntoRoute<T> {
    fn into_route(self, config: &RouterConfig) -> Route<T>;
}

#[cfg(feature = "dot")]
impl<V> DotBuilder for Arc<Route<V>> {
    fn graph(&self, id: &mut u32, graph: &mut Graph) -> Option<String> {
        let node_name = format!("route_{}", id);
        *id += 1;

        graph.add_node(GraphNode::new(node_name.as_str()).label(self.id.as_str()));

        Some(node_name)
    }
}
