use cidr::AnyIpCidr;
use serde::{Deserialize, Serialize};
use std::fmt::Display;
use std::net::IpAddr;

#[derive(Clone, Debug, Hash, Serialize, Deserialize, Eq, PartialEq)]
pub enum RouteIp {
    InRange(AnyIpCidr),
    NotInRange(AnyIpCidr),
}

impl RouteIp {
    pub fn match_ip(&self, ip: &IpAddr) -> bool {
        match self {
            Self::InRange(in_range) => in_range.contains(ip),
            Self::NotInRange(not_in_range) => !not_in_range.contains(ip),
        }
    }
}

impl Display for RouteIp {
    fn fmt(&self, f: &mut std::fmt::Formatter<'_>) -> std::fmt::Result {
        let str = match self {
            Self::InRange(in_range) => format!("in({in_range})"),
            Self::NotInRange(not_in_range) => format!("not_in({not_in_range})"),
        };
        write!(f, "{}", str)
    }
}
