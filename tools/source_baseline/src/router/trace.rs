use super::request_matcher::{DateTimeCondition, HeaderValueCondition};
use super::route::Route;
use serde::Serialize;
use std::sync::Arc;

#[derive(Serialize, Debug, Clone)]
pub struct RouteTrace<T> {
    traces: Vec<Trace<T>>,
    routes: Vec<Arc<Route<T>>>,
    final_route: Option<Arc<Route<T>>>,
}

#[derive(Serialize, Debug, Clone)]
pub struct Trace<T> {
    pub(crate) matched: bool,
    pub(crate) executed: bool,
    pub(crate) count: u64,
    #[serde(flatten)]
    pub(crate) info: TraceInfo<T>,
    pub(crate) children: Vec<Trace<T>>,
}

#[derive(Serialize, Debug, Clone)]
#[serde(rename_all = "snake_case")]
#[serde(tag = "type")]
pub enum TraceInfo<T> {
    Scheme { request: String, against: Option<String> },
    HostStatic { request: String, against: Option<String> },
    HostRegex,
    Ip { request: String, against: String },
    DateTimeGroup { conditions: Vec<TraceInfoDateTimeCondition> },
    Method { request: String, against: Option<String> },
    ExcludeMethods { request: String, against: Option<Vec<String>> },
    HeaderGroup { conditions: Vec<TraceInfoHeaderCondition> },
    PathAndQueryStatic { request: String },
    PathAndQueryRegex,
    Regex { request: String, against: String },
    Storage { routes: Vec<Arc<Route<T>>> },
}

#[derive(Serialize, Debug, Clone)]
pub struct TraceInfoHeaderCondition {
    pub result: Option<bool>,
    pub name: String,
    pub condition: HeaderValueCondition,
    pub cached: bool,
}

#[derive(Serialize, Debug, Clone)]
pub struct TraceInfoDateTimeCondition {
    pub result: Option<bool>,
    pub condition: DateTimeCondition,
    pub cached: bool,
}

impl<T> RouteTrace<T> {
    pub fn new(traces: Vec<Trace<T>>, routes: Vec<Arc<Route<T>>>, final_route: Option<Arc<Route<T>>>) -> RouteTrace<T> {
        RouteTrace {
            traces,
            routes,
            final_route,
        }
    }
}

impl<T> Trace<T> {
    pub fn new(matched: bool, executed: bool, count: u64, children: Vec<Trace<T>>, info: TraceInfo<T>) -> Trace<T> {
        Trace {
            matched,
            executed,
            count,
            info,
            children,
        }
    }

    pub fn get_routes_from_traces(traces: &[Trace<T>]) -> Vec<Arc<Route<T>>> {
        let mut routes = Vec::new();

        for trace in traces {
            if let TraceInfo::Storage { routes: routes_stored } = &trace.info {
                routes.extend(routes_stored.clone());
            }

            if !trace.children.is_empty() {
                routes.extend(Trace::get_routes_from_traces(&trace.children));
            }
        }

        // A route listing several ip ranges is stored, and traced, once per range: report it once
        let mut seen = std::collections::HashSet::new();
        routes.retain(|route: &Arc<Route<T>>| seen.insert(route.id().to_string()));

        routes
    }
}
