pub mod request_matcher;
mod route;
mod route_datetime;
mod route_header;
mod route_ip;
mod route_time;
mod route_weekday;
mod trace;

#[cfg(feature = "dot")]
use crate::dot::DotBuilder;
use crate::http::Request;
use crate::router_config::RouterConfig;
use core::cmp::Reverse;
#[cfg(feature = "dot")]
use dot_graph::{Edge, Graph, Kind, Node};
pub use request_matcher::{DateTimeMatcher, HostMatcher, IpMatcher, MethodMatcher, PathAndQueryMatcher, SchemeMatcher};
pub use route::{IntoRoute, Route};
pub use route_datetime::RouteDateTime;
pub use route_header::{RouteHeader, RouteHeaderKind};
pub use route_ip::RouteIp;
pub use route_time::RouteTime;
pub use route_weekday::RouteWeekday;
use std::collections::{HashMap, HashSet};
use std::sync::Arc;
pub use trace::{RouteTrace, Trace};

#[derive(Debug, Clone)]
pub struct Router<T> {
    matcher: SchemeMatcher<T>,
    pub config: Arc<RouterConfig>,
    pub routes: HashMap<String, Arc<Route<T>>>,
}

impl<T> Default for Router<T> {
    fn default() -> Self {
        let config = Arc::new(RouterConfig::default());

        Router {
            matcher: SchemeMatcher::new(config.clone()),
            config,
            routes: HashMap::new(),
        }
    }
}

impl<T> Router<T> {
    pub fn from_config(config: RouterConfig) -> Self {
        Self::from_arc_config(Arc::new(config))
    }

    pub fn from_arc_config(config: Arc<RouterConfig>) -> Self {
        Self {
            matcher: SchemeMatcher::new(config.clone()),
            config,
            routes: HashMap::new(),
        }
    }

    pub fn insert_route(&mut self, route: Route<T>) {
        let arc_route = Arc::new(route);

        self.matcher.insert(arc_route.clone());
        self.routes.insert(arc_route.id().to_string(), arc_route);
    }

    pub fn get_route_by_id(&self, id: &str) -> Option<Arc<Route<T>>> {
        self.routes.get(id).cloned()
    }

    pub fn remove(&mut self, id: &str) -> Option<Arc<Route<T>>> {
        if self.routes.contains_key(id) {
            self.routes.remove(id);

            self.matcher.remove(id)
        } else {
            None
        }
    }

    pub fn batch_remove(&mut self, ids: &HashSet<String>) {
        self.routes.retain(|id, _| !ids.contains(id));
        self.matcher.batch_remove(ids);
    }

    pub fn rebuild_request(&self, request: &Request) -> Request {
        Request::rebuild_with_config(self.config.as_ref(), request)
    }

    pub fn match_request(&self, request: &Request) -> Vec<Arc<Route<T>>> {
        self.matcher.match_request(request)
    }

    pub fn len(&self) -> usize {
        self.routes.len()
    }

    pub fn is_empty(&self) -> bool {
        self.routes.is_empty()
    }

    pub fn routes(&self) -> &HashMap<String, Arc<Route<T>>> {
        &self.routes
    }

    pub fn trace_request(&self, request: &Request) -> Vec<Trace<T>> {
        let request_rebuild = Request::rebuild_with_config(self.config.as_ref(), request);

        self.matcher.trace(&request_rebuild)
    }

    pub fn get_route(&self, request: &Request) -> Option<Arc<Route<T>>> {
        let mut routes = self.match_request(request);

        if routes.is_empty() {
            return None;
        }

        routes.sort_by_key(|b| Reverse(b.priority()));
        routes.first().cloned()
    }

    pub fn get_trace(&self, request: &Request) -> RouteTrace<T> {
        let traces = self.trace_request(request);
        let mut routes_traces = Trace::get_routes_from_traces(&traces);
        let mut routes = Vec::new();

        for route in &routes_traces {
            routes.push(route.clone());
        }

        routes_traces.sort_by_key(|b| Reverse(b.priority()));

        let final_route = routes_traces.first().cloned();

        RouteTrace::new(traces, routes, final_route)
    }

    pub fn cache(&mut self, limit: Option<u64>) {
        let mut prev_cache_limit = match limit {
            Some(limit) => limit as i64,
            None => (self.routes.len() / 10).clamp(100, 10_000) as i64,
        };

        let mut level = 0;
        let mut retry = 0;

        while prev_cache_limit > 0 {
            let next_cache_limit = self.matcher.cache(prev_cache_limit as u64, level) as i64;

            if next_cache_limit == prev_cache_limit {
                retry += 1;

                if retry > 5 {
                    break;
                }
            }

            level += 1;
            prev_cache_limit = next_cache_limit;
        }

        if prev_cache_limit > 0 {
            for route in self.routes.values() {
                prev_cache_limit -= route.compile() as i64;

                if prev_cache_limit <= 0 {
                    break;
                }
            }
        }
    }

    #[cfg(feature = "dot")]
    pub fn graph(&self) -> Graph {
        let mut graph = Graph::new("router", Kind::Digraph);
        graph.add_node(Node::new("router"));

        let mut id = 0;

        if let Some(key) = self.matcher.graph(&mut id, &mut graph) {
            graph.add_edge(Edge::new("router", &key, ""));
        }

        graph
    }
}

impl<T> Router<T>
where
    T: IntoRoute<T>,
{
    pub fn insert(&mut self, item: T) {
        self.insert_route(item.into_route(self.config.as_ref()));
    }

    pub fn apply_change_set(&mut self, added: Vec<T>, updated: Vec<T>, mut removed: HashSet<String>) {
        let updated_route = updated
            .into_iter()
            .map(|item| item.into_route(self.config.as_ref()))
            .collect::<Vec<Route<T>>>();

        removed.extend(updated_route.iter().map(|item| item.id().to_string()));
        self.batch_remove(&removed);

        for item in updated_route {
            self.insert_route(item);
        }

        for item in added {
            self.insert(item);
        }
    }
}
