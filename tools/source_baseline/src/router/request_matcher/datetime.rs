use super::super::request_matcher::PathAndQueryMatcher;
use super::super::route_datetime::RouteDateTime;
use super::super::route_time::RouteTime;
use super::super::route_weekday::RouteWeekday;
use super::super::trace::{TraceInfo, TraceInfoDateTimeCondition};
use super::super::{Route, RouterConfig, Trace};
#[cfg(feature = "dot")]
use crate::dot::DotBuilder;
use crate::http::Request;
#[cfg(feature = "dot")]
use dot_graph::{Edge, Graph, Node};
use serde::{Deserialize, Serialize};
use std::collections::BTreeSet;
use std::collections::{BTreeMap, HashSet};
use std::sync::Arc;

#[derive(Debug, Clone)]
pub struct DateTimeMatcher<T> {
    any_datetime: PathAndQueryMatcher<T>,
    conditions: BTreeSet<DateTimeCondition>,
    condition_groups: BTreeMap<BTreeSet<DateTimeCondition>, PathAndQueryMatcher<T>>,
    count: usize,
    config: Arc<RouterConfig>,
}

#[derive(Serialize, Deserialize, Debug, Clone, Hash, Eq, PartialEq, Ord, PartialOrd)]
#[serde(rename_all = "snake_case")]
#[serde(tag = "type", content = "date_time_type")]
pub enum DateTimeCondition {
    DateTimeRange(Vec<RouteDateTime>),
    TimeRange(Vec<RouteTime>),
    Weekdays(RouteWeekday),
}

impl<T> DateTimeMatcher<T> {
    pub fn new(config: Arc<RouterConfig>) -> Self {
        DateTimeMatcher {
            any_datetime: PathAndQueryMatcher::new(config.clone()),
            conditions: BTreeSet::new(),
            condition_groups: BTreeMap::new(),
            count: 0,
            config,
        }
    }

    pub fn insert(&mut self, route: Arc<Route<T>>) {
        self.count += 1;

        let mut condition_group = BTreeSet::new();
        let mut route_conditions = BTreeSet::new();

        if let Some(route_datetime) = route.datetime() {
            let condition = DateTimeCondition::DateTimeRange(route_datetime.clone());
            condition_group.insert(condition.clone());
            route_conditions.insert(condition.clone());
            self.conditions.insert(condition);
        }

        if let Some(route_weekdays) = route.weekdays() {
            let condition = DateTimeCondition::Weekdays(route_weekdays.clone());
            condition_group.insert(condition.clone());
            route_conditions.insert(condition.clone());
            self.conditions.insert(condition);
        }

        if let Some(route_time) = route.time() {
            let condition = DateTimeCondition::TimeRange(route_time.clone());
            condition_group.insert(condition.clone());
            route_conditions.insert(condition.clone());
            self.conditions.insert(condition);
        }

        if route_conditions.is_empty() {
            self.any_datetime.insert(route);

            return;
        }

        if !self.condition_groups.contains_key(&condition_group) {
            self.condition_groups
                .insert(condition_group.clone(), PathAndQueryMatcher::new(self.config.clone()));
        }

        let matcher = self.condition_groups.get_mut(&condition_group).unwrap();

        matcher.insert(route)
    }

    pub fn remove(&mut self, id: &str) -> Option<Arc<Route<T>>> {
        let mut removed = self.any_datetime.remove(id);

        if removed.is_some() {
            self.count -= 1;

            return removed;
        }

        self.condition_groups.retain(|_, matcher| {
            if let Some(value) = matcher.remove(id) {
                removed = Some(value);
            }

            !matcher.is_empty()
        });

        if removed.is_some() {
            self.count -= 1;
        }

        removed
    }

    pub fn batch_remove(&mut self, ids: &HashSet<String>) -> bool {
        self.any_datetime.batch_remove(ids);

        self.condition_groups.retain(|_, matcher| {
            matcher.batch_remove(ids);

            !matcher.is_empty()
        });

        self.any_datetime.is_empty() && self.condition_groups.is_empty()
    }

    pub fn match_request(&self, request: &Request) -> Vec<Arc<Route<T>>> {
        let mut rules = self.any_datetime.match_request(request);
        let mut execute_conditions = BTreeMap::new();

        'group: for (conditions, matcher) in &self.condition_groups {
            for condition in conditions {
                match execute_conditions.get(condition) {
                    None => {
                        // Execute condition
                        let result = condition.match_value(request);

                        // Save result
                        execute_conditions.insert(condition.clone(), result);

                        if !result {
                            continue 'group;
                        }
                    }
                    Some(result) => {
                        if !result {
                            continue 'group;
                        }
                    }
                }
            }

            rules.extend(matcher.match_request(request));
        }

        rules
    }

    pub fn trace(&self, request: &Request) -> Vec<Trace<T>> {
        let mut traces = self.any_datetime.trace(request);
        let mut execute_conditions = BTreeMap::new();

        for (conditions, matcher) in &self.condition_groups {
            let mut matched = true;
            let mut executed = true;
            let mut traces_info_datetime = Vec::new();

            for condition in conditions {
                match execute_conditions.get(condition) {
                    None => {
                        // Execute condition
                        let result = condition.match_value(request);
                        matched = matched && result;

                        // Save result (only if executed to mimic cache behavior)
                        if executed {
                            execute_conditions.insert(condition.clone(), matched);
                        }

                        traces_info_datetime.push(TraceInfoDateTimeCondition {
                            result: if executed { Some(result) } else { None },
                            condition: condition.clone(),
                            cached: false,
                        });

                        executed = matched;
                    }
                    Some(result) => {
                        matched = matched && *result;

                        traces_info_datetime.push(TraceInfoDateTimeCondition {
                            result: if executed { Some(*result) } else { None },
                            condition: condition.clone(),
                            cached: true,
                        });

                        executed = matched;
                    }
                }
            }

            traces.push(Trace::new(
                matched,
                true,
                matcher.len() as u64,
                if matched { matcher.trace(request) } else { Vec::new() },
                TraceInfo::DateTimeGroup {
                    conditions: traces_info_datetime,
                },
            ));
        }

        traces
    }

    pub fn cache(&mut self, limit: u64, level: u64) -> u64 {
        let mut new_limit = self.any_datetime.cache(limit, level);

        for matcher in self.condition_groups.values_mut() {
            new_limit = matcher.cache(new_limit, level);
        }

        new_limit
    }

    pub fn len(&self) -> usize {
        self.count
    }

    pub fn is_empty(&self) -> bool {
        self.count == 0
    }
}

impl DateTimeCondition {
    pub fn match_value(&self, request: &Request) -> bool {
        if let Some(datetime) = request.created_at.as_ref() {
            match self {
                DateTimeCondition::DateTimeRange(route_date_time) => {
                    for range in route_date_time {
                        if range.match_datetime(datetime) {
                            return true;
                        }
                    }

                    false
                }
                DateTimeCondition::TimeRange(route_time) => {
                    for range in route_time {
                        if range.match_datetime(datetime) {
                            return true;
                        }
                    }

                    false
                }
                DateTimeCondition::Weekdays(route_weekday) => route_weekday.match_datetime(datetime),
            }
        } else {
            false
        }
    }
}

#[cfg(feature = "dot")]
impl<V> DotBuilder for DateTimeMatcher<V> {
    fn graph(&self, id: &mut u32, graph: &mut Graph) -> Option<String> {
        let node_name = format!("datetime_matcher_{}", id);
        *id += 1;

        graph.add_node(Node::new(node_name.as_str()).label("datetime matcher"));

        if let Some(key) = self.any_datetime.graph(id, graph) {
            graph.add_edge(Edge::new(&node_name, &key, "any date time"));
        }

        for (conditions, matcher) in &self.condition_groups {
            if let Some(key) = matcher.graph(id, graph) {
                graph.add_edge(Edge::new(&node_name, &key, format!("date time group {:?}", conditions).as_str()));
            }
        }

        Some(node_name)
    }
}
