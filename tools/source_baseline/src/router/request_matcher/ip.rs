use super::super::route_ip::RouteIp;
use super::super::trace::TraceInfo;
use super::super::{MethodMatcher, Route, RouterConfig, Trace};
#[cfg(feature = "dot")]
use crate::dot::DotBuilder;
use crate::http::Request;
#[cfg(feature = "dot")]
use dot_graph::{Edge, Graph, Node};
use std::collections::{HashMap, HashSet};
use std::sync::Arc;

#[derive(Debug, Clone)]
pub struct IpMatcher<T> {
    matchers: HashMap<RouteIp, MethodMatcher<T>>,
    no_matcher: MethodMatcher<T>,
    count: usize,
    config: Arc<RouterConfig>,
}

impl<T> IpMatcher<T> {
    pub fn new(config: Arc<RouterConfig>) -> Self {
        IpMatcher {
            matchers: HashMap::new(),
            no_matcher: MethodMatcher::new(config.clone()),
            count: 0,
            config,
        }
    }

    pub fn insert(&mut self, route: Arc<Route<T>>) {
        self.count += 1;

        let config = self.config.clone();

        match route.ips() {
            Some(ips) => {
                for ip in ips {
                    self.matchers
                        .entry(ip.clone())
                        .or_insert_with(|| MethodMatcher::new(config.clone()))
                        .insert(route.clone());
                }
            }
            None => {
                self.no_matcher.insert(route);
            }
        }
    }

    pub fn remove(&mut self, id: &str) -> Option<Arc<Route<T>>> {
        let mut removed = self.no_matcher.remove(id);

        if removed.is_some() {
            self.count -= 1;

            return removed;
        }

        self.matchers.retain(|_, matcher| {
            if let Some(value) = matcher.remove(id) {
                removed = Some(value);
            }

            !matcher.is_empty()
        });

        if removed.is_some() {
            self.count -= 1;
        }

        removed
    }

    pub fn batch_remove(&mut self, ids: &HashSet<String>) -> bool {
        self.no_matcher.batch_remove(ids);

        self.matchers.retain(|_, matcher| {
            matcher.batch_remove(ids);

            !matcher.is_empty()
        });

        self.no_matcher.is_empty() && self.matchers.is_empty()
    }

    pub fn match_request(&self, request: &Request) -> Vec<Arc<Route<T>>> {
        let mut routes = self.no_matcher.match_request(request);

        if let Some(remote_addr) = request.remote_addr.as_ref() {
            for (ip_cidr, matcher) in &self.matchers {
                if ip_cidr.match_ip(remote_addr) {
                    // A route listing several ranges lives in several buckets, report it once
                    for route in matcher.match_request(request) {
                        if !routes.iter().any(|r: &Arc<Route<T>>| r.id() == route.id()) {
                            routes.push(route);
                        }
                    }
                }
            }
        }

        routes
    }

    pub fn trace(&self, request: &Request) -> Vec<Trace<T>> {
        let mut traces = self.no_matcher.trace(request);

        if let Some(remote_addr) = request.remote_addr.as_ref() {
            for (ip_cidr, matcher) in &self.matchers {
                if ip_cidr.match_ip(remote_addr) {
                    let ip_traces = matcher.trace(request);

                    traces.push(Trace::new(
                        true,
                        true,
                        matcher.len() as u64,
                        ip_traces,
                        TraceInfo::Ip {
                            request: remote_addr.to_string(),
                            against: ip_cidr.to_string(),
                        },
                    ));
                } else {
                    traces.push(Trace::new(
                        false,
                        true,
                        matcher.len() as u64,
                        Vec::new(),
                        TraceInfo::Ip {
                            request: remote_addr.to_string(),
                            against: ip_cidr.to_string(),
                        },
                    ))
                }
            }
        }

        traces
    }

    pub fn cache(&mut self, limit: u64, level: u64) -> u64 {
        let mut new_limit = self.no_matcher.cache(limit, level);

        for matcher in self.matchers.values_mut() {
            new_limit = matcher.cache(new_limit, level);
        }

        new_limit
    }

    pub fn len(&self) -> usize {
        self.count
    }

    pub fn is_empty(&self) -> bool {
        self.count == 0
    }
}

#[cfg(feature = "dot")]
impl<V> DotBuilder for IpMatcher<V> {
    fn graph(&self, id: &mut u32, graph: &mut Graph) -> Option<String> {
        let node_name = format!("ip_matcher_{}", id);
        *id += 1;
        graph.add_node(Node::new(&node_name));

        if let Some(key) = self.no_matcher.graph(id, graph) {
            graph.add_edge(Edge::new(&node_name, &key, "any ip"));
        }

        for (host, matcher) in &self.matchers {
            if let Some(key) = matcher.graph(id, graph) {
                graph.add_edge(Edge::new(&node_name, &key, host.to_string().as_str()));
            }
        }

        Some(node_name)
    }
}
