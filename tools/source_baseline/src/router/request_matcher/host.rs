use super::super::trace::TraceInfo;
use super::super::{IpMatcher, Route, RouterConfig, Trace};
#[cfg(feature = "dot")]
use crate::dot::DotBuilder;
use crate::http::Request;
use crate::marker::StaticOrDynamic;
use crate::regex_radix_tree::{Trace as TreeTrace, UniqueRegexTreeMap};
#[cfg(feature = "dot")]
use dot_graph::{Edge, Graph, Node};
use std::collections::{HashMap, HashSet};
use std::sync::Arc;

#[derive(Debug, Clone)]
pub struct HostMatcher<T> {
    static_hosts: HashMap<String, IpMatcher<T>>,
    regex_tree_rule: UniqueRegexTreeMap<IpMatcher<T>>,
    any_host: IpMatcher<T>,
    always_match_any_host: bool,
    count: usize,
    config: Arc<RouterConfig>,
}

impl<T> HostMatcher<T> {
    pub fn new(config: Arc<RouterConfig>) -> Self {
        HostMatcher {
            static_hosts: HashMap::new(),
            any_host: IpMatcher::new(config.clone()),
            count: 0,
            regex_tree_rule: UniqueRegexTreeMap::new(config.ignore_host_case),
            always_match_any_host: config.always_match_any_host,
            config,
        }
    }

    pub fn insert(&mut self, route: Arc<Route<T>>) {
        self.count += 1;

        match route.host() {
            None => self.any_host.insert(route.clone()),
            Some(host) => match host {
                StaticOrDynamic::Static(static_host) => {
                    if static_host.is_empty() {
                        self.any_host.insert(route.clone());

                        return;
                    }

                    if !self.static_hosts.contains_key(static_host) {
                        self.static_hosts.insert(static_host.clone(), IpMatcher::new(self.config.clone()));
                    }

                    self.static_hosts.get_mut(static_host).unwrap().insert(route.clone());
                }
                StaticOrDynamic::Dynamic(dynamic_host) => match self.regex_tree_rule.get_mut(dynamic_host.regex.as_str()) {
                    Some(matcher) => matcher.insert(route.clone()),
                    None => {
                        let mut matcher = IpMatcher::new(self.config.clone());
                        matcher.insert(route.clone());

                        self.regex_tree_rule.insert(dynamic_host.regex.as_str(), matcher);
                    }
                },
            },
        }
    }

    pub fn remove(&mut self, id: &str) -> Option<Arc<Route<T>>> {
        let mut removed = self.any_host.remove(id);

        if removed.is_some() {
            self.count -= 1;

            return removed;
        }

        self.static_hosts.retain(|_, matcher| {
            if let Some(value) = matcher.remove(id) {
                removed = Some(value);
            }

            !matcher.is_empty()
        });

        let removed_in_tree = std::cell::RefCell::new(None);

        self.regex_tree_rule.retain(&|_, matcher| {
            if let Some(value) = matcher.remove(id) {
                *removed_in_tree.borrow_mut() = Some(value);
            }

            !matcher.is_empty()
        });

        if removed.is_none() {
            removed = removed_in_tree.into_inner();
        }

        if removed.is_some() {
            self.count -= 1;
        }

        removed
    }

    pub fn batch_remove(&mut self, ids: &HashSet<String>) -> bool {
        self.any_host.batch_remove(ids);

        self.static_hosts.retain(|_, matcher| {
            matcher.batch_remove(ids);

            !matcher.is_empty()
        });

        self.regex_tree_rule.retain(&|_, matcher| {
            matcher.batch_remove(ids);

            !matcher.is_empty()
        });

        self.any_host.is_empty() && self.static_hosts.is_empty() && self.regex_tree_rule.is_empty()
    }

    pub fn match_request(&self, request: &Request) -> Vec<Arc<Route<T>>> {
        let mut routes = Vec::new();

        if let Some(host) = request.host() {
            let matchers = self.regex_tree_rule.find(host);

            for matcher in matchers {
                routes.extend(matcher.match_request(request));
            }

            if let Some(matcher) = self.static_hosts.get(host) {
                routes.extend(matcher.match_request(request));
            }
        }

        if self.always_match_any_host || routes.is_empty() {
            routes.extend(self.any_host.match_request(request));
        }

        routes
    }

    pub fn trace(&self, request: &Request) -> Vec<Trace<T>> {
        let mut traces = Vec::new();
        let request_host = request.host().unwrap_or("");

        for (host, matcher) in &self.static_hosts {
            if host == request_host && request.host().is_some() {
                let host_traces = matcher.trace(request);

                traces.push(Trace::new(
                    true,
                    true,
                    matcher.len() as u64,
                    host_traces,
                    TraceInfo::HostStatic {
                        request: request_host.to_string(),
                        against: Some(host.clone()),
                    },
                ));
            } else {
                traces.push(Trace::new(
                    false,
                    false,
                    matcher.len() as u64,
                    Vec::new(),
                    TraceInfo::HostStatic {
                        request: request_host.to_string(),
                        against: Some(host.clone()),
                    },
                ));
            }
        }

        if let Some(host) = request.host() {
            let tree_trace = self.regex_tree_rule.trace(host);
            let trace = tree_trace_to_trace(host, tree_trace, request);
            traces.push(Trace::new(trace.matched, true, trace.count, vec![trace], TraceInfo::HostRegex));

            if !self.static_hosts.contains_key(host) {
                traces.push(Trace::new(
                    true,
                    false,
                    0,
                    Vec::new(),
                    TraceInfo::HostStatic {
                        request: request_host.to_string(),
                        against: None,
                    },
                ));
            }
        }

        if self.always_match_any_host || Trace::<T>::get_routes_from_traces(&traces).is_empty() {
            traces.extend(self.any_host.trace(request));
        }

        traces
    }

    pub fn cache(&mut self, limit: u64, level: u64) -> u64 {
        let mut new_limit = self.regex_tree_rule.cache(limit, Some(level));

        for matcher in self.static_hosts.values_mut() {
            new_limit = matcher.cache(new_limit, level);
        }

        for matcher in self.regex_tree_rule.iter_mut() {
            new_limit = matcher.cache(new_limit, level);
        }

        self.any_host.cache(new_limit, level)
    }

    pub fn len(&self) -> usize {
        self.count
    }

    pub fn is_empty(&self) -> bool {
        self.count == 0
    }
}

fn tree_trace_to_trace<T>(haystack: &str, tree_trace: TreeTrace<IpMatcher<T>>, request: &Request) -> Trace<T> {
    let mut children = Vec::new();

    for child in tree_trace.children {
        children.push(tree_trace_to_trace(haystack, child, request));
    }

    for matcher in tree_trace.values {
        if tree_trace.matched {
            children.extend(matcher.trace(request));
        }
    }

    Trace::new(
        tree_trace.matched,
        true,
        tree_trace.count,
        children,
        TraceInfo::Regex {
            request: haystack.to_string(),
            against: tree_trace.regex,
        },
    )
}

#[cfg(feature = "dot")]
impl<V> DotBuilder for HostMatcher<V> {
    fn graph(&self, id: &mut u32, graph: &mut Graph) -> Option<String> {
        let node_name = format!("host_matcher_{}", id);
        *id += 1;
        graph.add_node(Node::new(&node_name));

        if let Some(key) = self.any_host.graph(id, graph) {
            graph.add_edge(Edge::new(&node_name, &key, "any host"));
        }

        for (host, matcher) in &self.static_hosts {
            if let Some(key) = matcher.graph(id, graph) {
                graph.add_edge(Edge::new(&node_name, &key, host));
            }
        }

        if let Some(key) = self.regex_tree_rule.graph(id, graph) {
            graph.add_edge(Edge::new(&node_name, &key, "regex host"));
        }

        Some(node_name)
    }
}
