use super::super::request_matcher::HeaderMatcher;
use super::super::trace::TraceInfo;
use super::super::{Route, RouterConfig, Trace};
#[cfg(feature = "dot")]
use crate::dot::DotBuilder;
use crate::http::Request;
#[cfg(feature = "dot")]
use dot_graph::{Edge, Graph, Node};
use std::collections::{HashMap, HashSet};
use std::sync::Arc;

#[derive(Debug, Clone)]
pub struct MethodMatcher<T> {
    methods: HashMap<String, HeaderMatcher<T>>,
    exclude_methods: HashMap<Vec<String>, HeaderMatcher<T>>,
    any_method: HeaderMatcher<T>,
    count: usize,
    config: Arc<RouterConfig>,
}

impl<T> MethodMatcher<T> {
    pub fn new(config: Arc<RouterConfig>) -> Self {
        Self {
            methods: HashMap::new(),
            exclude_methods: HashMap::new(),
            any_method: HeaderMatcher::new(config.clone()),
            count: 0,
            config,
        }
    }

    pub fn insert(&mut self, route: Arc<Route<T>>) {
        self.count += 1;

        let config = self.config.clone();

        match route.methods() {
            None => self.any_method.insert(route),
            Some(methods) => {
                if methods.is_empty() {
                    self.any_method.insert(route);
                } else {
                    if route.exclude_methods().is_some() {
                        self.exclude_methods
                            .entry(methods.clone())
                            .or_insert_with(|| HeaderMatcher::new(config.clone()))
                            .insert(route.clone());

                        return;
                    }
                    for method in methods {
                        if !self.methods.contains_key(method) {
                            self.methods.insert(method.to_string(), HeaderMatcher::new(config.clone()));
                        }

                        self.methods.get_mut(method).unwrap().insert(route.clone());
                    }
                }
            }
        }
    }

    pub fn remove(&mut self, id: &str) -> Option<Arc<Route<T>>> {
        let mut removed = self.any_method.remove(id);

        if removed.is_some() {
            self.count -= 1;

            return removed;
        }

        self.methods.retain(|_, matcher| {
            if let Some(value) = matcher.remove(id) {
                removed = Some(value);
            }

            !matcher.is_empty()
        });

        self.exclude_methods.retain(|_, matcher| {
            if let Some(value) = matcher.remove(id) {
                removed = Some(value);
            }

            !matcher.is_empty()
        });

        if removed.is_some() {
            self.count -= 1;
        }

        removed
    }

    pub fn batch_remove(&mut self, ids: &HashSet<String>) -> bool {
        self.any_method.batch_remove(ids);

        self.methods.retain(|_, matcher| {
            matcher.batch_remove(ids);

            !matcher.is_empty()
        });

        self.exclude_methods.retain(|_, matcher| {
            matcher.batch_remove(ids);

            !matcher.is_empty()
        });

        self.any_method.is_empty() && self.methods.is_empty() && self.exclude_methods.is_empty()
    }

    pub fn match_request(&self, request: &Request) -> Vec<Arc<Route<T>>> {
        let mut routes = self.any_method.match_request(request);

        if let Some(matcher) = self.methods.get(request.method()) {
            routes.extend(matcher.match_request(request));
        }

        for (methods, matcher) in &self.exclude_methods {
            if !methods.contains(&request.method().into()) {
                routes.extend(matcher.match_request(request));
            }
        }

        routes
    }

    pub fn trace(&self, request: &Request) -> Vec<Trace<T>> {
        let mut traces = self.any_method.trace(request);
        let request_method = request.method();
        let mut found = false;

        for (methods, matcher) in &self.exclude_methods {
            if !methods.contains(&request_method.into()) {
                found = true;
                let method_traces = matcher.trace(request);

                traces.push(Trace::new(
                    true,
                    true,
                    matcher.len() as u64,
                    method_traces,
                    TraceInfo::ExcludeMethods {
                        request: request_method.to_string(),
                        against: Some(methods.clone()),
                    },
                ));
            } else {
                traces.push(Trace::new(
                    false,
                    false,
                    matcher.len() as u64,
                    Vec::new(),
                    TraceInfo::ExcludeMethods {
                        request: request_method.to_string(),
                        against: Some(methods.clone()),
                    },
                ));
            }
        }

        for (method, matcher) in &self.methods {
            if method == request_method {
                found = true;
                let method_traces = matcher.trace(request);

                traces.push(Trace::new(
                    true,
                    true,
                    matcher.len() as u64,
                    method_traces,
                    TraceInfo::Method {
                        request: request_method.to_string(),
                        against: Some(method.clone()),
                    },
                ));
            } else {
                traces.push(Trace::new(
                    false,
                    false,
                    matcher.len() as u64,
                    Vec::new(),
                    TraceInfo::Method {
                        request: request_method.to_string(),
                        against: Some(method.clone()),
                    },
                ));
            }
        }

        if !found {
            traces.push(Trace::new(
                true,
                false,
                0,
                Vec::new(),
                TraceInfo::Method {
                    request: request_method.to_string(),
                    against: None,
                },
            ));
        }

        traces
    }

    pub fn cache(&mut self, limit: u64, level: u64) -> u64 {
        let mut new_limit = self.any_method.cache(limit, level);

        for matcher in self.methods.values_mut() {
            new_limit = matcher.cache(new_limit, level);
        }

        for matcher in self.exclude_methods.values_mut() {
            new_limit = matcher.cache(new_limit, level);
        }

        new_limit
    }

    pub fn len(&self) -> usize {
        self.count
    }

    pub fn is_empty(&self) -> bool {
        self.count == 0
    }
}

#[cfg(feature = "dot")]
impl<V> DotBuilder for MethodMatcher<V> {
    fn graph(&self, id: &mut u32, graph: &mut Graph) -> Option<String> {
        let node_name = format!("method_matcher_{}", id);
        *id += 1;
        graph.add_node(Node::new(&node_name));

        if let Some(key) = self.any_method.graph(id, graph) {
            graph.add_edge(Edge::new(&node_name, &key, "any method"));
        }

        for (method, matcher) in &self.methods {
            if let Some(key) = matcher.graph(id, graph) {
                graph.add_edge(Edge::new(&node_name, &key, method));
            }
        }

        Some(node_name)
    }
}
