mod datetime;
mod header;
mod host;
mod ip;
mod method;
mod path_and_query;
mod scheme;

pub use datetime::{DateTimeCondition, DateTimeMatcher};
pub use header::{HeaderMatcher, ValueCondition as HeaderValueCondition};
pub use host::HostMatcher;
pub use ip::IpMatcher;
pub use method::MethodMatcher;
pub use path_and_query::PathAndQueryMatcher;
pub use scheme::SchemeMatcher;
