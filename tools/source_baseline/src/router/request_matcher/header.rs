use super::super::RouterConfig;
use super::super::request_matcher::DateTimeMatcher;
use super::super::trace::{TraceInfo, TraceInfoHeaderCondition};
use super::super::{Route, RouteHeaderKind, Trace};
#[cfg(feature = "dot")]
use crate::dot::DotBuilder;
use crate::http::Request;
#[cfg(feature = "dot")]
use dot_graph::{Edge, Graph, Node};
use regex::Regex;
use serde::{Deserialize, Serialize};
use std::collections::BTreeSet;
use std::collections::{BTreeMap, HashSet};
use std::sync::Arc;

#[derive(Debug, Clone)]
pub struct HeaderMatcher<T> {
    any_header: DateTimeMatcher<T>,
    conditions: BTreeSet<HeaderCondition>,
    condition_groups: BTreeMap<BTreeSet<HeaderCondition>, DateTimeMatcher<T>>,
    count: usize,
    config: Arc<RouterConfig>,
}

#[derive(Serialize, Deserialize, Debug, Clone, Hash, Eq, PartialEq, Ord, PartialOrd)]
#[serde(rename_all = "snake_case")]
#[serde(tag = "type", content = "value")]
pub enum ValueCondition {
    IsDefined,
    IsNotDefined,
    IsEquals(String),
    IsNotEqualTo(String),
    Contains(String),
    DoesNotContain(String),
    EndsWith(String),
    StartsWith(String),
    MatchRegex(String),
}

#[derive(Debug, Clone, Hash, Eq, PartialEq, Ord, PartialOrd)]
pub struct HeaderCondition {
    header_name: String,
    condition: ValueCondition,
}

impl<T> HeaderMatcher<T> {
    pub fn new(config: Arc<RouterConfig>) -> Self {
        HeaderMatcher {
            any_header: DateTimeMatcher::new(config.clone()),
            conditions: BTreeSet::new(),
            condition_groups: BTreeMap::new(),
            count: 0,
            config,
        }
    }

    pub fn insert(&mut self, route: Arc<Route<T>>) {
        self.count += 1;

        if route.headers().is_empty() {
            self.any_header.insert(route);

            return;
        }

        let mut condition_group = BTreeSet::new();

        for header in route.headers() {
            let condition = match &header.kind {
                RouteHeaderKind::IsDefined => ValueCondition::IsDefined,
                RouteHeaderKind::IsNotDefined => ValueCondition::IsNotDefined,
                RouteHeaderKind::IsEquals(str) => ValueCondition::IsEquals(str.clone()),
                RouteHeaderKind::IsNotEqualTo(str) => ValueCondition::IsNotEqualTo(str.clone()),
                RouteHeaderKind::Contains(str) => ValueCondition::Contains(str.clone()),
                RouteHeaderKind::DoesNotContain(str) => ValueCondition::DoesNotContain(str.clone()),
                RouteHeaderKind::EndsWith(str) => ValueCondition::EndsWith(str.clone()),
                RouteHeaderKind::StartsWith(str) => ValueCondition::StartsWith(str.clone()),
                RouteHeaderKind::MatchRegex(marker) => ValueCondition::MatchRegex(marker.regex.clone()),
            };

            let header_condition = HeaderCondition {
                header_name: header.name.to_lowercase(),
                condition,
            };

            condition_group.insert(header_condition.clone());
            self.conditions.insert(header_condition);
        }

        if !self.condition_groups.contains_key(&condition_group) {
            self.condition_groups
                .insert(condition_group.clone(), DateTimeMatcher::new(self.config.clone()));
        }

        let matcher = self.condition_groups.get_mut(&condition_group).unwrap();

        matcher.insert(route)
    }

    pub fn remove(&mut self, id: &str) -> Option<Arc<Route<T>>> {
        let mut removed = self.any_header.remove(id);

        if removed.is_some() {
            self.count -= 1;

            return removed;
        }

        self.condition_groups.retain(|_, matcher| {
            if let Some(value) = matcher.remove(id) {
                removed = Some(value);
            }

            !matcher.is_empty()
        });

        if removed.is_some() {
            self.count -= 1;
        }

        removed
    }

    pub fn batch_remove(&mut self, ids: &HashSet<String>) -> bool {
        self.any_header.batch_remove(ids);

        self.condition_groups.retain(|_, matcher| {
            matcher.batch_remove(ids);

            !matcher.is_empty()
        });

        self.any_header.is_empty() && self.condition_groups.is_empty()
    }

    pub fn match_request(&self, request: &Request) -> Vec<Arc<Route<T>>> {
        let mut rules = self.any_header.match_request(request);
        let mut execute_conditions = BTreeMap::new();

        'group: for (conditions, matcher) in &self.condition_groups {
            for condition in conditions {
                match execute_conditions.get(condition) {
                    None => {
                        // Execute condition
                        let result = condition.condition.match_value(request, condition.header_name.as_str());

                        // Save result
                        execute_conditions.insert(condition.clone(), result);

                        if !result {
                            continue 'group;
                        }
                    }
                    Some(result) => {
                        if !result {
                            continue 'group;
                        }
                    }
                }
            }

            rules.extend(matcher.match_request(request));
        }

        rules
    }

    pub fn trace(&self, request: &Request) -> Vec<Trace<T>> {
        let mut traces = self.any_header.trace(request);
        let mut execute_conditions = BTreeMap::new();

        for (conditions, matcher) in &self.condition_groups {
            let mut matched = true;
            let mut executed = true;
            let mut traces_info_header = Vec::new();

            for condition in conditions {
                match execute_conditions.get(condition) {
                    None => {
                        // Execute condition
                        let result = condition.condition.match_value(request, condition.header_name.as_str());
                        matched = matched && result;

                        // Save result (only if executed to mimic cache behavior)
                        if executed {
                            execute_conditions.insert(condition.clone(), matched);
                        }

                        traces_info_header.push(TraceInfoHeaderCondition {
                            result: if executed { Some(result) } else { None },
                            name: condition.header_name.clone(),
                            condition: condition.condition.clone(),
                            cached: false,
                        });

                        executed = matched;
                    }
                    Some(result) => {
                        matched = matched && *result;

                        traces_info_header.push(TraceInfoHeaderCondition {
                            result: if executed { Some(*result) } else { None },
                            name: condition.header_name.clone(),
                            condition: condition.condition.clone(),
                            cached: true,
                        });

                        executed = matched;
                    }
                }
            }

            traces.push(Trace::new(
                matched,
                true,
                matcher.len() as u64,
                if matched { matcher.trace(request) } else { Vec::new() },
                TraceInfo::HeaderGroup {
                    conditions: traces_info_header,
                },
            ));
        }

        traces
    }

    pub fn cache(&mut self, limit: u64, level: u64) -> u64 {
        let mut new_limit = self.any_header.cache(limit, level);

        for matcher in self.condition_groups.values_mut() {
            new_limit = matcher.cache(new_limit, level);
        }

        new_limit
    }

    pub fn len(&self) -> usize {
        self.count
    }

    pub fn is_empty(&self) -> bool {
        self.count == 0
    }
}

impl ValueCondition {
    pub fn match_value(&self, request: &Request, name: &str) -> bool {
        match self {
            ValueCondition::IsNotDefined => !request.header_exists(name),
            ValueCondition::IsDefined => request.header_exists(name),
            ValueCondition::IsEquals(str) => {
                let values = request.header_values(name);
                let mut result = false;

                for value in values {
                    result = result || value == str;
                }

                result
            }
            ValueCondition::IsNotEqualTo(str) => {
                let values = request.header_values(name);
                let mut result = true;

                for value in values {
                    result = result && value != str;
                }

                result
            }
            ValueCondition::Contains(str) => {
                let values = request.header_values(name);
                let mut result = false;

                for value in values {
                    result = result || value.contains(str.as_str());
                }

                result
            }
            ValueCondition::DoesNotContain(str) => {
                let values = request.header_values(name);
                let mut result = true;

                for value in values {
                    result = result && !value.contains(str.as_str());
                }

                result
            }
            ValueCondition::EndsWith(str) => {
                let values = request.header_values(name);
                let mut result = false;

                for value in values {
                    result = result || value.ends_with(str.as_str());
                }

                result
            }
            ValueCondition::StartsWith(str) => {
                let values = request.header_values(name);
                let mut result = false;

                for value in values {
                    result = result || value.starts_with(str.as_str());
                }

                result
            }
            ValueCondition::MatchRegex(regex_string) => match Regex::new(regex_string.as_str()) {
                Err(_) => false,
                Ok(regex) => {
                    let values = request.header_values(name);
                    let mut result = false;

                    for header_value in values {
                        result = result || regex.is_match(header_value);
                    }

                    result
                }
            },
        }
    }

    pub fn format(&self) -> String {
        match self {
            ValueCondition::IsDefined => "is defined".to_string(),
            ValueCondition::IsNotDefined => "is not defined".to_string(),
            ValueCondition::IsEquals(str) => format!("equals {str}"),
            ValueCondition::IsNotEqualTo(str) => format!("is not equal to {str}"),
            ValueCondition::Contains(str) => format!("contains {str}"),
            ValueCondition::DoesNotContain(str) => format!("does not contain {str}"),
            ValueCondition::EndsWith(str) => format!("ends with {str}"),
            ValueCondition::StartsWith(str) => format!("starts with {str}"),
            ValueCondition::MatchRegex(str) => format!("match regex {str}"),
        }
    }
}

#[cfg(feature = "dot")]
impl<V> DotBuilder for HeaderMatcher<V> {
    fn graph(&self, id: &mut u32, graph: &mut Graph) -> Option<String> {
        let node_name = format!("header_matcher_{}", id);
        *id += 1;
        graph.add_node(Node::new(&node_name).label("header matcher"));

        if let Some(key) = self.any_header.graph(id, graph) {
            graph.add_edge(Edge::new(&node_name, &key, "any header"));
        }

        for (conditions, matcher) in &self.condition_groups {
            if let Some(key) = matcher.graph(id, graph) {
                graph.add_edge(Edge::new(&node_name, &key, format!("header group {:?}", conditions).as_str()));
            }
        }

        Some(node_name)
    }
}
