use super::super::trace::TraceInfo;
use super::super::{HostMatcher, Route, RouterConfig, Trace};
use crate::http::Request;
use std::collections::{HashMap, HashSet};
use std::sync::Arc;

#[cfg(feature = "dot")]
use crate::dot::DotBuilder;
#[cfg(feature = "dot")]
use dot_graph::{Edge, Graph, Node};

#[derive(Debug, Clone)]
pub struct SchemeMatcher<T> {
    schemes: HashMap<String, HostMatcher<T>>,
    any_scheme: HostMatcher<T>,
    count: usize,
    config: Arc<RouterConfig>,
}

impl<T> SchemeMatcher<T> {
    pub fn new(config: Arc<RouterConfig>) -> Self {
        SchemeMatcher {
            schemes: HashMap::new(),
            any_scheme: HostMatcher::new(config.clone()),
            config,
            count: 0,
        }
    }

    pub fn insert(&mut self, route: Arc<Route<T>>) {
        self.count += 1;

        match route.scheme() {
            None => self.any_scheme.insert(route),
            Some(scheme) => {
                if scheme.is_empty() {
                    self.any_scheme.insert(route)
                } else {
                    if !self.schemes.contains_key(scheme) {
                        self.schemes.insert(scheme.to_string(), HostMatcher::new(self.config.clone()));
                    }

                    self.schemes.get_mut(scheme).unwrap().insert(route);
                }
            }
        }
    }

    pub fn remove(&mut self, id: &str) -> Option<Arc<Route<T>>> {
        let mut removed = self.any_scheme.remove(id);

        if removed.is_some() {
            self.count -= 1;

            return removed;
        }

        self.schemes.retain(|_, matcher| {
            if let Some(value) = matcher.remove(id) {
                removed = Some(value);
            }

            !matcher.is_empty()
        });

        if removed.is_some() {
            self.count -= 1;
        }

        removed
    }

    pub fn batch_remove(&mut self, ids: &HashSet<String>) -> bool {
        self.any_scheme.batch_remove(ids);

        self.schemes.retain(|_, matcher| {
            matcher.batch_remove(ids);

            !matcher.is_empty()
        });

        self.any_scheme.is_empty() && self.schemes.is_empty()
    }

    pub fn match_request(&self, request: &Request) -> Vec<Arc<Route<T>>> {
        let mut routes = self.any_scheme.match_request(request);

        match request.scheme() {
            None => (),
            Some(scheme) => {
                if let Some(matcher) = self.schemes.get(scheme) {
                    routes.extend(matcher.match_request(request));
                }
            }
        }

        routes
    }

    pub fn trace(&self, request: &Request) -> Vec<Trace<T>> {
        let mut traces = self.any_scheme.trace(request);
        let request_scheme = request.scheme().unwrap_or("");

        for (scheme, matcher) in &self.schemes {
            if scheme == request_scheme && !request_scheme.is_empty() {
                let scheme_traces = matcher.trace(request);

                traces.push(Trace::new(
                    true,
                    true,
                    matcher.len() as u64,
                    scheme_traces,
                    TraceInfo::Scheme {
                        request: request_scheme.to_string(),
                        against: Some(scheme.clone()),
                    },
                ));
            } else {
                traces.push(Trace::new(
                    false,
                    false,
                    matcher.len() as u64,
                    Vec::new(),
                    TraceInfo::Scheme {
                        request: request_scheme.to_string(),
                        against: Some(scheme.clone()),
                    },
                ));
            }
        }

        if !request_scheme.is_empty() && !self.schemes.contains_key(request_scheme) {
            traces.push(Trace::new(
                true,
                false,
                0,
                Vec::new(),
                TraceInfo::Scheme {
                    request: request_scheme.to_string(),
                    against: Some(request_scheme.to_string()),
                },
            ));
        }

        traces
    }

    pub fn cache(&mut self, limit: u64, level: u64) -> u64 {
        let mut new_limit = self.any_scheme.cache(limit, level);

        for matcher in self.schemes.values_mut() {
            new_limit = matcher.cache(new_limit, level);
        }

        new_limit
    }

    pub fn len(&self) -> usize {
        self.count
    }

    pub fn is_empty(&self) -> bool {
        self.count == 0
    }
}

#[cfg(feature = "dot")]
impl<V> DotBuilder for SchemeMatcher<V> {
    fn graph(&self, id: &mut u32, graph: &mut Graph) -> Option<String> {
        let node_name = format!("scheme_matcher_{}", id);
        *id += 1;

        graph.add_node(Node::new(&node_name).label("scheme matcher"));

        if let Some(key) = self.any_scheme.graph(id, graph) {
            graph.add_edge(Edge::new(&node_name, &key, "any scheme"));
        }

        for (scheme, matcher) in &self.schemes {
            if let Some(key) = matcher.graph(id, graph) {
                graph.add_edge(Edge::new(&node_name, &key, scheme));
            }
        }

        Some(node_name)
    }
}
