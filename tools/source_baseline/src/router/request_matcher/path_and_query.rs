use super::super::trace::TraceInfo;
use super::super::{Route, RouterConfig, Trace};
#[cfg(feature = "dot")]
use crate::dot::DotBuilder;
use crate::http::Request;
use crate::marker::StaticOrDynamic;
use crate::regex_radix_tree::{RegexTreeMap, Trace as TreeTrace};
#[cfg(feature = "dot")]
use dot_graph::{Edge, Graph, Node};
use std::collections::{HashMap, HashSet};
use std::sync::Arc;

#[derive(Debug, Clone)]
pub struct PathAndQueryMatcher<T> {
    regex_tree_rule: RegexTreeMap<Arc<Route<T>>>,
    static_rules: HashMap<String, HashMap<String, Arc<Route<T>>>>,
    count: usize,
}

impl<T> PathAndQueryMatcher<T> {
    pub fn new(config: Arc<RouterConfig>) -> Self {
        PathAndQueryMatcher {
            regex_tree_rule: RegexTreeMap::new(config.ignore_path_and_query_case),
            static_rules: HashMap::new(),
            count: 0,
        }
    }

    pub fn insert(&mut self, route: Arc<Route<T>>) {
        self.count += 1;

        match route.path_and_query() {
            StaticOrDynamic::Static(path) => {
                if !self.static_rules.contains_key(path) {
                    self.static_rules.insert(path.clone(), HashMap::new());
                }

                self.static_rules
                    .get_mut(path)
                    .unwrap()
                    .insert(route.id().to_string(), route.clone());
            }
            StaticOrDynamic::Dynamic(path) => {
                self.regex_tree_rule.insert(path.regex.as_str(), route.id(), route.clone());
            }
        }
    }

    pub fn batch_remove(&mut self, ids: &HashSet<String>) -> bool {
        self.static_rules.retain(|_, matcher| {
            matcher.retain(|id, _| !ids.contains(id));

            !matcher.is_empty()
        });

        self.regex_tree_rule.retain(&|id, _| !ids.contains(id));

        self.static_rules.is_empty() && self.regex_tree_rule.is_empty()
    }

    pub fn remove(&mut self, id: &str) -> Option<Arc<Route<T>>> {
        match self.regex_tree_rule.remove(id) {
            None => (),
            Some(route) => {
                self.count -= 1;

                return Some(route);
            }
        }

        let mut removed = None;

        self.static_rules.retain(|_, matcher| {
            if removed.is_some() {
                return true;
            }

            removed = matcher.remove(id);

            !matcher.is_empty()
        });

        if removed.is_some() {
            self.count -= 1;
        }

        removed
    }

    pub fn match_request(&self, request: &Request) -> Vec<Arc<Route<T>>> {
        let path = request.path_and_query();
        let mut routes: Vec<Arc<Route<T>>> = self
            .regex_tree_rule
            .find(path.as_str())
            .iter()
            .map(|route| (*route).clone())
            .collect();

        match self.static_rules.get(path.as_str()) {
            None => (),
            Some(static_storage) => {
                routes.extend(static_storage.values().cloned().collect::<Vec<Arc<Route<T>>>>());
            }
        }

        routes
    }

    pub fn trace(&self, request: &Request) -> Vec<Trace<T>> {
        let path = request.path_and_query();
        let trace = tree_trace_to_trace(path.as_str(), self.regex_tree_rule.trace(path.as_str()));

        let mut traces = vec![Trace::new(
            trace.matched,
            true,
            trace.count,
            vec![trace],
            TraceInfo::PathAndQueryRegex,
        )];

        let static_traces = match self.static_rules.get(path.as_str()) {
            None => Vec::new(),
            Some(routes) => {
                vec![Trace::new(
                    true,
                    true,
                    routes.len() as u64,
                    Vec::new(),
                    TraceInfo::Storage {
                        routes: routes.values().cloned().collect::<Vec<Arc<Route<T>>>>(),
                    },
                )]
            }
        };

        traces.push(Trace::new(
            !static_traces.is_empty(),
            true,
            self.static_rules.len() as u64,
            static_traces,
            TraceInfo::PathAndQueryStatic { request: path },
        ));

        traces
    }

    pub fn cache(&mut self, limit: u64, level: u64) -> u64 {
        self.regex_tree_rule.cache(limit, Some(level))
    }

    pub fn len(&self) -> usize {
        self.count
    }

    pub fn is_empty(&self) -> bool {
        self.count == 0
    }
}

fn tree_trace_to_trace<T>(haystack: &str, tree_trace: TreeTrace<Arc<Route<T>>>) -> Trace<T> {
    let mut children = Vec::new();

    for child in tree_trace.children {
        children.push(tree_trace_to_trace(haystack, child));
    }

    if !tree_trace.values.is_empty() {
        children.push(Trace::new(
            tree_trace.matched,
            true,
            tree_trace.values.len() as u64,
            Vec::new(),
            TraceInfo::Storage {
                routes: if tree_trace.matched {
                    tree_trace.values.iter().map(|r| (*r).clone()).collect::<Vec<Arc<Route<T>>>>()
                } else {
                    Vec::new()
                },
            },
        ))
    }

    Trace::new(
        tree_trace.matched,
        true,
        tree_trace.count,
        children,
        TraceInfo::Regex {
            request: haystack.to_string(),
            against: tree_trace.regex,
        },
    )
}

#[cfg(feature = "dot")]
impl<V> DotBuilder for PathAndQueryMatcher<V> {
    fn graph(&self, id: &mut u32, graph: &mut Graph) -> Option<String> {
        let node_name = format!("path_matcher_{}", id);
        *id += 1;
        graph.add_node(Node::new(&node_name).label("path matcher"));

        if let Some(key) = self.regex_tree_rule.graph(id, graph) {
            graph.add_edge(Edge::new(&node_name, &key, "regex tree"));
        }

        let static_node_name = format!("static_matcher_{}", id);
        graph.add_node(Node::new(static_node_name.as_str()));
        graph.add_edge(Edge::new(&node_name, &static_node_name, "static rules"));

        Some(node_name)
    }
}
