use chrono::{DateTime, Datelike, Utc, Weekday};
use serde::{Deserialize, Serialize};
use std::cmp::Ordering;
use std::fmt::Display;

#[derive(Clone, Debug, Hash, Serialize, Deserialize, Eq, PartialEq)]
pub struct Weekdays(pub Vec<Weekday>);
#[derive(Clone, Debug, Hash, Serialize, Deserialize, Eq, PartialEq, Ord, PartialOrd)]
pub struct RouteWeekday {
    pub weekdays: Weekdays,
}

impl Ord for Weekdays {
    fn cmp(&self, other: &Self) -> Ordering {
        let self_num = self.0.iter().map(|weekday| weekday.num_days_from_monday());
        let other_num = other.0.iter().map(|weekday| weekday.num_days_from_monday());

        self_num.cmp(other_num)
    }
}

impl PartialOrd for Weekdays {
    fn partial_cmp(&self, other: &Self) -> Option<Ordering> {
        Some(self.cmp(other))
    }
}

impl RouteWeekday {
    pub fn from_weekdays(weekdays: &Vec<String>) -> Option<RouteWeekday> {
        let mut route_weekdays = Vec::new();

        for weekday in weekdays {
            match weekday.parse::<Weekday>() {
                Ok(wd) => route_weekdays.push(wd),
                Err(err) => {
                    log::error!("cannot parse weekday {}: {}", weekday, err);
                }
            }
        }

        if route_weekdays.is_empty() {
            return None;
        }

        Some(RouteWeekday {
            weekdays: Weekdays(route_weekdays),
        })
    }

    pub fn match_datetime(&self, datetime: &DateTime<Utc>) -> bool {
        self.weekdays.0.contains(&datetime.weekday())
    }
}

impl Display for RouteWeekday {
    fn fmt(&self, f: &mut std::fmt::Formatter<'_>) -> std::fmt::Result {
        write!(f, "in({:?})", self.weekdays)
    }
}
