use chrono::{DateTime, NaiveTime, Utc};
use serde::{Deserialize, Serialize};
use std::fmt::Display;

#[derive(Clone, Debug, Hash, Serialize, Deserialize, Eq, PartialEq, Ord, PartialOrd)]
pub struct RouteTime {
    pub start: Option<NaiveTime>,
    pub end: Option<NaiveTime>,
}

impl RouteTime {
    pub fn from_range(start: &Option<String>, end: &Option<String>) -> RouteTime {
        let mut route_start = None;
        let mut route_end = None;
        match start {
            None => (),
            Some(time) => match time.parse::<NaiveTime>() {
                Ok(dt) => route_start = Some(dt),
                Err(err) => {
                    log::error!("cannot parse time {}: {}", time, err);
                }
            },
        }
        match end {
            None => (),
            Some(time) => match time.parse::<NaiveTime>() {
                Ok(dt) => route_end = Some(dt),
                Err(err) => {
                    log::error!("cannot parse time {}: {}", time, err);
                }
            },
        }

        RouteTime {
            start: route_start,
            end: route_end,
        }
    }

    pub fn match_datetime(&self, datetime: &DateTime<Utc>) -> bool {
        let naive_time = datetime.naive_utc().time();
        match self.start {
            None => match self.end {
                None => true,
                Some(end) => naive_time < end,
            },
            Some(start) => match self.end {
                None => naive_time >= start,
                Some(end) => (naive_time >= start) && (naive_time < end),
            },
        }
    }
}

impl Display for RouteTime {
    fn fmt(&self, f: &mut std::fmt::Formatter<'_>) -> std::fmt::Result {
        let str = match self.start {
            None => match self.end {
                None => "always".to_string(),
                Some(end) => format!("before({})", end.format("%H:%M:%S")),
            },
            Some(start) => match self.end {
                None => format!("after({})", start.format("%H:%M:%S")),
                Some(end) => format!("in({}, {})", start.format("%H:%M:%S"), end.format("%H:%M:%S")),
            },
        };
        write!(f, "{}", str)
    }
}
