extern crate cbindgen;
extern crate libtool;
extern crate serde;
extern crate serde_yaml;

use glob::glob;
use linked_hash_set::LinkedHashSet;
use serde::{Deserialize, Serialize};
use serde_yaml::from_str as yaml_decode;
use std::collections::HashMap;
use std::env;
use std::fs::{DirEntry, read_dir, read_to_string};
use std::path::Path;
use tera::{Context, Tera};
#[derive(Serialize, Deserialize, Debug, Clone)]
struct RuleSet {
    #[serde(default)]
    config: RouterConfig,
    rules: HashMap<String, RuleInput>,
    tests: Vec<RuleTest>,
}

#[derive(Serialize, Deserialize, Debug, Clone)]
struct RouterConfig {
    #[serde(default = "default_as_false")]
    pub ignore_host_case: bool,
    #[serde(default = "default_as_false")]
    pub ignore_header_case: bool,
    #[serde(default = "default_as_false")]
    pub ignore_path_and_query_case: bool,
    #[serde(default)]
    pub ignore_marketing_query_params: bool,
    #[serde(default = "default_marketing_parameters")]
    pub marketing_query_params: LinkedHashSet<String>,
    #[serde(default)]
    pub pass_marketing_query_params_to_target: bool,
    #[serde(default = "default_as_false")]
    pub always_match_any_host: bool,
}

fn default_as_false() -> bool {
    false
}

fn default_marketing_parameters() -> LinkedHashSet<String> {
    let mut parameters = LinkedHashSet::new();

    parameters.insert("utm_source".to_string());
    parameters.insert("utm_medium".to_string());
    parameters.insert("utm_campaign".to_string());
    parameters.insert("utm_term".to_string());
    parameters.insert("utm_content".to_string());

    parameters
}

impl Default for RouterConfig {
    fn default() -> Self {
        let mut parameters = LinkedHashSet::new();

        parameters.insert("utm_source".to_string());
        parameters.insert("utm_medium".to_string());
        parameters.insert("utm_campaign".to_string());
        parameters.insert("utm_term".to_string());
        parameters.insert("utm_content".to_string());

        Self {
            ignore_host_case: false,
            ignore_header_case: false,
            ignore_path_and_query_case: false,
            ignore_marketing_query_params: true,
            marketing_query_params: parameters,
            pass_marketing_query_params_to_target: true,
            always_match_any_host: false,
        }
    }
}

#[derive(Serialize, Deserialize, Debug, Clone)]
struct RuleInput {
    #[serde(rename = "agentInput")]
    agent_input: Rule,
}

#[derive(Serialize, Deserialize, Debug, Clone)]
struct Rule {
    id: Option<String>,
    source: Source,
    #[serde(skip_serializing_if = "Option::is_none")]
    target: Option<String>,
    #[serde(skip_serializing_if = "Option::is_none")]
    #[serde(alias = "redirect_code")]
    status_code: Option<u16>,
    #[serde(skip_serializing_if = "Vec::is_empty", default)]
    header_filters: Vec<HeaderFilter>,
    #[serde(skip_serializing_if = "Vec::is_empty", default)]
    body_filters: Vec<BodyFilter>,
    rank: Option<u16>,
    #[serde(skip_serializing_if = "Vec::is_empty", default)]
    markers: Vec<Marker>,
    #[serde(skip_serializing_if = "Vec::is_empty", default)]
    variables: Vec<Variable>,
    #[serde(skip_serializing_if = "Option::is_none")]
    log_override: Option<bool>,
    #[serde(skip_serializing_if = "Option::is_none")]
    reset: Option<bool>,
    #[serde(skip_serializing_if = "Option::is_none")]
    stop: Option<bool>,
}

#[derive(Serialize, Deserialize, Debug, Clone)]
struct Source {
    #[serde(skip_serializing_if = "Option::is_none")]
    host: Option<String>,
    path: String,
    #[serde(skip_serializing_if = "Option::is_none")]
    query: Option<String>,
    #[serde(skip_serializing_if = "Option::is_none")]
    headers: Option<Vec<SourceHeader>>,
    #[serde(skip_serializing_if = "Option::is_none")]
    methods: Option<Vec<String>>,
    #[serde(skip_serializing_if = "Option::is_none")]
    exclude_methods: Option<bool>,
    #[serde(skip_serializing_if = "Vec::is_empty", default, with = "serde_yaml::with::singleton_map_recursive")]
    ips: Vec<IpConstraint>,
    #[serde(skip_serializing_if = "Option::is_none")]
    datetime: Option<Vec<DateTimeConstraint>>,
    #[serde(skip_serializing_if = "Option::is_none")]
    time: Option<Vec<DateTimeConstraint>>,
    #[serde(skip_serializing_if = "Option::is_none")]
    weekdays: Option<Vec<String>>,
    #[serde(skip_serializing_if = "Option::is_none")]
    response_status_codes: Option<Vec<u16>>,
    #[serde(skip_serializing_if = "Option::is_none")]
    exclude_response_status_codes: Option<bool>,
    #[serde(skip_serializing_if = "Option::is_none")]
    sampling: Option<u32>,
}

#[derive(Serialize, Deserialize, Debug, Clone)]
struct SourceHeader {
    name: String,
    #[serde(rename = "type")]
    kind: String,
    value: Option<String>,
}

#[derive(Serialize, Deserialize, Debug, Clone)]
struct HeaderFilter {
    action: String,
    header: String,
    value: String,
}

#[derive(Serialize, Deserialize, Debug, Clone)]
struct BodyFilter {
    action: String,
    #[serde(skip_serializing_if = "Option::is_none")]
    content: Option<String>,
    #[serde(skip_serializing_if = "Option::is_none")]
    value: Option<String>,
    #[serde(skip_serializing_if = "Option::is_none")]
    element_tree: Option<Vec<String>>,
    #[serde(skip_serializing_if = "Option::is_none")]
    css_selector: Option<String>,
}

#[derive(Serialize, Deserialize, Debug, Clone)]
struct Marker {
    name: String,
    regex: String,
    #[serde(skip_serializing_if = "Vec::is_empty", default)]
    transformers: Vec<Transformer>,
}

#[derive(Serialize, Deserialize, Debug, Clone)]
struct Transformer {
    #[serde(rename = "type")]
    transformer_type: String,
    options: Option<HashMap<String, String>>,
}

#[derive(Serialize, Deserialize, Debug, Clone)]
#[serde(rename_all = "snake_case")]
pub enum VariableKind {
    Marker(String),
    RequestHeader { name: String, default: Option<String> },
    RequestHost,
    RequestMethod,
    RequestPath,
    RequestRemoteAddress,
    RequestScheme,
    RequestTime,
}

#[derive(Serialize, Deserialize, Debug, Clone)]
pub struct Variable {
    pub name: String,
    #[serde(rename = "type")]
    #[serde(with = "serde_yaml::with::singleton_map")]
    kind: VariableKind,
    #[serde(skip_serializing_if = "Vec::is_empty", default)]
    transformers: Vec<Transformer>,
}

#[derive(Serialize, Deserialize, Debug, Clone)]
#[serde(rename_all = "snake_case")]
pub enum IpConstraint {
    InRange(String),
    NotInRange(String),
}

#[derive(Serialize, Deserialize, Debug, Clone)]
struct DateTimeConstraint(pub Option<String>, pub Option<String>);

#[derive(Serialize, Deserialize, Debug, Clone)]
struct RuleTest {
    uri: String,
    host: Option<String>,
    scheme: Option<String>,
    remote_ip: Option<String>,
    datetime: Option<String>,
    method: Option<String>,
    headers: Option<Vec<RuleTestHeader>>,
    response_status_code: Option<u16>,
    #[serde(rename = "match")]
    should_match: bool,
    location: Option<String>,
    status: Option<u16>,
    should_filter_body: Option<ShouldFilterBody>,
    should_filter_header: Option<ShouldFilterHeader>,
    should_not_log: Option<bool>,
    sampling_override: Option<bool>,
}

#[derive(Serialize, Deserialize, Debug, Clone)]
struct RuleTestHeader {
    name: String,
    value: String,
}

#[derive(Serialize, Deserialize, Debug, Clone)]
struct ShouldFilterBody {
    enable: bool,
    original_body: String,
    expected_body: String,
}

#[derive(Serialize, Deserialize, Debug, Clone)]
struct ShouldFilterHeader {
    enable: bool,
    #[serde(default)]
    original_headers: Vec<RuleTestHeader>,
    #[serde(default)]
    expected_headers: Vec<RuleTestHeader>,
    #[serde(default)]
    not_expected_headers: Vec<String>,
}

#[derive(Serialize, Deserialize, Debug, Clone)]
struct RuleSetList {
    rule_sets: HashMap<String, RuleSet>,
}

fn main() {
    let crate_dir = env::var("CARGO_MANIFEST_DIR").unwrap();
    let package_name = env::var("CARGO_PKG_NAME").unwrap();
    let build_dir = Path::new(crate_dir.as_str());
    let output_file = build_dir.join(format!("{package_name}.h"));

    if env::var("PUBLISH_SKIP_BUILD").is_ok() {
        return;
    }

    cbindgen::generate(crate_dir)
        .expect("Unable to generate bindings")
        .write_to_file(output_file);

    make_router_tests();
    make_test_examples_tests();
}

fn make_test_examples_tests() {
    let mut names: Vec<String> = Vec::new();
    for path in glob("tests/test_examples/*.in.json")
        .expect("invalid glob pattern")
        .filter_map(Result::ok)
    {
        let path = path.to_str().unwrap();
        let name = path.replace("tests/test_examples/", "").replace(".in.json", "");
        names.push(name);
    }

    let templating = Tera::new("tests/templates/**/*").expect("cannot load templates");
    let test_path = Path::new("tests/redirectionio_test_examples.rs");
    let mut context = Context::default();
    context.insert("names", &names);
    let test_content = templating
        .render("redirectionio_test_examples.rs.j2", &context)
        .expect("cannot generate");

    // we avoid rewriting the file to keep rust cache as must as possible
    if test_path.exists() {
        let existing_content = std::fs::read_to_string(test_path).expect("cannot read");

        if existing_content != test_content {
            std::fs::write(test_path, test_content).expect("cannot write");
        }
    } else {
        std::fs::write(test_path, test_content).expect("cannot write");
    }
}

fn make_router_tests() {
    let rule_sets = read_router_tests("../../tests/rules");

    if rule_sets.is_empty() {
        return;
    }

    let templating = match Tera::new("tests/templates/**/*") {
        Ok(t) => t,
        Err(e) => panic!("{}", e),
    };

    let rule_sets_list = RuleSetList { rule_sets };
    let test_path = Path::new("tests/redirectionio_router_test.rs");

    let context = Context::from_serialize(&rule_sets_list).expect("cannot serialize");
    let test_content = templating
        .render("redirectionio_router_test.rs.j2", &context)
        .expect("cannot generate");

    // we avoid rewriting the file to keep rust cache as much as possible
    if test_path.exists() {
        let existing_content = std::fs::read_to_string(test_path).expect("cannot read");

        if existing_content != test_content {
            std::fs::write(test_path, test_content).expect("cannot write");
        }
    } else {
        std::fs::write(test_path, test_content).expect("cannot write");
    }
}

fn read_router_tests(path: &str) -> HashMap<String, RuleSet> {
    let mut rule_sets = HashMap::new();

    match read_dir(path) {
        Err(_) => return rule_sets,
        Ok(directory) => {
            for file in directory.flatten() {
                if let Ok(file_type) = file.file_type() {
                    if file_type.is_dir() {
                        rule_sets.extend(read_router_tests(file.path().to_str().unwrap()))
                    } else if file_type.is_file() {
                        match file.path().extension() {
                            None => (),
                            Some(ext) => {
                                if ext == "yml" {
                                    let (key, rule_set) = build_router_test_file(file).expect("");

                                    rule_sets.insert(key, rule_set);
                                }
                            }
                        }
                    }
                }
            }
        }
    }

    rule_sets
}

fn build_router_test_file(file: DirEntry) -> std::io::Result<(String, RuleSet)> {
    let content = read_to_string(file.path())?;
    let mut rule_set: RuleSet = yaml_decode(content.as_str()).expect("error");

    for (id, rule) in &mut rule_set.rules {
        rule.agent_input.id = Some(id.clone());
        rule.agent_input.rank = Some(rule.agent_input.rank.unwrap_or(0));
    }

    let name = file
        .path()
        .file_name()
        .unwrap()
        .to_str()
        .unwrap()
        .to_string()
        .replace(".yml", "")
        .replace('-', "_");

    Ok((name, rule_set))
}
