use std::ffi::{CStr, CString};
use std::os::raw::c_char;
use std::ptr::null;

pub fn c_char_to_str(ptr: *const c_char) -> Option<&'static str> {
    if ptr.is_null() {
        return None;
    }

    // SAFETY: ptr is a valid pointer to a C string
    let cstr = unsafe { CStr::from_ptr(ptr) };

    match cstr.to_str() {
        Err(error) => {
            log::error!(
                "unable to create string for '{}': {}",
                String::from_utf8_lossy(cstr.to_bytes()),
                error,
            );

            None
        }
        Ok(string) => Some(string),
    }
}

pub fn string_to_c_char(str: String) -> *const c_char {
    let string = match CString::new(str.as_str()) {
        Err(error) => {
            log::error!("cannot create c string {}: {}", str, error,);

            return null();
        }
        Ok(string) => string,
    };

    string.into_raw()
}
