use crate::action::UnitTrace;
use crate::filter::header_action::HeaderAction;
use crate::http::Header;

#[derive(Debug)]
pub struct HeaderDefaultAction {
    pub name: String,
    pub value: String,
    // in 3.0 make this mandatory
    pub id: Option<String>,
    // in 3.0 make this mandatory
    pub target_hash: Option<String>,
}

// Set a header if not present
impl HeaderAction for HeaderDefaultAction {
    fn filter(&self, mut headers: Vec<Header>, unit_trace: Option<&mut UnitTrace>) -> Vec<Header> {
        let mut found = false;

        for header in &headers {
            if header.name.to_lowercase() == self.name.to_lowercase() {
                found = true;
                break;
            }
        }

        if !found {
            headers.push(Header {
                name: self.name.clone(),
                value: self.value.clone(),
            });

            if let (Some(trace), Some(id)) = (unit_trace, &self.id) {
                trace.add_value_computed_by_unit(id, &self.value);

                if let Some(target_hash) = &self.target_hash {
                    trace.add_unit_id_with_target(target_hash, id);
                }
            }
        }

        headers
    }
}
