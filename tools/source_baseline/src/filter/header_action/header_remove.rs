use crate::action::UnitTrace;
use crate::filter::header_action::HeaderAction;
use crate::http::Header;

#[derive(Debug)]
pub struct HeaderRemoveAction {
    pub name: String,
    // in 3.0 make this mandatory
    pub id: Option<String>,
    // in 3.0 make this mandatory
    pub target_hash: Option<String>,
}

impl HeaderAction for HeaderRemoveAction {
    fn filter(&self, headers: Vec<Header>, unit_trace: Option<&mut UnitTrace>) -> Vec<Header> {
        let mut new_headers = Vec::new();

        for header in headers {
            if header.name.to_lowercase() != self.name.to_lowercase() {
                new_headers.push(header);
            }
        }

        if let (Some(trace), Some(id)) = (unit_trace, &self.id) {
            trace.add_value_computed_by_unit(id, "");

            if let Some(target_hash) = &self.target_hash {
                trace.override_unit_id_with_target(target_hash, id);
            }
        }

        new_headers
    }
}
