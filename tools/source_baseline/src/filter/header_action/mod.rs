pub mod header_add;
pub mod header_default;
pub mod header_override;
pub mod header_remove;
pub mod header_replace;

use std::fmt::Debug;

use crate::{action::UnitTrace, api::HeaderFilter, http::Header};

pub trait HeaderAction: Debug + Send {
    fn filter(&self, headers: Vec<Header>, unit_trace: Option<&mut UnitTrace>) -> Vec<Header>;
}

pub fn create_header_action(header_filter: &HeaderFilter) -> Option<Box<dyn HeaderAction>> {
    if header_filter.action == "add" {
        return Some(Box::new(header_add::HeaderAddAction {
            id: header_filter.id.clone(),
            name: header_filter.header.clone(),
            value: header_filter.value.clone(),
            target_hash: header_filter.target_hash.clone(),
        }));
    }

    if header_filter.action == "remove" {
        return Some(Box::new(header_remove::HeaderRemoveAction {
            id: header_filter.id.clone(),
            name: header_filter.header.clone(),
            target_hash: header_filter.target_hash.clone(),
        }));
    }

    if header_filter.action == "replace" {
        return Some(Box::new(header_replace::HeaderReplaceAction {
            id: header_filter.id.clone(),
            name: header_filter.header.clone(),
            value: header_filter.value.clone(),
            target_hash: header_filter.target_hash.clone(),
        }));
    }

    if header_filter.action == "override" {
        return Some(Box::new(header_override::HeaderOverrideAction {
            id: header_filter.id.clone(),
            name: header_filter.header.clone(),
            value: header_filter.value.clone(),
            target_hash: header_filter.target_hash.clone(),
        }));
    }

    if header_filter.action == "default" {
        return Some(Box::new(header_default::HeaderDefaultAction {
            id: header_filter.id.clone(),
            name: header_filter.header.clone(),
            value: header_filter.value.clone(),
            target_hash: header_filter.target_hash.clone(),
        }));
    }

    None
}
