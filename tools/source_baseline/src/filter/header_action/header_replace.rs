use crate::action::UnitTrace;
use crate::filter::header_action::HeaderAction;
use crate::http::Header;

#[derive(Debug)]
pub struct HeaderReplaceAction {
    pub name: String,
    pub value: String,
    // in 3.0 make this mandatory
    pub id: Option<String>,
    // in 3.0 make this mandatory
    pub target_hash: Option<String>,
}

// Replace (but do not add if not found) a header
impl HeaderAction for HeaderReplaceAction {
    fn filter(&self, headers: Vec<Header>, mut unit_trace: Option<&mut UnitTrace>) -> Vec<Header> {
        let mut new_headers = Vec::new();

        for header in headers {
            if header.name.to_lowercase() == self.name.to_lowercase() {
                new_headers.push(Header {
                    name: self.name.clone(),
                    value: self.value.clone(),
                });

                if let (Some(trace), Some(id)) = (unit_trace.as_deref_mut(), &self.id) {
                    trace.add_value_computed_by_unit(id, &self.value);

                    if let Some(target_hash) = &self.target_hash {
                        trace.override_unit_id_with_target(target_hash, id);
                    }
                }
            } else {
                new_headers.push(header);
            }
        }

        new_headers
    }
}
