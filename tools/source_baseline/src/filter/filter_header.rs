use crate::action::UnitTrace;
use crate::api::HeaderFilter;
use crate::filter::header_action;
use crate::http::Header;

pub struct FilterHeaderAction {
    actions: Vec<Box<dyn header_action::HeaderAction>>,
}

impl FilterHeaderAction {
    pub fn new(filters: Vec<HeaderFilter>) -> Option<FilterHeaderAction> {
        if filters.is_empty() {
            return None;
        }

        let mut actions = Vec::new();

        for filter in &filters {
            if let Some(action_filter) = header_action::create_header_action(filter) {
                actions.push(action_filter);
            }
        }

        if actions.is_empty() {
            return None;
        }

        Some(FilterHeaderAction { actions })
    }

    pub fn filter(&self, mut headers: Vec<Header>, mut unit_trace: Option<&mut UnitTrace>) -> Vec<Header> {
        for filter in &self.actions {
            headers = filter.filter(headers, unit_trace.as_deref_mut());
        }

        headers
    }
}
