use core::ptr::null_mut;

#[repr(C)]
pub struct Buffer {
    data: *mut u8,
    len: usize,
}

impl Default for Buffer {
    fn default() -> Self {
        Buffer { data: null_mut(), len: 0 }
    }
}

impl Clone for Buffer {
    fn clone(&self) -> Self {
        Self::from_vec(self.to_vec())
    }
}

impl Buffer {
    /// # Safety
    ///
    /// Duplicate this buffer, existing one will still existing in memory
    pub fn duplicate(&self) -> Self {
        Self::from_vec(self.to_vec())
    }

    pub fn from_vec(vec: Vec<u8>) -> Self {
        if vec.is_empty() {
            return Self::default();
        }

        // into_vec() gives the memory back as a boxed slice of len bytes: drop any extra capacity
        // so that the allocation has exactly this size
        let len = vec.len();
        let data = Box::into_raw(vec.into_boxed_slice()) as *mut u8;

        Buffer { data, len }
    }

    pub fn from_string(str: String) -> Self {
        Self::from_vec(str.into_bytes())
    }

    pub fn to_vec(&self) -> Vec<u8> {
        if self.data.is_null() || self.len == 0 {
            return Vec::new();
        }

        // Safety: data is a valid pointer to a buffer of length len aligned
        // This is guaranteed by exposed API to construct this struct
        let buffer = unsafe { std::slice::from_raw_parts(self.data, self.len) };

        buffer.to_vec()
    }

    pub fn into_vec(self) -> Vec<u8> {
        if self.data.is_null() || self.len == 0 {
            return Vec::new();
        }

        // Safety: data is a valid pointer to a buffer of length len aligned
        // This is guaranteed by exposed API to construct this struct
        let owned = unsafe {
            let buffer = std::slice::from_raw_parts_mut(self.data, self.len);
            Box::from_raw(buffer)
        };

        owned.into_vec()
    }
}

#[unsafe(no_mangle)]
pub extern "C" fn redirectionio_api_buffer_drop(buffer: Buffer) {
    buffer.into_vec();
}
