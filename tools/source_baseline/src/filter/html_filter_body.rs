use crate::action::UnitTrace;
use crate::filter::error::Result;
use crate::filter::html_body_action::HtmlBodyVisitor;
use crate::html;
use lazy_static::lazy_static;
use std::collections::HashSet;

#[derive(Debug)]
struct BufferLink {
    buffer: String,
    tag_name: String,
    previous: Option<Box<BufferLink>>,
}

#[derive(Debug)]
pub struct HtmlFilterBodyAction {
    enter: Option<String>,
    leave: Option<String>,
    visitor: HtmlBodyVisitor,
    current_buffer: Option<Box<BufferLink>>,
    last_buffer: Vec<u8>,
    /// Raw-text element (title, script, ...) in whose content `last_buffer` starts, "" outside one
    last_context: String,
}

lazy_static! {
    pub static ref VOID_ELEMENTS: HashSet<&'static str> = {
        let mut set = HashSet::new();

        set.insert("area");
        set.insert("base");
        set.insert("br");
        set.insert("col");
        set.insert("embed");
        set.insert("hr");
        set.insert("img");
        set.insert("input");
        set.insert("link");
        set.insert("meta");
        set.insert("param");
        set.insert("source");
        set.insert("track");
        set.insert("wbr");

        set
    };
}

impl HtmlFilterBodyAction {
    pub fn new(visitor: HtmlBodyVisitor) -> Self {
        Self {
            enter: Some(visitor.first()),
            leave: None,
            last_buffer: Vec::new(),
            last_context: String::new(),
            current_buffer: None,
            visitor,
        }
    }

    pub fn filter(&mut self, input: Vec<u8>, mut unit_trace: Option<&mut UnitTrace>) -> Result<Vec<u8>> {
        let mut data = self.last_buffer.clone();
        data.extend(input);

        // A chunk may end inside a multi-byte character: keep the incomplete sequence for the next chunk
        let mut pending = Vec::new();

        if let Err(err) = std::str::from_utf8(&data) {
            if err.error_len().is_some() {
                // Invalid bytes: fail before touching any state, so that held bytes can still be given back
                return Err(html::HtmlParseError::from(String::from_utf8(data).unwrap_err()).into());
            }

            pending = data.split_off(err.valid_up_to());
        }

        // What was held back is tokenized again in the context it was found in
        let mut tokenizer = html::Tokenizer::new_fragment(data, self.last_context.clone());
        let mut to_return = "".to_string();

        loop {
            let mut context = tokenizer.raw_tag().to_string();
            let mut token_type = tokenizer.next()?;

            if token_type == html::TokenType::ErrorToken {
                self.last_buffer = tokenizer.raw();
                self.last_buffer.extend(tokenizer.buffered());
                self.last_context = context;

                break;
            }

            let mut token_data = tokenizer.raw_as_string()?;

            while token_type == html::TokenType::TextToken
                && (token_data.contains('<') || token_data.contains("</"))
                && !Self::is_cut(&tokenizer, token_type, context.as_str())
            {
                let next_context = tokenizer.raw_tag().to_string();
                token_type = tokenizer.next()?;

                if token_type == html::TokenType::ErrorToken {
                    self.last_buffer = token_data.into_bytes();
                    self.last_buffer.extend(tokenizer.raw());
                    self.last_buffer.extend(tokenizer.buffered());
                    self.last_buffer.extend(pending);
                    self.last_context = context;

                    return Ok(to_return.into_bytes());
                }

                if self.current_buffer.is_some() {
                    self.current_buffer.as_mut().unwrap().buffer.push_str(token_data.as_str());
                } else {
                    to_return.push_str(token_data.as_str());
                }

                token_data = tokenizer.raw_as_string()?;
                context = next_context;
            }

            // A comment, declaration, tag or raw text cut by the end of the chunk is not a token yet: keep it for the next chunk
            if Self::is_cut(&tokenizer, token_type, context.as_str()) {
                self.last_buffer = tokenizer.raw();
                self.last_buffer.extend(tokenizer.buffered());
                self.last_context = context;

                break;
            }

            match token_type {
                html::TokenType::StartTagToken => {
                    let (tag_name, _) = tokenizer.tag_name()?;
                    let tag_name_str = tag_name.unwrap_or_default();
                    let (new_buffer_link, new_token_data) =
                        self.on_start_tag_token(tag_name_str.clone(), token_data, unit_trace.as_deref_mut());

                    self.current_buffer = new_buffer_link;
                    token_data = new_token_data;

                    if VOID_ELEMENTS.contains(tag_name_str.as_str()) {
                        let (new_buffer_link, new_token_data) =
                            self.on_end_tag_token(tag_name_str.clone(), token_data, unit_trace.as_deref_mut())?;

                        self.current_buffer = new_buffer_link;
                        token_data = new_token_data;
                    }
                }
                html::TokenType::EndTagToken => {
                    let (tag_name, _) = tokenizer.tag_name()?;
                    let (new_buffer_link, new_token_data) =
                        self.on_end_tag_token(tag_name.unwrap(), token_data, unit_trace.as_deref_mut())?;

                    self.current_buffer = new_buffer_link;
                    token_data = new_token_data;
                }
                html::TokenType::SelfClosingTagToken => {
                    let (tag_name, _) = tokenizer.tag_name()?;
                    let (new_buffer_link, new_token_data) =
                        self.on_start_tag_token(tag_name.as_ref().unwrap().clone(), token_data, unit_trace.as_deref_mut());

                    self.current_buffer = new_buffer_link;
                    token_data = new_token_data;

                    let (new_buffer_link, new_token_data) =
                        self.on_end_tag_token(tag_name.unwrap(), token_data, unit_trace.as_deref_mut())?;

                    self.current_buffer = new_buffer_link;
                    token_data = new_token_data;
                }
                _ => {}
            }

            if self.current_buffer.is_some() {
                self.current_buffer.as_mut().unwrap().buffer.push_str(token_data.as_str());
            } else {
                to_return.push_str(token_data.as_str());
            }
        }

        self.last_buffer.extend(pending);

        Ok(to_return.into_bytes())
    }

    /// Whether the token was ended by the end of the data and not by its own syntax (plain text can be emitted as it is)
    fn is_cut(tokenizer: &html::Tokenizer, token_type: html::TokenType, context: &str) -> bool {
        tokenizer.err().is_some() && (token_type != html::TokenType::TextToken || (!context.is_empty() && context != "plaintext"))
    }

    pub fn end(&mut self) -> Vec<u8> {
        // Buffered elements hold bytes older than the pending tail, and outer elements older than inner ones
        let mut buffers = Vec::new();
        let mut buffer = self.current_buffer.as_ref();

        while let Some(link) = buffer {
            buffers.push(link.buffer.as_bytes());
            buffer = link.previous.as_ref();
        }

        let mut to_return = Vec::new();

        for bytes in buffers.into_iter().rev() {
            to_return.extend_from_slice(bytes);
        }

        to_return.extend_from_slice(self.last_buffer.as_slice());

        to_return
    }

    fn on_start_tag_token(
        &mut self,
        tag_name: String,
        data: String,
        unit_trace: Option<&mut UnitTrace>,
    ) -> (Option<Box<BufferLink>>, String) {
        let mut buffer = data;
        let mut buffer_link_actions = 0;

        if self.enter.is_some() && self.enter.as_ref().unwrap() == tag_name.as_str() {
            let (next_enter, next_leave, start_buffer, new_buffer) = self.visitor.enter(buffer, unit_trace);

            buffer = new_buffer;

            self.enter = next_enter;
            self.leave = next_leave;

            if start_buffer {
                buffer_link_actions += 1;
            }
        }

        if buffer_link_actions > 0 {
            let new_current_buffer = BufferLink {
                tag_name,
                previous: self.current_buffer.take(),
                buffer: "".to_string(),
            };

            self.current_buffer = Some(Box::new(new_current_buffer));
        }

        (self.current_buffer.take(), buffer)
    }

    fn on_end_tag_token(
        &mut self,
        tag_name: String,
        data: String,
        unit_trace: Option<&mut UnitTrace>,
    ) -> Result<(Option<Box<BufferLink>>, String)> {
        let mut buffer: String;

        if self.current_buffer.is_some() && self.current_buffer.as_ref().unwrap().tag_name == tag_name {
            buffer = self.current_buffer.as_ref().unwrap().buffer.clone();
            buffer.push_str(data.as_str());
        } else {
            buffer = data;
        }

        if self.leave.is_some() && self.leave.as_ref().unwrap() == tag_name.as_str() {
            let (next_enter, next_leave, new_buffer) = self.visitor.leave(buffer, unit_trace)?;
            buffer = new_buffer;

            self.enter = next_enter;
            self.leave = next_leave;
        }

        if self.current_buffer.is_some() && self.current_buffer.as_ref().unwrap().tag_name == tag_name {
            return Ok((self.current_buffer.as_mut().unwrap().previous.take(), buffer));
        }

        Ok((self.current_buffer.take(), buffer))
    }
}
