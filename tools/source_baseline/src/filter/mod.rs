pub mod buffer;
#[cfg(feature = "compress")]
mod encoding;
mod error;
mod filter_body;
mod filter_header;
mod header_action;
mod html_body_action;
mod html_filter_body;
mod text_filter_body;

pub use buffer::Buffer;
#[cfg(feature = "compress")]
pub use encoding::SupportedEncoding;
pub use filter_body::FilterBodyAction;
pub use filter_header::FilterHeaderAction;
pub use html_filter_body::HtmlFilterBodyAction;
