use std::result;

/// This error describes all of the potential failures that can occur during the filter process.
#[derive(Debug)]
#[non_exhaustive]
pub enum FilterBodyError {
    /// Error while reading or writing to the buffer
    IoError(std::io::Error),
    /// Error while parsing the html
    HtmlParseError(crate::html::HtmlParseError),
}

impl std::fmt::Display for FilterBodyError {
    fn fmt(&self, f: &mut std::fmt::Formatter<'_>) -> std::fmt::Result {
        match self {
            Self::IoError(source) => write!(f, "{source}"),
            Self::HtmlParseError(source) => write!(f, "{source}"),
        }
    }
}

impl std::error::Error for FilterBodyError {}

impl From<std::io::Error> for FilterBodyError {
    fn from(error: std::io::Error) -> Self {
        Self::IoError(error)
    }
}

impl From<crate::html::HtmlParseError> for FilterBodyError {
    fn from(error: crate::html::HtmlParseError) -> Self {
        Self::HtmlParseError(error)
    }
}

pub type Result<T> = result::Result<T, FilterBodyError>;
