use crate::action::UnitTrace;
use crate::api::{BodyFilter, TextAction};
use crate::filter::HtmlFilterBodyAction;
#[cfg(feature = "compress")]
use crate::filter::encoding::{DecodeFilterBody, EncodeFilterBody, get_encoding_filters};
use crate::filter::error::{FilterBodyError, Result};
use crate::filter::html_body_action::HtmlBodyVisitor;
use crate::filter::text_filter_body::{TextFilterAction, TextFilterBodyAction};
use crate::http::Header;

#[derive(Debug)]
pub struct FilterBodyAction {
    chain: Vec<FilterBodyActionItem>,
    in_error: bool,
}

#[derive(Debug)]
pub enum FilterBodyActionItem {
    Html(HtmlFilterBodyAction),
    Text(TextFilterBodyAction),
    #[cfg(feature = "compress")]
    Encode(Box<EncodeFilterBody>),
    #[cfg(feature = "compress")]
    Decode(Box<DecodeFilterBody>),
}

impl FilterBodyAction {
    pub fn new(filters: Vec<BodyFilter>, headers: &[Header]) -> Self {
        let mut chain = Vec::new();
        let mut content_type = None;
        #[cfg(feature = "compress")]
        let mut content_encoding = None;

        for header in headers {
            #[cfg(feature = "compress")]
            if header.name.to_lowercase() == "content-encoding" {
                content_encoding = Some(header.value.to_lowercase());
            }

            if header.name.to_lowercase() == "content-type" {
                content_type = Some(header.value.to_lowercase());
            }
        }

        for filter in filters {
            if let Some(item) = FilterBodyActionItem::new(filter, content_type.clone()) {
                chain.push(item);
            }
        }

        #[cfg(not(feature = "compress"))]
        {
            return Self { chain, in_error: false };
        }

        #[cfg(feature = "compress")]
        if chain.is_empty() {
            return Self { chain, in_error: false };
        }

        #[cfg(feature = "compress")]
        match content_encoding {
            Some(encoding) => match get_encoding_filters(encoding.as_str()) {
                Some((decode, encode)) => {
                    chain.insert(0, FilterBodyActionItem::Decode(Box::new(decode)));
                    chain.push(FilterBodyActionItem::Encode(Box::new(encode)));

                    Self { chain, in_error: false }
                }
                None => {
                    log::error!(
                        "redirectionio does not support content-encoding {}, filtering will be disable for this request",
                        encoding
                    );

                    Self {
                        chain: Vec::new(),
                        in_error: false,
                    }
                }
            },
            None => Self { chain, in_error: false },
        }
    }

    pub fn is_empty(&self) -> bool {
        self.chain.is_empty()
    }

    pub fn filter(&mut self, data: Vec<u8>, unit_trace: Option<&mut UnitTrace>) -> Vec<u8> {
        if self.in_error {
            return data;
        }

        match self.do_filter(data.clone(), unit_trace) {
            Ok(filtered) => filtered,
            Err(err) => {
                log::error!("error while filtering: {:?}", err);
                self.in_error = true;

                // Give back what the html filters were holding, oldest bytes first, then pass through
                let mut passthrough = Vec::new();

                for item in self.chain.iter_mut().rev() {
                    if let FilterBodyActionItem::Html(html_body_filter) = item {
                        passthrough.extend(html_body_filter.end());
                    }
                }

                passthrough.extend(data);

                passthrough
            }
        }
    }

    fn do_filter(&mut self, mut data: Vec<u8>, mut unit_trace: Option<&mut UnitTrace>) -> Result<Vec<u8>> {
        for item in &mut self.chain {
            data = item.filter(data, unit_trace.as_deref_mut())?;

            if data.is_empty() {
                break;
            }
        }

        Ok(data)
    }

    pub fn end(&mut self, unit_trace: Option<&mut UnitTrace>) -> Vec<u8> {
        if self.in_error {
            return Vec::new();
        }

        match self.do_end(unit_trace) {
            Ok(end) => end,
            Err((err, passthrough)) => {
                log::error!("error while ending filtering: {}", err);
                self.in_error = true;

                passthrough
            }
        }
    }

    /// On failure, also gives back the bytes that must be passed through: nothing of this call has been emitted yet
    fn do_end(&mut self, mut unit_trace: Option<&mut UnitTrace>) -> std::result::Result<Vec<u8>, (FilterBodyError, Vec<u8>)> {
        let mut data: Option<Vec<u8>> = None;

        for index in 0..self.chain.len() {
            let in_flight = data.clone().unwrap_or_default();
            let item = &mut self.chain[index];

            let result = match data {
                None => item.end(),
                Some(str) => match item.filter(str, unit_trace.as_deref_mut()) {
                    Ok(mut end_str) => item.end().map(|end| {
                        end_str.extend(end);

                        end_str
                    }),
                    Err(err) => Err(err),
                },
            };

            let new_data = match result {
                Ok(new_data) => new_data,
                Err(err) => {
                    // Previous stages have handed over everything they held (it is in flight); this stage and the
                    // next ones hold older bytes, the last stage the oldest
                    let mut passthrough = Vec::new();

                    for item in self.chain[index..].iter_mut().rev() {
                        if let FilterBodyActionItem::Html(html_body_filter) = item {
                            passthrough.extend(html_body_filter.end());
                        }
                    }

                    passthrough.extend(in_flight);

                    return Err((err, passthrough));
                }
            };

            data = if new_data.is_empty() { None } else { Some(new_data) };
        }

        Ok(data.unwrap_or_default())
    }
}

#[cfg(feature = "verif-hooks")]
impl FilterBodyAction {
    /// Whether the chain has failed and is passing data through (read-only, verification harness).
    pub fn verif_in_error(&self) -> bool {
        self.in_error
    }

    /// Kinds of the stages of the chain, in order (read-only, verification harness).
    pub fn verif_chain_kinds(&self) -> Vec<&'static str> {
        self.chain
            .iter()
            .map(|item| match item {
                FilterBodyActionItem::Html(_) => "html",
                FilterBodyActionItem::Text(_) => "text",
                #[cfg(feature = "compress")]
                FilterBodyActionItem::Encode(_) => "encode",
                #[cfg(feature = "compress")]
                FilterBodyActionItem::Decode(_) => "decode",
            })
            .collect()
    }
}

impl FilterBodyActionItem {
    pub fn new(filter: BodyFilter, content_type: Option<String>) -> Option<Self> {
        match filter {
            BodyFilter::HTML(html_body_filter) => match content_type {
                Some(content_type) if content_type.contains("text/html") => {
                    // @TODO Support charset
                    HtmlBodyVisitor::new(html_body_filter).map(|visitor| Self::Html(HtmlFilterBodyAction::new(visitor)))
                }
                None => {
                    // Assume HTML if no content type
                    HtmlBodyVisitor::new(html_body_filter).map(|visitor| Self::Html(HtmlFilterBodyAction::new(visitor)))
                }
                _ => {
                    log::warn!(
                        "html filtering is only supported for text/html content type, {} received",
                        content_type.unwrap_or_default()
                    );

                    None
                }
            },
            BodyFilter::Text(text_body_filter) => Some(Self::Text(TextFilterBodyAction::new(
                text_body_filter.id,
                match text_body_filter.action {
                    TextAction::Append => TextFilterAction::Append,
                    TextAction::Prepend => TextFilterAction::Prepend,
                    TextAction::Replace => TextFilterAction::Replace,
                },
                text_body_filter.content,
            ))),
        }
    }

    pub fn filter(&mut self, data: Vec<u8>, unit_trace: Option<&mut UnitTrace>) -> Result<Vec<u8>> {
        Ok(match self {
            FilterBodyActionItem::Html(html_body_filter) => html_body_filter.filter(data, unit_trace)?,
            FilterBodyActionItem::Text(text_body_filter) => text_body_filter.filter(data, unit_trace),
            #[cfg(feature = "compress")]
            FilterBodyActionItem::Decode(decode_body_filter) => decode_body_filter.filter(data)?,
            #[cfg(feature = "compress")]
            FilterBodyActionItem::Encode(encode_body_filter) => encode_body_filter.filter(data)?,
        })
    }

    pub fn end(&mut self) -> Result<Vec<u8>> {
        Ok(match self {
            FilterBodyActionItem::Html(html_body_filter) => html_body_filter.end(),
            FilterBodyActionItem::Text(text_body_filter) => text_body_filter.end(),
            #[cfg(feature = "compress")]
            FilterBodyActionItem::Decode(decode_body_filter) => decode_body_filter.end()?,
            #[cfg(feature = "compress")]
            FilterBodyActionItem::Encode(encode_body_filter) => encode_body_filter.end()?,
        })
    }
}

#[cfg(test)]
mod tests {
    use super::*;
    use crate::api::HTMLBodyFilter;
    use flate2::Compression;
    use flate2::write::{GzDecoder, GzEncoder, ZlibDecoder, ZlibEncoder};
    use std::io::prelude::*;

    #[test]
    pub fn test_filter_gzip() {
        let decompressed_input = "<html><head></head><body class=\"page\"><div>Yolo</div></body></html>".to_string();
        let mut encoder = GzEncoder::new(Vec::new(), Compression::default());
        encoder.write_all(decompressed_input.as_bytes()).unwrap();
        let compressed_input = encoder.finish().unwrap();

        let headers = vec![
            Header {
                name: "Content-Encoding".to_string(),
                value: "gzip".to_string(),
            },
            Header {
                name: "Content-Type".to_string(),
                value: "text/html;charset=".to_string(),
            },
        ];

        let mut filter = FilterBodyAction::new(
            vec![BodyFilter::HTML(HTMLBodyFilter {
                action: "prepend_child".to_string(),
                element_tree: vec!["html".to_string(), "body".to_string()],
                css_selector: Some("".to_string()),
                value: "<p>This is as test</p>".to_string(),
                id: Some("test".to_string()),
                target_hash: Some("target_hash".to_string()),
                inner_value: None,
            })],
            &headers,
        );

        let size = compressed_input.len();
        let mut filtered_size = 0;
        let mut filtered = Vec::new();

        while filtered_size < size - 10 {
            filtered.extend(filter.filter(compressed_input.as_slice()[filtered_size..filtered_size + 10].to_vec(), None));
            filtered_size += 10;
        }

        filtered.extend(filter.filter(compressed_input.as_slice()[filtered_size..size].to_vec(), None));
        filtered.extend(filter.end(None));

        let mut decoder = GzDecoder::new(Vec::new());
        decoder.write_all(&filtered).unwrap();
        let decompressed_output = decoder.finish().unwrap();

        assert_eq!(
            String::from_utf8(decompressed_output).unwrap(),
            "<html><head></head><body class=\"page\"><p>This is as test</p><div>Yolo</div></body></html>".to_string()
        );
    }

    #[test]
    pub fn test_filter_deflate() {
        let decompressed_input = "<html><head></head><body class=\"page\"><div>Yolo</div></body></html>".to_string();
        let mut encoder = ZlibEncoder::new(Vec::new(), Compression::default());
        encoder.write_all(decompressed_input.as_bytes()).unwrap();
        let compressed_input = encoder.finish().unwrap();

        let headers = vec![
            Header {
                name: "Content-Encoding".to_string(),
                value: "deflate".to_string(),
            },
            Header {
                name: "Content-Type".to_string(),
                value: "text/html;charset=".to_string(),
            },
        ];

        let mut filter = FilterBodyAction::new(
            vec![BodyFilter::HTML(HTMLBodyFilter {
                action: "prepend_child".to_string(),
                element_tree: vec!["html".to_string(), "body".to_string()],
                css_selector: Some("".to_string()),
                value: "<p>This is as test</p>".to_string(),
                id: Some("test".to_string()),
                target_hash: Some("target_hash".to_string()),
                inner_value: None,
            })],
            &headers,
        );

        let size = compressed_input.len();
        let mut filtered_size = 0;
        let mut filtered = Vec::new();

        while filtered_size < size - 10 {
            filtered.extend(filter.filter(compressed_input.as_slice()[filtered_size..filtered_size + 10].to_vec(), None));
            filtered_size += 10;
        }

        filtered.extend(filter.filter(compressed_input.as_slice()[filtered_size..size].to_vec(), None));
        filtered.extend(filter.end(None));

        let mut decoder = ZlibDecoder::new(Vec::new());
        decoder.write_all(&filtered).unwrap();
        let decompressed_output = decoder.finish().unwrap();

        assert_eq!(
            String::from_utf8(decompressed_output).unwrap(),
            "<html><head></head><body class=\"page\"><p>This is as test</p><div>Yolo</div></body></html>".to_string()
        );
    }

    #[test]
    pub fn test_filter_brotli() {
        let decompressed_input = "<html><head><h2>This is stupide data to ensure compression before</H2></head><body class=\"page\"><div>Yolo</div></body></html>".to_string();
        let mut compressed_input = Vec::new();
        let mut reader = brotli::CompressorReader::new(decompressed_input.as_bytes(), 4096, 11, 22);
        reader.read_to_end(&mut compressed_input).expect("Failed to encode");

        let headers = vec![
            Header {
                name: "Content-Encoding".to_string(),
                value: "br".to_string(),
            },
            Header {
                name: "Content-Type".to_string(),
                value: "text/html;charset=".to_string(),
            },
        ];

        let mut filter = FilterBodyAction::new(
            vec![BodyFilter::HTML(HTMLBodyFilter {
                action: "prepend_child".to_string(),
                element_tree: vec!["html".to_string(), "body".to_string()],
                css_selector: Some("".to_string()),
                value: "<p>This is as test</p>".to_string(),
                id: Some("test".to_string()),
                target_hash: Some("target_hash".to_string()),
                inner_value: None,
            })],
            &headers,
        );

        let size = compressed_input.len();
        let mut filtered_size = 0;
        let mut filtered = Vec::new();

        while filtered_size < size - 10 {
            filtered.extend(filter.filter(compressed_input.as_slice()[filtered_size..filtered_size + 10].to_vec(), None));
            filtered_size += 10;
        }

        filtered.extend(filter.filter(compressed_input.as_slice()[filtered_size..size].to_vec(), None));
        filtered.extend(filter.end(None));

        let mut decompressed_output = Vec::new();
        let mut reader = brotli::Decompressor::new(filtered.as_slice(), 4096);
        reader.read_to_end(&mut decompressed_output).expect("Failed to decompress");

        assert_eq!(
            String::from_utf8(decompressed_output).unwrap(),
            "<html><head><h2>This is stupide data to ensure compression before</H2></head><body class=\"page\"><p>This is as test</p><div>Yolo</div></body></html>".to_string()
        );
    }

    #[test]
    pub fn test_filter() {
        let mut filter = FilterBodyAction::new(Vec::new(), &[]);

        let before_filter = "Test".to_string().into_bytes();
        let filtered = filter.filter(before_filter.clone(), None);
        let end = filter.end(None);

        assert_eq!(before_filter, filtered);
        assert!(end.is_empty());
    }

    #[test]
    pub fn test_buffer_on_error() {
        let mut filter = FilterBodyAction::new(Vec::new(), &[]);

        let mut filtered = filter.filter("<div>Text </".to_string().into_bytes(), None);
        filtered.extend(filter.end(None));

        assert_eq!("<div>Text </".to_string().into_bytes(), filtered);
    }

    #[test]
    pub fn test_replace() {
        let mut filter = FilterBodyAction::new(
            vec![
                BodyFilter::HTML(HTMLBodyFilter {
                    action: "append_child".to_string(),
                    element_tree: vec!["html".to_string(), "head".to_string()],
                    css_selector: Some(r#"meta[name="description"]"#.to_string()),
                    value: "<meta name=\"description\" content=\"New Description\" />".to_string(),
                    id: Some("test".to_string()),
                    target_hash: Some("target_hash".to_string()),
                    inner_value: None,
                }),
                BodyFilter::HTML(HTMLBodyFilter {
                    action: "replace".to_string(),
                    element_tree: vec!["html".to_string(), "head".to_string(), "meta".to_string()],
                    css_selector: Some(r#"meta[name="description"]"#.to_string()),
                    value: "<meta name=\"description\" content=\"New Description\" />".to_string(),
                    id: Some("test".to_string()),
                    target_hash: Some("target_hash".to_string()),
                    inner_value: None,
                }),
            ],
            &[],
        );

        let mut filtered = filter.filter(
            "<html><head><meta name=\"description\"></head></html>".to_string().into_bytes(),
            None,
        );
        filtered.extend(filter.end(None));

        assert_eq!(
            "<html><head><meta name=\"description\" content=\"New Description\" /></head></html>"
                .to_string()
                .into_bytes(),
            filtered
        );
    }

    #[test]
    pub fn test_append() {
        let mut filter = FilterBodyAction::new(
            vec![
                BodyFilter::HTML(HTMLBodyFilter {
                    action: "append_child".to_string(),
                    element_tree: vec!["html".to_string(), "head".to_string()],
                    css_selector: Some(r#"meta[name="description"]"#.to_string()),
                    value: "<meta name=\"description\" content=\"New Description\" />".to_string(),
                    id: Some("test".to_string()),
                    target_hash: Some("target_hash".to_string()),
                    inner_value: None,
                }),
                BodyFilter::HTML(HTMLBodyFilter {
                    action: "replace".to_string(),
                    element_tree: vec!["html".to_string(), "head".to_string(), "meta".to_string()],
                    css_selector: Some(r#"meta[name="description"]"#.to_string()),
                    value: "<meta name=\"description\" content=\"New Description\" />".to_string(),
                    id: Some("test".to_string()),
                    target_hash: Some("target_hash".to_string()),
                    inner_value: None,
                }),
            ],
            &[],
        );

        let mut filtered = filter.filter("<html><head><meta></head></html>".to_string().into_bytes(), None);
        filtered.extend(filter.end(None));

        assert_eq!(
            "<html><head><meta><meta name=\"description\" content=\"New Description\" /></head></html>"
                .to_string()
                .into_bytes(),
            filtered
        );
    }

    #[test]
    pub fn test_prepend() {
        let mut filter = FilterBodyAction::new(
            vec![BodyFilter::HTML(HTMLBodyFilter {
                action: "prepend_child".to_string(),
                element_tree: vec!["html".to_string(), "body".to_string()],
                css_selector: Some("".to_string()),
                value: "<p>This is as test</p>".to_string(),
                id: Some("test".to_string()),
                target_hash: Some("target_hash".to_string()),
                inner_value: None,
            })],
            &[],
        );

        let mut filtered = filter.filter(
            "<html><head></head><body class=\"page\"><div>Yolo</div></body></html>"
                .to_string()
                .into_bytes(),
            None,
        );
        filtered.extend(filter.end(None));

        assert_eq!(
            "<html><head></head><body class=\"page\"><p>This is as test</p><div>Yolo</div></body></html>"
                .to_string()
                .into_bytes(),
            filtered
        );
    }

    #[test]
    pub fn test_description_2() {
        let mut filter = FilterBodyAction::new(
            vec![
                BodyFilter::HTML(HTMLBodyFilter {
                    action: "append_child".to_string(),
                    element_tree: vec!["html".to_string(), "head".to_string()],
                    css_selector: Some(r#"meta[property="og:description"]"#.to_string()),
                    value: r#"<meta property="og:description" content="New Description" />"#.to_string(),
                    id: Some("test".to_string()),
                    target_hash: Some("target_hash".to_string()),
                    inner_value: None,
                }),
                BodyFilter::HTML(HTMLBodyFilter {
                    action: "replace".to_string(),
                    element_tree: vec!["html".to_string(), "head".to_string(), "meta".to_string()],
                    css_selector: Some(r#"meta[property="og:description"]"#.to_string()),
                    value: r#"<meta property="og:description" content="New Description" />"#.to_string(),
                    id: Some("test".to_string()),
                    target_hash: Some("target_hash".to_string()),
                    inner_value: None,
                }),
            ],
            &[],
        );

        let mut filtered = filter.filter(r#"<html><head><description>Old description</description><meta /><meta property="og:description" content="Old Description" /></head></html>"#.to_string().into_bytes(), None);
        filtered.extend(filter.end(None));

        assert_eq!(
            r#"<html><head><description>Old description</description><meta /><meta property="og:description" content="New Description" /></head></html>"#.to_string().into_bytes(),
            filtered
        );
    }
}
