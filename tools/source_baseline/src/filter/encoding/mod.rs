mod decode;
mod encode;

#[derive(Clone)]
pub enum SupportedEncoding {
    Brotli,
    Gzip,
    Deflate,
}

impl SupportedEncoding {
    pub fn new_hash_set() -> HashSet<String> {
        let mut set = HashSet::new();
        set.insert("br".to_string());
        set.insert("gzip".to_string());
        set.insert("deflate".to_string());
        set
    }
}

pub use decode::DecodeFilterBody;
pub use encode::EncodeFilterBody;
use std::collections::HashSet;

pub fn get_encoding_filters(encoding: &str) -> Option<(DecodeFilterBody, EncodeFilterBody)> {
    let supported_encoding = match encoding {
        "br" => SupportedEncoding::Brotli,
        "gzip" => SupportedEncoding::Gzip,
        "deflate" => SupportedEncoding::Deflate,
        _ => return None,
    };

    Some((
        DecodeFilterBody::new(supported_encoding.clone()),
        EncodeFilterBody::new(supported_encoding),
    ))
}
