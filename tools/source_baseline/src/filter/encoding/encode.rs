use crate::filter::encoding::SupportedEncoding;
use crate::filter::error::Result;
use brotli::CompressorWriter;
use flate2::write::{GzEncoder, ZlibEncoder};
use std::fmt::{Debug, Formatter};
use std::io::Write;

pub enum EncodeFilterBody {
    Gzip(GzEncoder<Vec<u8>>),
    Brotli(Box<CompressorWriter<Vec<u8>>>),
    Deflate(ZlibEncoder<Vec<u8>>),
}

impl Debug for EncodeFilterBody {
    fn fmt(&self, f: &mut Formatter<'_>) -> std::fmt::Result {
        f.debug_struct("EncodeFilterBody").finish()
    }
}

impl EncodeFilterBody {
    pub fn new(encoding: SupportedEncoding) -> Self {
        match encoding {
            SupportedEncoding::Brotli => Self::Brotli(Box::new(CompressorWriter::new(Vec::new(), 4096, 11, 22))),
            SupportedEncoding::Gzip => Self::Gzip(GzEncoder::new(Vec::new(), flate2::Compression::default())),
            SupportedEncoding::Deflate => Self::Deflate(ZlibEncoder::new(Vec::new(), flate2::Compression::default())),
        }
    }

    pub fn filter(&mut self, data: Vec<u8>) -> Result<Vec<u8>> {
        match self {
            Self::Deflate(encoder) => {
                encoder.write_all(data.as_slice())?;
                encoder.flush()?;

                if encoder.get_ref().is_empty() {
                    return Ok(Vec::new());
                }

                let mut buffer = Vec::new();
                std::mem::swap(&mut buffer, encoder.get_mut());

                Ok(buffer)
            }
            Self::Gzip(encoder) => {
                encoder.write_all(data.as_slice())?;
                encoder.flush()?;

                if encoder.get_ref().is_empty() {
                    return Ok(Vec::new());
                }

                let mut buffer = Vec::new();
                std::mem::swap(&mut buffer, encoder.get_mut());

                Ok(buffer)
            }
            Self::Brotli(encoder) => {
                encoder.write_all(data.as_slice())?;
                encoder.flush()?;

                if encoder.get_ref().is_empty() {
                    return Ok(Vec::new());
                }

                let mut buffer = Vec::new();
                std::mem::swap(&mut buffer, encoder.get_mut());

                Ok(buffer)
            }
        }
    }

    pub fn end(&mut self) -> Result<Vec<u8>> {
        match self {
            Self::Deflate(d) => {
                let mut encoder = ZlibEncoder::new(Vec::new(), flate2::Compression::default());
                std::mem::swap(d, &mut encoder);

                encoder.try_finish()?;
                Ok(encoder.finish()?)
            }
            Self::Gzip(d) => {
                let mut encoder = GzEncoder::new(Vec::new(), flate2::Compression::default());
                std::mem::swap(d, &mut encoder);

                encoder.try_finish()?;
                Ok(encoder.finish()?)
            }
            Self::Brotli(d) => {
                let mut compressor = CompressorWriter::new(Vec::new(), 4096, 11, 22);
                std::mem::swap(&mut compressor, d);

                Ok(compressor.into_inner())
            }
        }
    }
}
