use crate::filter::encoding::SupportedEncoding;
use crate::filter::error::Result;
use brotli::DecompressorWriter;
use flate2::write::{GzDecoder, ZlibDecoder};
use std::fmt::{Debug, Formatter};
use std::io::Write;

pub enum DecodeFilterBody {
    Gzip(GzDecoder<Vec<u8>>),
    Brotli(Box<DecompressorWriter<Vec<u8>>>),
    Deflate(ZlibDecoder<Vec<u8>>),
}

impl Debug for DecodeFilterBody {
    fn fmt(&self, f: &mut Formatter<'_>) -> std::fmt::Result {
        f.debug_struct("DecodeFilterBody").finish()
    }
}

impl DecodeFilterBody {
    pub fn new(encoding: SupportedEncoding) -> Self {
        match encoding {
            SupportedEncoding::Brotli => Self::Brotli(Box::new(DecompressorWriter::new(Vec::new(), 4096))),
            SupportedEncoding::Gzip => Self::Gzip(GzDecoder::new(Vec::new())),
            SupportedEncoding::Deflate => Self::Deflate(ZlibDecoder::new(Vec::new())),
        }
    }

    pub fn filter(&mut self, data: Vec<u8>) -> Result<Vec<u8>> {
        match self {
            Self::Deflate(decoder) => {
                decoder.write_all(data.as_slice())?;
                decoder.flush()?;

                if decoder.get_ref().is_empty() {
                    return Ok(Vec::new());
                }

                let mut buffer = Vec::new();
                std::mem::swap(&mut buffer, decoder.get_mut());

                Ok(buffer)
            }
            Self::Gzip(decoder) => {
                decoder.write_all(data.as_slice())?;
                decoder.flush()?;

                if decoder.get_ref().is_empty() {
                    return Ok(Vec::new());
                }

                let mut buffer = Vec::new();
                std::mem::swap(&mut buffer, decoder.get_mut());

                Ok(buffer)
            }
            Self::Brotli(decoder) => {
                decoder.write_all(data.as_slice())?;
                decoder.flush()?;

                if decoder.get_ref().is_empty() {
                    return Ok(Vec::new());
                }

                let mut buffer = Vec::new();
                std::mem::swap(&mut buffer, decoder.get_mut());

                Ok(buffer)
            }
        }
    }

    pub fn end(&mut self) -> Result<Vec<u8>> {
        match self {
            Self::Deflate(d) => {
                let mut decoder = ZlibDecoder::new(Vec::new());
                std::mem::swap(d, &mut decoder);

                decoder.try_finish()?;
                Ok(decoder.finish()?)
            }
            Self::Gzip(d) => {
                let mut decoder = GzDecoder::new(Vec::new());
                std::mem::swap(d, &mut decoder);

                decoder.try_finish()?;
                Ok(decoder.finish()?)
            }
            Self::Brotli(d) => {
                let mut decompressor = DecompressorWriter::new(Vec::new(), 4096);
                std::mem::swap(&mut decompressor, d);

                match decompressor.into_inner() {
                    Ok(buffer) => Ok(buffer),
                    Err(buffer) => Ok(buffer),
                }
            }
        }
    }
}
