use crate::action::UnitTrace;

#[derive(Debug)]
pub struct TextFilterBodyAction {
    id: Option<String>,
    action: TextFilterAction,
    content: Vec<u8>,
    executed: bool,
}

#[derive(Debug)]
pub enum TextFilterAction {
    Append,
    Prepend,
    Replace,
}

impl TextFilterBodyAction {
    pub fn new(id: Option<String>, action: TextFilterAction, content: String) -> Self {
        Self {
            id,
            action,
            content: content.into_bytes(),
            executed: false,
        }
    }

    pub fn filter(&mut self, data: Vec<u8>, unit_trace: Option<&mut UnitTrace>) -> Vec<u8> {
        match self.action {
            TextFilterAction::Replace => {
                if let Some(trace) = unit_trace {
                    if let Some(id) = self.id.clone() {
                        // We always use "body" as target since it's not
                        // possible to change the value in the UI
                        trace.override_unit_id_with_target("text", id.as_str());
                    }
                }

                if self.executed {
                    Vec::new()
                } else {
                    self.executed = true;
                    self.content.clone()
                }
            }
            TextFilterAction::Append => {
                if let Some(trace) = unit_trace {
                    if let Some(id) = self.id.clone() {
                        // We always use "body" as target since it's not
                        // possible to change the value in the UI
                        trace.add_unit_id_with_target("text", id.as_str());
                    }
                }

                data
            }
            TextFilterAction::Prepend => {
                if let Some(trace) = unit_trace {
                    if let Some(id) = self.id.clone() {
                        // We always use "body" as target since it's not
                        // possible to change the value in the UI
                        trace.add_unit_id_with_target("text", id.as_str());
                    }
                }

                if self.executed {
                    data
                } else {
                    self.executed = true;
                    let mut content = self.content.clone();
                    content.extend(data);

                    content
                }
            }
        }
    }

    pub fn end(&mut self) -> Vec<u8> {
        if self.executed {
            Vec::new()
        } else {
            self.executed = true;
            self.content.clone()
        }
    }
}
