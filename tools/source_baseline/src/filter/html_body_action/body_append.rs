use super::super::html_filter_body::VOID_ELEMENTS;
use super::evaluate;
use crate::action::UnitTrace;
use crate::filter::error::Result;
use crate::html;

#[derive(Debug)]
pub struct BodyAppend {
    element_tree: Vec<String>,
    position: usize,
    css_selector: Option<String>,
    content: String,
    inner_content: String,
    id: Option<String>,
    target_hash: Option<String>,
}

impl BodyAppend {
    pub fn new(
        element_tree: Vec<String>,
        css_selector: Option<String>,
        content: String,
        inner_content: String,
        id: Option<String>,
        target_hash: Option<String>,
    ) -> BodyAppend {
        BodyAppend {
            element_tree,
            css_selector,
            position: 0,
            content,
            inner_content,
            id,
            target_hash,
        }
    }
}

impl BodyAppend {
    pub fn enter(&mut self, data: String) -> (Option<String>, Option<String>, bool, String) {
        let next_leave = Some(self.element_tree[self.position].clone());
        let mut next_enter = None;

        if self.position + 1 < self.element_tree.len() {
            self.position += 1;
            next_enter = Some(self.element_tree[self.position].clone());

            return (next_enter, next_leave, false, data);
        }

        let should_buffer =
            self.position + 1 >= self.element_tree.len() && self.css_selector.is_some() && !self.css_selector.as_ref().unwrap().is_empty();

        (next_enter, next_leave, should_buffer, data)
    }

    pub fn leave(&mut self, data: String, unit_trace: Option<&mut UnitTrace>) -> Result<(Option<String>, Option<String>, String)> {
        let next_enter = Some(self.element_tree[self.position].clone());
        let is_processing = self.position + 1 >= self.element_tree.len();
        let next_leave = if self.position as i32 > 0 {
            self.position -= 1;

            Some(self.element_tree[self.position].clone())
        } else {
            None
        };

        if is_processing {
            if let Some(css_selector) = self.css_selector.as_ref() {
                if !css_selector.is_empty() {
                    if !evaluate(data.as_str(), css_selector.as_str()) {
                        if let Some(trace) = unit_trace {
                            if let Some(id) = self.id.clone() {
                                trace.add_value_computed_by_unit(&id, &self.inner_content);
                                if let Some(target_hash) = self.target_hash.clone() {
                                    trace.add_unit_id_with_target(target_hash.as_str(), id.as_str());
                                } else {
                                    trace.add_unit_id(id);
                                }
                            }
                        }

                        return Ok((next_enter, next_leave, append_child(data, self.content.clone())?));
                    }

                    return Ok((next_enter, next_leave, data));
                }
            }

            let mut new_data = self.content.clone();
            if let Some(trace) = unit_trace {
                if let Some(id) = self.id.clone() {
                    trace.add_value_computed_by_unit(&id, &self.inner_content);
                    if let Some(target_hash) = self.target_hash.clone() {
                        trace.add_unit_id_with_target(target_hash.as_str(), id.as_str());
                    } else {
                        trace.add_unit_id(id);
                    }
                }
            }
            new_data.push_str(data.as_str());

            return Ok((next_enter, next_leave, new_data));
        }

        Ok((next_enter, next_leave, data))
    }

    pub fn first(&self) -> String {
        self.element_tree[0].clone()
    }
}

fn append_child(content: String, child: String) -> Result<String> {
    let buffer = content.as_bytes().to_vec();
    let mut tokenizer = html::Tokenizer::new(buffer);
    let mut output = "".to_string();
    let mut level = 0;

    loop {
        let token_type = tokenizer.next()?;

        if token_type == html::TokenType::ErrorToken {
            return Ok(content);
        }

        if token_type == html::TokenType::StartTagToken {
            level += 1;
            let (tag_name, _) = tokenizer.tag_name()?;

            if VOID_ELEMENTS.contains(tag_name.unwrap().as_str()) {
                level -= 1;
            }
        }

        if token_type == html::TokenType::EndTagToken {
            level -= 1;

            if level == 0 {
                output.push_str(child.as_str());
                output.push_str(tokenizer.raw_as_string()?.as_str());
                output.push_str(tokenizer.buffered_as_string()?.as_str());

                return Ok(output);
            }
        }

        output.push_str(tokenizer.raw_as_string()?.as_str());
    }
}
