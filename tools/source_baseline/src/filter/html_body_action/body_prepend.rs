use super::evaluate;
use crate::filter::error::Result;
use crate::{action::UnitTrace, html};

#[derive(Debug)]
pub struct BodyPrepend {
    element_tree: Vec<String>,
    position: usize,
    css_selector: Option<String>,
    content: String,
    inner_content: String,
    is_buffering: bool,
    id: Option<String>,
    target_hash: Option<String>,
}

impl BodyPrepend {
    pub fn new(
        element_tree: Vec<String>,
        css_selector: Option<String>,
        content: String,
        inner_content: String,
        id: Option<String>,
        target_hash: Option<String>,
    ) -> BodyPrepend {
        BodyPrepend {
            element_tree,
            css_selector,
            position: 0,
            content,
            inner_content,
            is_buffering: false,
            id,
            target_hash,
        }
    }
}

impl BodyPrepend {
    pub fn enter(&mut self, data: String, unit_trace: Option<&mut UnitTrace>) -> (Option<String>, Option<String>, bool, String) {
        let next_leave = Some(self.element_tree[self.position].clone());
        let mut next_enter = None;
        let mut new_data = data;

        if self.position + 1 < self.element_tree.len() {
            self.position += 1;
            next_enter = Some(self.element_tree[self.position].clone());

            return (next_enter, next_leave, false, new_data);
        }

        if self.position + 1 >= self.element_tree.len() {
            if self.css_selector.is_none() || self.css_selector.as_ref().unwrap().is_empty() {
                new_data.push_str(self.content.as_str());
                if let Some(trace) = unit_trace {
                    if let Some(id) = self.id.clone() {
                        trace.add_value_computed_by_unit(&id, &self.inner_content);
                        if let Some(target_hash) = self.target_hash.clone() {
                            trace.add_unit_id_with_target(target_hash.as_str(), id.as_str());
                        } else {
                            trace.add_unit_id(id);
                        }
                    }
                }
            } else {
                self.is_buffering = true;
            }
        }

        (next_enter, next_leave, self.is_buffering, new_data)
    }

    pub fn leave(&mut self, data: String, unit_trace: Option<&mut UnitTrace>) -> Result<(Option<String>, Option<String>, String)> {
        let next_enter = Some(self.element_tree[self.position].clone());
        let next_leave = if self.position as i32 > 0 {
            self.position -= 1;

            Some(self.element_tree[self.position].clone())
        } else {
            None
        };

        if self.is_buffering && self.css_selector.is_some() && !self.css_selector.as_ref().unwrap().is_empty() {
            self.is_buffering = false;

            if !evaluate(data.as_str(), self.css_selector.as_ref().unwrap().as_str()) {
                if let Some(trace) = unit_trace {
                    if let Some(id) = self.id.clone() {
                        trace.add_value_computed_by_unit(&id, &self.inner_content);
                        if let Some(target_hash) = self.target_hash.clone() {
                            trace.add_unit_id_with_target(target_hash.as_str(), id.as_str());
                        } else {
                            trace.add_unit_id(id);
                        }
                    }
                }
                return Ok((next_enter, next_leave, prepend_child(data, self.content.clone())?));
            }
        }

        Ok((next_enter, next_leave, data))
    }

    pub fn first(&self) -> String {
        self.element_tree[0].clone()
    }
}

fn prepend_child(content: String, child: String) -> Result<String> {
    let buffer = content.as_bytes().to_vec();
    let mut tokenizer = html::Tokenizer::new(buffer);
    let mut output = "".to_string();

    loop {
        let token_type = tokenizer.next()?;

        if token_type == html::TokenType::ErrorToken {
            return Ok(content);
        }

        if token_type == html::TokenType::StartTagToken {
            output.push_str(tokenizer.raw_as_string()?.as_str());
            output.push_str(child.as_str());
            output.push_str(tokenizer.buffered_as_string()?.as_str());

            return Ok(output);
        }

        output.push_str(tokenizer.raw_as_string()?.as_str());
    }
}
