extern crate scraper;

pub mod body_append;
pub mod body_prepend;
pub mod body_replace;

use crate::action::UnitTrace;
use crate::api::HTMLBodyFilter;
use crate::filter::error::Result;
use crate::filter::html_body_action::body_append::BodyAppend;
use crate::filter::html_body_action::body_prepend::BodyPrepend;
use crate::filter::html_body_action::body_replace::BodyReplace;
use std::fmt::Debug;

#[derive(Debug)]
pub enum HtmlBodyVisitor {
    Append(BodyAppend),
    Prepend(BodyPrepend),
    Replace(BodyReplace),
}

impl HtmlBodyVisitor {
    pub fn new(filter: HTMLBodyFilter) -> Option<HtmlBodyVisitor> {
        if filter.element_tree.is_empty() {
            return None;
        }

        match filter.action.as_str() {
            "append_child" => Some(HtmlBodyVisitor::Append(BodyAppend::new(
                filter.element_tree,
                filter.css_selector,
                filter.value.clone(),
                filter.inner_value.unwrap_or(filter.value),
                filter.id,
                filter.target_hash,
            ))),
            "prepend_child" => Some(HtmlBodyVisitor::Prepend(BodyPrepend::new(
                filter.element_tree,
                filter.css_selector,
                filter.value.clone(),
                filter.inner_value.unwrap_or(filter.value),
                filter.id,
                filter.target_hash,
            ))),
            "replace" => Some(HtmlBodyVisitor::Replace(BodyReplace::new(
                filter.element_tree,
                filter.css_selector,
                filter.value.clone(),
                filter.inner_value.unwrap_or(filter.value),
                filter.id,
                filter.target_hash,
            ))),
            _ => None,
        }
    }

    pub fn enter(&mut self, data: String, unit_trace: Option<&mut UnitTrace>) -> (Option<String>, Option<String>, bool, String) {
        match self {
            Self::Append(append) => append.enter(data),
            Self::Prepend(prepend) => prepend.enter(data, unit_trace),
            Self::Replace(replace) => replace.enter(data),
        }
    }

    pub fn leave(&mut self, data: String, unit_trace: Option<&mut UnitTrace>) -> Result<(Option<String>, Option<String>, String)> {
        Ok(match self {
            Self::Append(append) => append.leave(data, unit_trace)?,
            Self::Prepend(prepend) => prepend.leave(data, unit_trace)?,
            Self::Replace(replace) => replace.leave(data, unit_trace),
        })
    }

    pub fn first(&self) -> String {
        match self {
            Self::Append(append) => append.first(),
            Self::Prepend(prepend) => prepend.first(),
            Self::Replace(replace) => replace.first(),
        }
    }
}

pub fn evaluate(data: &str, expression: &str) -> bool {
    let selector = match scraper::Selector::parse(expression) {
        Ok(selector) => selector,
        Err(err) => {
            log::error!("cannot parse selector {}: {:?}", expression, err);

            return false;
        }
    };

    let document = scraper::Html::parse_fragment(data);
    let mut select = document.select(&selector);

    select.next().is_some()
}
