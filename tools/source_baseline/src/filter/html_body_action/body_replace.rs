use crate::action::UnitTrace;

use super::evaluate;

#[derive(Debug)]
pub struct BodyReplace {
    element_tree: Vec<String>,
    position: usize,
    css_selector: Option<String>,
    content: String,
    inner_content: String,
    is_buffering: bool,
    id: Option<String>,
    target_hash: Option<String>,
}

impl BodyReplace {
    pub fn new(
        element_tree: Vec<String>,
        css_selector: Option<String>,
        content: String,
        inner_content: String,
        id: Option<String>,
        target_hash: Option<String>,
    ) -> BodyReplace {
        BodyReplace {
            element_tree,
            css_selector,
            position: 0,
            content,
            inner_content,
            is_buffering: false,
            id,
            target_hash,
        }
    }
}

impl BodyReplace {
    pub fn enter(&mut self, data: String) -> (Option<String>, Option<String>, bool, String) {
        let next_leave = Some(self.element_tree[self.position].clone());
        let mut next_enter = None;

        if self.position + 1 < self.element_tree.len() {
            self.position += 1;
            next_enter = Some(self.element_tree[self.position].clone());

            return (next_enter, next_leave, false, data);
        }

        if self.position + 1 >= self.element_tree.len() {
            self.is_buffering = true;

            return (next_enter, next_leave, true, data);
        }

        (next_enter, next_leave, false, data)
    }

    pub fn leave(&mut self, data: String, unit_trace: Option<&mut UnitTrace>) -> (Option<String>, Option<String>, String) {
        let next_enter = Some(self.element_tree[self.position].clone());

        let next_leave = if self.position as i32 > 0 && !self.is_buffering {
            self.position -= 1;
            Some(self.element_tree[self.position].clone())
        } else {
            None
        };

        if self.is_buffering {
            self.is_buffering = false;

            if self.css_selector.is_none() || self.css_selector.as_ref().unwrap().is_empty() {
                if let Some(trace) = unit_trace {
                    if let Some(id) = self.id.clone() {
                        trace.add_value_computed_by_unit(&id, &self.inner_content);
                        if let Some(target_hash) = self.target_hash.clone() {
                            trace.override_unit_id_with_target(target_hash.as_str(), id.as_str());
                        } else {
                            trace.add_unit_id(id);
                        }
                    }
                }
                return (next_enter, next_leave, self.content.clone());
            }

            if evaluate(data.as_str(), self.css_selector.as_ref().unwrap().as_str()) {
                if let Some(trace) = unit_trace {
                    if let Some(id) = self.id.clone() {
                        trace.add_value_computed_by_unit(&id, &self.inner_content);
                        if let Some(target_hash) = self.target_hash.clone() {
                            trace.override_unit_id_with_target(target_hash.as_str(), id.as_str());
                        } else {
                            trace.add_unit_id(id);
                        }
                    }
                }
                return (next_enter, next_leave, self.content.clone());
            }
        }

        (next_enter, next_leave, data)
    }

    pub fn first(&self) -> String {
        self.element_tree[0].clone()
    }
}
