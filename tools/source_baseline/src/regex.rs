use regex::{Regex, RegexBuilder};
use std::sync::Arc;

#[derive(Debug, Clone)]
pub struct LazyRegex {
    pub(crate) original: String,
    pub(crate) regex: String,
    pub(crate) compiled: Option<Arc<Regex>>,
    pub(crate) ignore_case: bool,
}

impl LazyRegex {
    #[cfg(feature = "router")]
    pub fn new_node(regex: String, ignore_case: bool) -> LazyRegex {
        LazyRegex {
            regex: if regex.is_empty() {
                ".*".to_string()
            } else {
                ["^", regex.as_str()].join("")
            },
            original: regex,
            compiled: None,
            ignore_case,
        }
    }

    pub fn new_leaf(regex: &str, ignore_case: bool) -> LazyRegex {
        LazyRegex {
            regex: ["^", regex, "$"].join(""),
            original: regex.to_string(),
            compiled: None,
            ignore_case,
        }
    }

    #[cfg(feature = "router")]
    pub fn is_match(&self, value: &str) -> bool {
        match &self.compiled {
            Some(regex) => regex.is_match(value),
            None => {
                if self.original.is_empty() {
                    true
                } else {
                    match self.create_regex() {
                        None => false,
                        Some(regex) => regex.is_match(value),
                    }
                }
            }
        }
    }

    pub fn regex(&self) -> Option<Arc<Regex>> {
        match &self.compiled {
            Some(regex) => Some(regex.clone()),
            None => self.create_regex(),
        }
    }

    pub fn create_regex(&self) -> Option<Arc<Regex>> {
        match RegexBuilder::new(self.regex.as_str()).case_insensitive(self.ignore_case).build() {
            Ok(regex) => Some(Arc::new(regex)),
            Err(e) => {
                tracing::error!("cannot create regex: {:?}", e);

                None
            }
        }
    }

    pub fn compile(&self) -> Self {
        let compiled = self.create_regex();

        LazyRegex {
            regex: self.regex.clone(),
            original: self.original.clone(),
            compiled,
            ignore_case: self.ignore_case,
        }
    }
}
