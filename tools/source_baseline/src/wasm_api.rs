use crate::RouterConfig;
use crate::action::Action as RedirectionioAction;
use crate::api::Log;
use crate::filter::FilterBodyAction;
use crate::http::{Addr, Header, PathAndQueryWithSkipped, Request as RedirectionioRequest};
use chrono::Utc;
use serde_json::{from_str as json_decode, to_string as json_encode};
use std::collections::hash_map::DefaultHasher;
use std::hash::{Hash, Hasher};
use trusted_proxies::{Config, Trusted};
use wasm_bindgen::prelude::*;

#[wasm_bindgen()]
pub struct Request {
    #[wasm_bindgen(skip)]
    pub request: RedirectionioRequest,
}

#[wasm_bindgen()]
pub struct HeaderMap {
    #[wasm_bindgen(skip)]
    pub headers: Vec<Header>,
}

#[wasm_bindgen()]
pub struct Action {
    #[wasm_bindgen(skip)]
    pub action: Option<RedirectionioAction>,
}

#[wasm_bindgen()]
pub struct BodyFilter {
    #[wasm_bindgen(skip)]
    pub filter: Option<FilterBodyAction>,
}

#[wasm_bindgen()]
impl Request {
    #[wasm_bindgen(constructor)]
    pub fn new(uri: String, host: String, scheme: String, method: String) -> Request {
        let config = RouterConfig::default();

        Request {
            request: RedirectionioRequest {
                headers: Vec::new(),
                host: Some(host),
                method: Some(method),
                scheme: Some(scheme),
                path_and_query_skipped: PathAndQueryWithSkipped::from_config(&config, uri.as_str()),
                path_and_query: Some(uri),
                remote_addr: None,
                created_at: Some(Utc::now()),
                sampling_override: None,
            },
        }
    }

    pub fn set_remote_ip(&mut self, remote_addr_str: String) {
        let config = Config::default();

        let remote_addr = match remote_addr_str.parse::<Addr>() {
            Err(_) => {
                return;
            }
            Ok(addr) => addr,
        };

        let trusted = Trusted::from(remote_addr.addr, &self.request, &config);

        self.request.set_remote_ip(trusted.ip());
    }

    pub fn add_header(&mut self, name: String, value: String) {
        self.request.add_header(name, value, false)
    }

    pub fn serialize(&self) -> String {
        match json_encode(&self.request) {
            Err(_) => "".to_string(),
            Ok(request_serialized) => request_serialized,
        }
    }

    pub fn get_hash(&self) -> u64 {
        let mut hasher = DefaultHasher::new();
        self.request.hash(&mut hasher);

        hasher.finish()
    }
}

#[wasm_bindgen()]
impl HeaderMap {
    #[allow(clippy::new_without_default)]
    #[wasm_bindgen(constructor)]
    pub fn new() -> HeaderMap {
        HeaderMap { headers: Vec::new() }
    }

    pub fn add_header(&mut self, name: String, value: String) {
        self.headers.push(Header { name, value })
    }

    pub fn remove_header(&mut self, name: String) {
        self.headers.retain(|header| header.name != name)
    }

    pub fn len(&self) -> usize {
        self.headers.len()
    }

    pub fn is_empty(&self) -> bool {
        self.headers.is_empty()
    }

    pub fn get_header_name(&self, index: usize) -> String {
        match self.headers.get(index) {
            None => "".to_string(),
            Some(header) => header.name.clone(),
        }
    }

    pub fn get_header_value(&self, index: usize) -> String {
        match self.headers.get(index) {
            None => "".to_string(),
            Some(header) => header.value.clone(),
        }
    }
}

#[wasm_bindgen()]
impl Action {
    #[wasm_bindgen(constructor)]
    pub fn new(action_serialized: String) -> Action {
        let action = match json_decode(action_serialized.as_str()) {
            Err(error) => {
                log::error!("Unable to deserialize \"{}\" to action: {}", action_serialized, error,);

                None
            }
            Ok(action) => Some(action),
        };

        Action { action }
    }

    pub fn empty() -> Action {
        Action { action: None }
    }

    pub fn get_status_code(&mut self, response_status_code: u16) -> u16 {
        if let Some(action) = self.action.as_mut() {
            return action.get_status_code(response_status_code, None);
        }

        0
    }

    pub fn filter_headers(&mut self, headers: HeaderMap, response_status_code: u16, add_rule_ids_header: bool) -> HeaderMap {
        if self.action.is_none() {
            return headers;
        }

        let action = self.action.as_mut().unwrap();
        let new_headers = action.filter_headers(headers.headers, response_status_code, add_rule_ids_header, None);

        HeaderMap { headers: new_headers }
    }

    pub fn create_body_filter(&mut self, response_status_code: u16, headers: &HeaderMap) -> BodyFilter {
        if self.action.is_none() {
            return BodyFilter { filter: None };
        }

        let action = self.action.as_mut().unwrap();
        let filter = action.create_filter_body(response_status_code, &headers.headers);

        BodyFilter { filter }
    }

    pub fn should_log_request(&mut self, response_status_code: u16) -> bool {
        if self.action.is_none() {
            return true;
        }

        let action = self.action.as_mut().unwrap();

        action.should_log_request(true, response_status_code, None)
    }
}

#[wasm_bindgen()]
impl BodyFilter {
    pub fn is_null(&self) -> bool {
        self.filter.is_none()
    }

    pub fn filter(&mut self, data: Vec<u8>) -> Vec<u8> {
        match self.filter.as_mut() {
            None => data,
            Some(filter) => filter.filter(data, None),
        }
    }

    pub fn end(&mut self) -> Vec<u8> {
        match self.filter.as_mut() {
            None => Vec::new(),
            Some(filter) => filter.end(None),
        }
    }
}

#[wasm_bindgen()]
pub fn init_log() {
    wasm_logger::init(wasm_logger::Config::new(log::Level::Error));
}

#[wasm_bindgen()]
pub fn create_log_in_json(
    request: Request,
    status_code: u16,
    response_headers: HeaderMap,
    action: &Action,
    proxy: String,
    time: u64,
    client_ip: String,
) -> String {
    let log = Log::from_proxy(
        &request.request,
        status_code,
        &response_headers.headers,
        action.action.as_ref(),
        proxy.as_str(),
        time.into(),
        client_ip.as_str(),
    );

    match json_encode(&log) {
        Err(_) => "".to_string(),
        Ok(s) => s,
    }
}
