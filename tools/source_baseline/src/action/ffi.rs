use crate::action::Action;
use crate::ffi_helpers::{c_char_to_str, string_to_c_char};
use crate::filter::{Buffer, FilterBodyAction};
use crate::http::ffi::{HeaderMap, header_map_to_http_headers, http_headers_to_header_map};
use serde_json::{from_str as json_decode, to_string as json_encode};
use std::os::raw::c_char;
use std::ptr::null;

/// Deserialize a string to an action
///
/// Returns null if an error happens, otherwise it returns a pointer to an action
#[unsafe(no_mangle)]
pub extern "C" fn redirectionio_action_json_deserialize(str: *mut c_char) -> *const Action {
    let action_str = match c_char_to_str(str) {
        None => return null(),
        Some(str) => str,
    };

    let action = match json_decode(action_str) {
        Err(error) => {
            log::error!("Unable to deserialize \"{}\" to action: {}", action_str, error,);

            return null();
        }
        Ok(action) => action,
    };

    Box::into_raw(Box::new(action))
}

/// Serialize an action to a string
///
/// Returns null if an error happens
#[unsafe(no_mangle)]
pub extern "C" fn redirectionio_action_json_serialize(_action: *mut Action) -> *const c_char {
    if _action.is_null() {
        return null();
    }

    // SAFETY: _action is a valid pointer to an Action
    let action = unsafe { &*_action };
    let action_serialized = match json_encode(action) {
        Err(error) => {
            log::error!("Unable to serialize to action: {}", error,);

            return null();
        }
        Ok(action_serialized) => action_serialized,
    };

    string_to_c_char(action_serialized)
}

#[unsafe(no_mangle)]
pub extern "C" fn redirectionio_action_drop(_action: *mut Action) {
    if _action.is_null() {
        return;
    }

    // SAFETY: _action is a valid pointer to an Action
    drop(unsafe { Box::from_raw(_action) });
}

#[unsafe(no_mangle)]
pub extern "C" fn redirectionio_action_get_status_code(_action: *mut Action, response_status_code: u16) -> u16 {
    if _action.is_null() {
        return 0;
    }

    // SAFETY: _action is a valid pointer to an Action
    let action = unsafe { &mut *_action };

    action.get_status_code(response_status_code, None)
}

#[unsafe(no_mangle)]
pub extern "C" fn redirectionio_action_header_filter_filter(
    _action: *mut Action,
    header_map: *const HeaderMap,
    response_status_code: u16,
    add_rule_ids_header: bool,
) -> *const HeaderMap {
    if _action.is_null() {
        return header_map;
    }

    // SAFETY: _action is a valid pointer to an Action
    let action = unsafe { &mut *_action };
    let mut headers = header_map_to_http_headers(header_map);

    headers = action.filter_headers(headers, response_status_code, add_rule_ids_header, None);

    http_headers_to_header_map(headers)
}

#[unsafe(no_mangle)]
pub extern "C" fn redirectionio_action_body_filter_create(
    _action: *mut Action,
    response_status_code: u16,
    response_header_map: *const HeaderMap,
) -> *const FilterBodyAction {
    if _action.is_null() {
        return null();
    }

    // SAFETY: _action is a valid pointer to an Action
    let action = unsafe { &mut *_action };
    let headers = header_map_to_http_headers(response_header_map);

    match action.create_filter_body(response_status_code, headers.as_ref()) {
        None => null(),
        Some(filter_body) => Box::into_raw(Box::new(filter_body)),
    }
}

#[unsafe(no_mangle)]
pub extern "C" fn redirectionio_action_body_filter_filter(_filter: *mut FilterBodyAction, buffer: Buffer) -> Buffer {
    if _filter.is_null() {
        return buffer.duplicate();
    }

    // SAFETY: _filter is a valid pointer to a FilterBodyAction
    let filter = unsafe { &mut *_filter };
    let bytes = buffer.into_vec();

    let new_body = filter.filter(bytes, None);

    Buffer::from_vec(new_body)
}

#[unsafe(no_mangle)]
pub extern "C" fn redirectionio_action_body_filter_close(_filter: *mut FilterBodyAction) -> Buffer {
    if _filter.is_null() {
        return Buffer::default();
    }

    // SAFETY: _filter is a valid pointer to a FilterBodyAction
    let mut filter = unsafe { Box::from_raw(_filter) };
    let end_body = filter.end(None);
    drop(filter);

    Buffer::from_vec(end_body)
}

#[unsafe(no_mangle)]
pub extern "C" fn redirectionio_action_body_filter_drop(_filter: *mut FilterBodyAction) {
    if _filter.is_null() {
        return;
    }

    // SAFETY: _filter is a valid pointer to a FilterBodyAction
    drop(unsafe { Box::from_raw(_filter) });
}

#[unsafe(no_mangle)]
pub extern "C" fn redirectionio_action_should_log_request(_action: *mut Action, allow_log_config: bool, response_status_code: u16) -> bool {
    if _action.is_null() {
        return allow_log_config;
    }

    // SAFETY: _action is a valid pointer to an Action
    let action = unsafe { &mut *_action };

    action.should_log_request(allow_log_config, response_status_code, None)
}
