use serde::{Deserialize, Serialize};

#[derive(Serialize, Deserialize, Debug, Clone)]
pub struct LogOverride {
    pub log_override: bool,
    pub rule_id: Option<String>,
    pub on_response_status_codes: Vec<u16>,
    pub exclude_response_status_codes: bool,
    pub fallback_log_override: Option<bool>,
    pub fallback_rule_id: Option<String>,
    pub unit_id: Option<String>,
}

impl LogOverride {
    pub fn get_log_override(&self, response_status_code: u16) -> (Option<bool>, Option<String>, bool) {
        if self.on_response_status_codes.is_empty() {
            return (Some(self.log_override), self.rule_id.clone(), true);
        }

        if self.exclude_response_status_codes && !self.on_response_status_codes.contains(&response_status_code) {
            return (Some(self.log_override), self.rule_id.clone(), true);
        }

        if !self.exclude_response_status_codes && self.on_response_status_codes.iter().any(|v| *v == response_status_code) {
            return (Some(self.log_override), self.rule_id.clone(), true);
        }

        (self.fallback_log_override, self.fallback_rule_id.clone(), false)
    }
}
