#[cfg(not(target_arch = "wasm32"))]
mod ffi;
mod log_override;
mod status_code_update;
#[cfg(feature = "router")]
mod trace;

use crate::action::log_override::LogOverride;
#[cfg(feature = "router")]
use crate::api::Rule;
use crate::api::{BodyFilter, HeaderFilter};
#[cfg(feature = "router")]
use crate::api::{HTMLBodyFilter, TextBodyFilter};
use crate::filter::{FilterBodyAction, FilterHeaderAction};
use crate::http::Header;
#[cfg(feature = "router")]
use crate::http::Request;
#[cfg(feature = "router")]
use crate::marker::StaticOrDynamic;
#[cfg(feature = "router")]
use crate::router::Route;
use linked_hash_set::LinkedHashSet;
use serde::{Deserialize, Serialize};
pub use status_code_update::StatusCodeUpdate;
use std::collections::HashMap;
use std::fmt::Debug;
use std::iter::FromIterator;
#[cfg(feature = "router")]
use std::sync::Arc;
#[cfg(feature = "router")]
pub use trace::TraceAction;

#[derive(Serialize, Deserialize, Debug, Clone)]
pub struct Action {
    status_code_update: Option<StatusCodeUpdate>,
    header_filters: Vec<HeaderFilterAction>,
    body_filters: Vec<BodyFilterAction>,
    // In 3.0 remove this
    pub rule_ids: LinkedHashSet<String>,
    #[serde(default)]
    rule_traces: Vec<RuleTrace>,
    #[serde(default)]
    pub rules_applied: LinkedHashSet<String>,
    log_override: Option<LogOverride>,
}

#[derive(Serialize, Deserialize, Debug, Clone)]
pub struct RuleTrace {
    id: String,
    on_response_status_codes: Vec<u16>,
    exclude_response_status_codes: bool,
}

#[derive(Serialize, Deserialize, Debug, Clone, Default)]
pub struct UnitTrace {
    rule_ids_applied: LinkedHashSet<String>,
    unit_ids_applied: LinkedHashSet<String>,
    unit_ids_seen: LinkedHashSet<String>,
    value_computed_by_units: HashMap<String, String>,
    #[serde(skip_serializing)]
    with_target_unit_trace: WithTargetUnitTrace,
}

impl UnitTrace {
    pub fn add_unit_id(&mut self, unit_id: String) {
        self.unit_ids_applied.insert(unit_id.clone());
        self.unit_ids_seen.insert(unit_id);
    }

    pub fn add_unit_id_with_target(&mut self, target: &str, unit_id: &str) {
        self.with_target_unit_trace.add_unit_id(target, unit_id);
        // Here we don't care about squashing value, since we want all value.
        self.unit_ids_seen.insert(unit_id.to_string());
    }

    pub fn override_unit_id_with_target(&mut self, target: &str, unit_id: &str) {
        self.with_target_unit_trace.override_unit_id(target, unit_id);
        // Here we don't care about squashing value, since we want all value.
        self.unit_ids_seen.insert(unit_id.to_string());
    }

    pub fn squash_with_target_unit_traces(&mut self) {
        let unit_ids = std::mem::take(&mut self.with_target_unit_trace);

        for (_, unit_ids) in unit_ids.unit_ids_applied_by_key {
            for unit_id in unit_ids {
                self.add_unit_id(unit_id)
            }
        }

        // Sort, for stability in tests
        let mut tmp = Vec::from_iter(self.unit_ids_applied.clone());
        tmp.sort();
        self.unit_ids_applied = LinkedHashSet::from_iter(tmp);

        self.with_target_unit_trace = WithTargetUnitTrace::default();
    }

    pub fn add_value_computed_by_unit(&mut self, key: &str, value: &str) {
        self.value_computed_by_units.insert(key.to_string(), value.to_string());
    }

    pub fn diff(&self, other: Vec<String>) -> LinkedHashSet<String> {
        let mut diff = LinkedHashSet::new();

        for unit_id in other {
            if !&self.unit_ids_applied.contains(&unit_id) {
                diff.insert(unit_id);
            }
        }

        diff
    }

    pub fn get_rule_ids_applied(&self) -> LinkedHashSet<String> {
        self.rule_ids_applied.clone()
    }

    pub fn rule_ids_contains(&self, rule_id: &str) -> bool {
        self.rule_ids_applied.contains(rule_id)
    }

    pub fn get_unit_ids_applied(&self) -> LinkedHashSet<String> {
        self.unit_ids_applied.clone()
    }
}

#[derive(Serialize, Deserialize, Debug, Clone, Default)]
pub struct WithTargetUnitTrace {
    unit_ids_applied_by_key: HashMap<String, LinkedHashSet<String>>,
}

impl WithTargetUnitTrace {
    fn add_unit_id(&mut self, target: &str, unit_id: &str) {
        let unit_ids = self.unit_ids_applied_by_key.entry(target.to_string()).or_default();
        unit_ids.insert(unit_id.to_string());
    }

    fn override_unit_id(&mut self, target: &str, unit_id: &str) {
        self.unit_ids_applied_by_key.remove_entry(target);
        self.add_unit_id(target, unit_id);
    }
}

#[derive(Serialize, Deserialize, Debug, Clone)]
struct HeaderFilterAction {
    filter: HeaderFilter,
    on_response_status_codes: Vec<u16>,
    exclude_response_status_codes: bool,
    rule_id: Option<String>,
}

#[derive(Serialize, Deserialize, Debug, Clone)]
struct BodyFilterAction {
    filter: BodyFilter,
    on_response_status_codes: Vec<u16>,
    exclude_response_status_codes: bool,
    rule_id: Option<String>,
}

impl Default for Action {
    fn default() -> Action {
        Action {
            status_code_update: None,
            header_filters: Vec::new(),
            body_filters: Vec::new(),
            rule_ids: LinkedHashSet::new(),
            rule_traces: Vec::new(),
            rules_applied: LinkedHashSet::new(),
            log_override: None,
        }
    }
}

impl Action {
    pub fn get_applied_rule_ids(&self) -> &LinkedHashSet<String> {
        &self.rules_applied
    }

    #[cfg(feature = "router")]
    pub fn get_target(route: &Route<Rule>, request: &Request) -> Option<String> {
        let markers_captured = route.capture(request);
        let variables = route.handler().variables(&markers_captured, request);
        let rule = route.handler();

        let target = rule.target.as_ref().map(|t| {
            let mut value = StaticOrDynamic::replace(t.clone(), &variables);

            if let Some(skipped_query_params) = request.path_and_query_skipped.skipped_query_params.as_ref() {
                if value.contains('?') {
                    value.push('&');
                } else {
                    value.push('?');
                }

                value.push_str(skipped_query_params.as_str());
            }

            value
        });

        target
    }

    #[cfg(feature = "router")]
    pub fn from_route_rule(route: Arc<Route<Rule>>, request: &Request) -> (Option<Action>, bool, bool, Option<String>) {
        let markers_captured = route.capture(request);
        let variables = route.handler().variables(&markers_captured, request);
        let rule = route.handler();

        if let Some(sampling) = rule.source.sampling {
            let percent_rand = sampling.clamp(0, 100);
            let random_value = (rand::random::<u32>() % 100) + 1;

            match (request.sampling_override, random_value > percent_rand) {
                (Some(false), _) => return (None, false, false, None),
                (None, true) => return (None, false, false, None),
                _ => (),
            }
        }

        let on_response_status_codes = match rule.source.response_status_codes.as_ref() {
            None => Vec::new(),
            Some(codes) => codes.clone(),
        };

        let status_code_update = match rule.status_code.unwrap_or(0) {
            0 => None,
            redirect_code => Some(StatusCodeUpdate {
                status_code: redirect_code,
                on_response_status_codes: on_response_status_codes.clone(),
                exclude_response_status_codes: rule.source.exclude_response_status_codes.is_some(),
                fallback_status_code: 0,
                rule_id: Some(rule.id.clone()),
                fallback_rule_id: None,
                unit_id: rule.redirect_unit_id.clone(),
                target_hash: Some("status_code".to_string()),
            }),
        };

        let mut header_filters = Vec::new();
        let mut body_filters = Vec::new();

        if let Some(target) = &rule.target {
            if !target.is_empty() {
                let mut value = StaticOrDynamic::replace(target.clone(), &variables);

                if let Some(skipped_query_params) = request.path_and_query_skipped.skipped_query_params.as_ref() {
                    if value.contains('?') {
                        value.push('&');
                    } else {
                        value.push('?');
                    }

                    value.push_str(skipped_query_params.as_str());
                }

                header_filters.push(HeaderFilterAction {
                    filter: HeaderFilter {
                        action: "override".to_string(),
                        value,
                        header: "Location".to_string(),
                        id: rule.redirect_unit_id.clone(),
                        target_hash: rule.target_hash.clone(),
                    },
                    on_response_status_codes: match rule.source.response_status_codes.as_ref() {
                        None => Vec::new(),
                        Some(on_response) => on_response.clone(),
                    },
                    exclude_response_status_codes: rule.source.exclude_response_status_codes.is_some(),
                    rule_id: Some(rule.id.clone()),
                })
            }
        }

        if let Some(rule_header_filters) = rule.header_filters.as_ref() {
            for filter in rule_header_filters {
                header_filters.push(HeaderFilterAction {
                    filter: HeaderFilter {
                        action: filter.action.clone(),
                        header: filter.header.clone(),
                        value: StaticOrDynamic::replace(filter.value.clone(), &variables),
                        id: filter.id.clone(),
                        target_hash: filter.target_hash.clone(),
                    },
                    on_response_status_codes: on_response_status_codes.clone(),
                    exclude_response_status_codes: rule.source.exclude_response_status_codes.is_some(),
                    rule_id: Some(rule.id.clone()),
                });
            }
        }

        if let Some(rule_body_filters) = rule.body_filters.as_ref() {
            for filter in rule_body_filters {
                body_filters.push(BodyFilterAction {
                    filter: match filter {
                        BodyFilter::HTML(html_body_filter) => BodyFilter::HTML(HTMLBodyFilter {
                            action: html_body_filter.action.clone(),
                            css_selector: html_body_filter.css_selector.clone(),
                            element_tree: html_body_filter.element_tree.clone(),
                            value: StaticOrDynamic::replace(html_body_filter.value.clone(), &variables),
                            inner_value: Some(StaticOrDynamic::replace(
                                html_body_filter
                                    .inner_value
                                    .clone()
                                    .unwrap_or_else(|| html_body_filter.value.clone()),
                                &variables,
                            )),
                            id: html_body_filter.id.clone(),
                            target_hash: html_body_filter.target_hash.clone(),
                        }),
                        BodyFilter::Text(text_body_filter) => BodyFilter::Text(TextBodyFilter {
                            action: text_body_filter.action.clone(),
                            content: StaticOrDynamic::replace(text_body_filter.content.clone(), &variables),
                            id: text_body_filter.id.clone(),
                            target_hash: text_body_filter.target_hash.clone(),
                        }),
                    },
                    on_response_status_codes: on_response_status_codes.clone(),
                    exclude_response_status_codes: rule.source.exclude_response_status_codes.is_some(),
                    rule_id: Some(rule.id.clone()),
                });
            }
        }

        let action = Action {
            status_code_update,
            header_filters,
            body_filters,
            rule_ids: LinkedHashSet::from_iter(vec![rule.id.clone()]),
            rule_traces: vec![RuleTrace {
                on_response_status_codes: on_response_status_codes.clone(),
                exclude_response_status_codes: rule.source.exclude_response_status_codes.is_some(),
                id: rule.id.clone(),
            }],
            rules_applied: LinkedHashSet::new(),
            log_override: rule.log_override.map(|log_override| LogOverride {
                log_override,
                rule_id: Some(rule.id.clone()),
                on_response_status_codes: on_response_status_codes.clone(),
                exclude_response_status_codes: rule.source.exclude_response_status_codes.is_some(),
                fallback_log_override: None,
                fallback_rule_id: None,
                unit_id: rule.configuration_log_unit_id.clone(),
            }),
        };

        (
            Some(action),
            rule.reset.unwrap_or(false),
            rule.stop.unwrap_or(false),
            rule.configuration_reset_unit_id.clone(),
        )
    }

    #[cfg(feature = "router")]
    pub fn merge(&mut self, other: Self) {
        self.status_code_update = match other.status_code_update {
            None => self.status_code_update.clone(),
            Some(new_status_code_update) => match &self.status_code_update {
                None => Some(new_status_code_update),
                Some(old_status_code_update) => {
                    if !old_status_code_update.on_response_status_codes.is_empty()
                        || new_status_code_update.on_response_status_codes.is_empty()
                    {
                        Some(new_status_code_update)
                    } else {
                        Some(StatusCodeUpdate {
                            status_code: new_status_code_update.status_code,
                            on_response_status_codes: new_status_code_update.on_response_status_codes,
                            exclude_response_status_codes: new_status_code_update.exclude_response_status_codes,
                            fallback_status_code: old_status_code_update.status_code,
                            rule_id: new_status_code_update.rule_id,
                            target_hash: new_status_code_update.target_hash,
                            fallback_rule_id: old_status_code_update.rule_id.clone(),
                            unit_id: new_status_code_update.unit_id,
                        })
                    }
                }
            },
        };

        for filter in other.header_filters {
            self.header_filters.push(filter);
        }

        for filter in other.body_filters {
            self.body_filters.push(filter);
        }

        for rule_id in other.rule_ids {
            self.rule_ids.insert(rule_id);
        }

        for rule_trace in other.rule_traces {
            self.rule_traces.push(rule_trace);
        }

        if let Some(other_log_override) = other.log_override {
            self.log_override = match &self.log_override {
                None => Some(other_log_override),
                Some(self_log_override) => {
                    if !self_log_override.on_response_status_codes.is_empty() || other_log_override.on_response_status_codes.is_empty() {
                        Some(other_log_override)
                    } else {
                        Some(LogOverride {
                            log_override: other_log_override.log_override,
                            rule_id: other_log_override.rule_id,
                            on_response_status_codes: other_log_override.on_response_status_codes,
                            exclude_response_status_codes: other_log_override.exclude_response_status_codes,
                            fallback_log_override: Some(self_log_override.log_override),
                            fallback_rule_id: self_log_override.rule_id.clone(),
                            unit_id: self_log_override.unit_id.clone(),
                        })
                    }
                }
            }
        }
    }

    #[cfg(feature = "router")]
    pub fn from_routes_rule(mut routes: Vec<Arc<Route<Rule>>>, request: &Request, mut unit_trace: Option<&mut UnitTrace>) -> Action {
        let mut action = Action::default();
        routes.sort();

        for route in routes {
            let (action_rule_opt, reset, stop, configuration_unit_id) = Action::from_route_rule(route, request);

            if let Some(action_rule) = action_rule_opt {
                if reset {
                    if let (Some(trace), Some(unit_id)) = (unit_trace.as_deref_mut(), &configuration_unit_id) {
                        trace.add_unit_id_with_target("configuration::reset", unit_id.as_str());
                    }
                    action = action_rule;
                } else {
                    action.merge(action_rule);
                }

                if stop {
                    if let (Some(trace), Some(unit_id)) = (unit_trace.as_deref_mut(), &configuration_unit_id) {
                        trace.add_unit_id_with_target("configuration::stop", unit_id.as_str());
                    }
                    return action;
                }
            }
        }

        action
    }

    pub fn get_final_status_code_with_fallback(
        &mut self,
        response_status_code: u16,
        fallback_status_code: u16,
        unit_trace: &mut UnitTrace,
    ) -> (u16, u16) {
        let action_status_code = self.get_status_code(response_status_code, Some(unit_trace));
        if response_status_code == 0 && action_status_code == 0 {
            let final_status_code = self.get_status_code(fallback_status_code, Some(unit_trace));
            (final_status_code, fallback_status_code)
        } else {
            (action_status_code, response_status_code)
        }
    }

    pub fn get_status_code(&mut self, response_status_code: u16, unit_trace: Option<&mut UnitTrace>) -> u16 {
        match self.status_code_update.as_ref() {
            None => 0,
            Some(status_code_update) => {
                let (status, rule_applied) = status_code_update.get_status_code(response_status_code);

                if let Some(rule_id) = rule_applied {
                    if let Some(trace) = unit_trace {
                        trace.rule_ids_applied.insert(rule_id.to_string());

                        if let (Some(target_hash), Some(unit_id)) = (&status_code_update.target_hash, &status_code_update.unit_id) {
                            trace.add_unit_id_with_target(target_hash.as_str(), unit_id.as_str());
                        }
                    }

                    self.rules_applied.insert(rule_id.to_string());
                }

                status
            }
        }
    }

    pub fn filter_headers(
        &mut self,
        headers: Vec<Header>,
        response_status_code: u16,
        add_rule_ids_header: bool,
        mut unit_trace: Option<&mut UnitTrace>,
    ) -> Vec<Header> {
        let mut filters = Vec::new();

        for trace in &self.rule_traces {
            if trace.on_response_status_codes.is_empty() {
                self.rules_applied.insert(trace.id.clone());
                continue;
            }

            if !trace.exclude_response_status_codes && trace.on_response_status_codes.contains(&response_status_code) {
                self.rules_applied.insert(trace.id.clone());
                continue;
            }

            if trace.exclude_response_status_codes && !trace.on_response_status_codes.contains(&response_status_code) {
                self.rules_applied.insert(trace.id.clone());
            }
        }

        for filter in self.header_filters.as_slice() {
            if !filter.on_response_status_codes.is_empty() {
                if !filter.exclude_response_status_codes && !filter.on_response_status_codes.contains(&response_status_code) {
                    continue;
                }

                if filter.exclude_response_status_codes && filter.on_response_status_codes.contains(&response_status_code) {
                    continue;
                }
            }

            filters.push(filter.filter.clone());

            if let Some(rule_id) = filter.rule_id.as_ref() {
                self.rules_applied.insert(rule_id.clone());
            }
        }

        let mut new_headers = match FilterHeaderAction::new(filters) {
            None => headers,
            Some(filter_action) => filter_action.filter(headers, unit_trace.as_deref_mut()),
        };

        if let Some(trace) = unit_trace {
            trace.rule_ids_applied.extend(self.get_applied_rule_ids().clone());
        }

        if add_rule_ids_header {
            new_headers.push(Header {
                name: "X-RedirectionIo-RuleIds".to_string(),
                value: self.get_applied_rule_ids().iter().cloned().collect::<Vec<String>>().join(";"),
            });
        }

        new_headers
    }

    pub fn create_filter_body(&mut self, response_status_code: u16, headers: &[Header]) -> Option<FilterBodyAction> {
        let mut filters = Vec::new();
        for filter in self.body_filters.as_slice() {
            if !filter.on_response_status_codes.is_empty() {
                if !filter.exclude_response_status_codes && !filter.on_response_status_codes.contains(&response_status_code) {
                    continue;
                }

                if filter.exclude_response_status_codes && filter.on_response_status_codes.contains(&response_status_code) {
                    continue;
                }
            }

            if let Some(rule_id) = filter.rule_id.as_ref() {
                self.rules_applied.insert(rule_id.clone());
            }

            filters.push(filter.filter.clone());
        }

        let body_filter = FilterBodyAction::new(filters, headers);

        if body_filter.is_empty() { None } else { Some(body_filter) }
    }

    pub fn should_log_request(&mut self, allow_log_config: bool, response_status_code: u16, unit_trace: Option<&mut UnitTrace>) -> bool {
        match self.log_override.as_ref() {
            None => allow_log_config,
            Some(log_override) => {
                let (allow_log, rule_applied_id, handled) = log_override.get_log_override(response_status_code);

                if handled {
                    if let (Some(trace), Some(unit_id)) = (unit_trace, &log_override.unit_id) {
                        trace.add_unit_id_with_target("configuration::log", unit_id);
                    }
                }

                if let Some(rule_id) = rule_applied_id {
                    self.rules_applied.insert(rule_id);
                }

                allow_log.unwrap_or(allow_log_config)
            }
        }
    }
}
