use crate::action::Action;
use crate::api::Rule;
use crate::http::Request;
use crate::router::Trace;
use serde::{Deserialize, Serialize};

#[derive(Serialize, Deserialize, Debug, Clone)]
pub struct TraceAction {
    action: Action,
    rule: Rule,
}

impl TraceAction {
    pub fn from_trace_rules(traces: &[Trace<Rule>], request: &Request) -> Vec<TraceAction> {
        let mut traces_action = Vec::new();
        let mut current_action = Action::default();
        let mut routes = Trace::<Rule>::get_routes_from_traces(traces);

        // Reverse order of sort
        routes.sort_by_key(|a| a.priority());

        for route in routes {
            let (action_rule_opt, reset, stop, _) = Action::from_route_rule(route.clone(), request);

            if let Some(action_rule) = action_rule_opt {
                if reset {
                    current_action = action_rule;
                } else {
                    current_action.merge(action_rule);
                }
            }

            traces_action.push(TraceAction {
                action: current_action.clone(),
                rule: route.handler().clone(),
            });

            if stop {
                return traces_action;
            }
        }

        traces_action
    }
}
