use serde::{Deserialize, Serialize};

#[derive(Serialize, Deserialize, Debug, Clone)]
pub struct StatusCodeUpdate {
    pub status_code: u16,
    pub on_response_status_codes: Vec<u16>,
    pub exclude_response_status_codes: bool,
    pub fallback_status_code: u16,
    pub rule_id: Option<String>,
    pub fallback_rule_id: Option<String>,
    pub unit_id: Option<String>,
    pub target_hash: Option<String>,
}

impl StatusCodeUpdate {
    pub fn get_status_code(&self, response_status_code: u16) -> (u16, Option<&String>) {
        if response_status_code == 0 && self.on_response_status_codes.is_empty() {
            return (self.status_code, self.rule_id.as_ref());
        }

        if self.exclude_response_status_codes && !self.on_response_status_codes.contains(&response_status_code) {
            return (self.status_code, self.rule_id.as_ref());
        }

        if !self.exclude_response_status_codes && self.on_response_status_codes.iter().any(|v| *v == response_status_code) {
            return (self.status_code, self.rule_id.as_ref());
        }

        if response_status_code != 0 {
            return (self.fallback_status_code, self.fallback_rule_id.as_ref());
        }

        (0, None)
    }
}
