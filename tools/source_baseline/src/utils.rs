pub fn set_panic_hook() {
    // When the `console_error_panic_hook` feature is enabled, we can call the
    // `set_panic_hook` function at least once during initialization, and then
    // we will get better error messages if our code ever panics.
    //
    // For more details see
    // https://github.com/rustwasm/console_error_panic_hook#readme
    #[cfg(feature = "console_error_panic_hook")]
    console_error_panic_hook::set_once();
}
