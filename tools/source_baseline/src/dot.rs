use dot_graph::Graph;

pub trait DotBuilder {
    fn graph(&self, id: &mut u32, graph: &mut Graph) -> Option<String>;
}
