#!/usr/bin/env python3
"""Pin the STATEMENTS of the audited theorems (not only their names and axioms).

  tools/pin_statements.py --update [ID…]   recompute props/pins.json: sha1 of the pretty-printed type (`#check @name`) of every
                                           theorem listed in props/<ID>.json  (coordinator, after statements are final)
  tools/pin_statements.py <ID>             exit 0 if every listed theorem still has its pinned statement, else print the
                                           changed / unpinned names and exit 1   (used by ./check: a changed statement is a
                                           broken proof obligation — the theorem list no longer means what was reviewed)
"""
import glob, hashlib, json, os, re, subprocess, sys
V = os.path.normpath(os.path.join(os.path.dirname(os.path.abspath(__file__)), ".."))
LEAN = os.path.join(V, "lean")
PINS = os.path.join(V, "props", "pins.json")


def statements(spec, workdir):
    """name -> hash of (the statement + the types/values of every `Rio.*` definition reachable from it, never through proofs);
    computed inside Lean on the elaborated terms (tools/PinTemplate.lean), so redefining `ChunkInvariant` or `Inv` changes the
    pin of every theorem stated with it."""
    os.makedirs(workdir, exist_ok=True)
    f = os.path.join(workdir, "Pins.lean")
    mods = [spec["lean_module"]] + list(spec.get("extra_modules", []))
    tmpl = open(os.path.join(V, "tools", "PinTemplate.lean")).read()
    with open(f, "w") as fh:
        for m in mods:
            fh.write(f"import {m}\n")
        fh.write(tmpl.replace("import Lean\n", "", 1) if False else "")
    # imports must come first: write imports, then the template body (without its own `import Lean`, which core provides)
    body = tmpl.split("\n", 1)[1]
    with open(f, "w") as fh:
        fh.write("import Lean\n")
        for m in mods:
            fh.write(f"import {m}\n")
        fh.write(body + "\n")
        names = spec["theorems"]
        for k in range(0, len(names), 40):
            fh.write("#pins " + " ".join(names[k:k + 40]) + "\n")
    out = subprocess.run(["lake", "env", "lean", f], cwd=LEAN, stdout=subprocess.PIPE, stderr=subprocess.STDOUT).stdout.decode("utf-8", "replace")
    res = {}
    for m in re.finditer(r"@@PIN (\S+) (\S+)", out):
        if m.group(2) != "MISSING":
            res[m.group(1)] = m.group(2)
    if not res:
        sys.stderr.write(out[-1500:])
    return res


def src_hash(spec):
    """sha1 over the Lean source files (inside the package) the theorem modules transitively import: if it equals the value
    recorded with the pins, the statements cannot have changed and the Lean run is skipped."""
    seen, todo = {}, [spec["lean_module"]] + list(spec.get("extra_modules", []))
    while todo:
        m = todo.pop()
        if m in seen:
            continue
        path = os.path.join(LEAN, *m.split(".")) + ".lean"
        if not os.path.exists(path):
            continue
        src = open(path).read()
        seen[m] = src
        for imp in re.findall(r"^import\s+([\w.]+)", src, re.M):
            if imp.startswith("RioModel") and imp != "RioModel.Generated.Consts":
                todo.append(imp)
    h = hashlib.sha1()
    for m in sorted(seen):
        h.update(m.encode()); h.update(seen[m].encode())
    return h.hexdigest()[:20]


def main():
    args = [a for a in sys.argv[1:] if not a.startswith("--")]
    pins = json.load(open(PINS)) if os.path.exists(PINS) else {}
    if "--update" in sys.argv:
        ids = args or [json.load(open(f))["id"] for f in sorted(glob.glob(os.path.join(V, "props", "C*.json")))]
        for pid in ids:
            spec = json.load(open(os.path.join(V, "props", pid + ".json")))
            st = statements(spec, os.path.join(V, ".work", "pins." + pid))
            missing = [t for t in spec["theorems"] if t not in st]
            st["_src"] = src_hash(spec)
            st["_names"] = sorted(spec["theorems"])
            pins[pid] = st
            print(pid, len(st), "pinned", ("MISSING " + ", ".join(missing[:5])) if missing else "")
        json.dump(pins, open(PINS, "w"), indent=0, sort_keys=True)
        return 0
    pid = args[0]
    spec = json.load(open(os.path.join(V, "props", pid + ".json")))
    if pid not in pins:
        print("no pins recorded for " + pid + " (not an error)")
        return 0
    if pins[pid].get("_src") == src_hash(spec) and pins[pid].get("_names") == sorted(spec["theorems"]):
        print("sources and theorem list unchanged since the pins were recorded")
        return 0
    st = statements(spec, os.path.join(os.environ.get("RIO_OUT", V), ".work", "pins." + pid + "." + str(os.getpid())))
    bad = [t for t in spec["theorems"] if t in pins[pid] and st.get(t) != pins[pid][t]]
    new = [t for t in spec["theorems"] if t not in pins[pid]]
    gone = [t for t in pins[pid] if t not in spec["theorems"] and not t.startswith("_")]
    if gone:
        print("REMOVED from the theorem list since the pins were recorded: " + ", ".join(gone[:20]))
        bad = bad + gone
    if bad:
        print("STATEMENT CHANGED (pinned hash differs): " + ", ".join(bad[:20]))
    if new:
        print("not pinned yet (listed after the last pin update): " + ", ".join(new[:20]))
    return 1 if bad else 0


if __name__ == "__main__":
    sys.exit(main())
