#!/usr/bin/env python3
"""Pin the STATEMENTS of the audited theorems (not only their names and axioms).

  tools/pin_statements.py --update [ID…]   recompute props/pins.json: sha1 of the pretty-printed type (`#check @name`) of every
                                           theorem listed in props/<ID>.json  (coordinator, after statements are final)
  tools/pin_statements.py <ID>             exit 0 if every listed theorem still has its pinned statement, else print the
                                           changed / unpinned names and exit 1   (used by ./check: a changed statement is a
                                           broken proof obligation — the theorem list no longer means what was reviewed)
"""
import glob, hashlib, json, os, re, subprocess, sys
V = os.path.normpath(os.path.join(os.path.dirname(os.path.abspath(__file__)), ".."))
LEAN = os.path.join(V, "lean")
PINS = os.path.join(V, "props", "pins.json")


def statements(spec, workdir):
    os.makedirs(workdir, exist_ok=True)
    f = os.path.join(workdir, "Pins.lean")
    mods = [spec["lean_module"]] + list(spec.get("extra_modules", []))
    with open(f, "w") as fh:
        for m in mods:
            fh.write(f"import {m}\n")
        fh.write("set_option pp.width 1000000\n")
        for t in spec["theorems"]:
            fh.write(f'#eval IO.println "@@PIN {t}"\n#check @{t}\n')
    out = subprocess.run(["lake", "env", "lean", f], cwd=LEAN, stdout=subprocess.PIPE, stderr=subprocess.STDOUT).stdout.decode("utf-8", "replace")
    res = {}
    parts = out.split("@@PIN ")
    for part in parts[1:]:
        name, _, rest = part.partition("\n")
        text = re.sub(r"\s+", " ", rest.strip())
        if text and "error" not in text[:40]:
            res[name.strip()] = hashlib.sha1(text.encode()).hexdigest()[:16]
    return res


def main():
    args = [a for a in sys.argv[1:] if not a.startswith("--")]
    pins = json.load(open(PINS)) if os.path.exists(PINS) else {}
    if "--update" in sys.argv:
        ids = args or [json.load(open(f))["id"] for f in sorted(glob.glob(os.path.join(V, "props", "C*.json")))]
        for pid in ids:
            spec = json.load(open(os.path.join(V, "props", pid + ".json")))
            st = statements(spec, os.path.join(V, ".work", "pins." + pid))
            missing = [t for t in spec["theorems"] if t not in st]
            pins[pid] = st
            print(pid, len(st), "pinned", ("MISSING " + ", ".join(missing[:5])) if missing else "")
        json.dump(pins, open(PINS, "w"), indent=0, sort_keys=True)
        return 0
    pid = args[0]
    spec = json.load(open(os.path.join(V, "props", pid + ".json")))
    if pid not in pins:
        print("no pins recorded for " + pid + " (not an error)")
        return 0
    st = statements(spec, os.path.join(os.environ.get("RIO_OUT", V), ".work", "pins." + pid + "." + str(os.getpid())))
    bad = [t for t in spec["theorems"] if t in pins[pid] and st.get(t) != pins[pid][t]]
    new = [t for t in spec["theorems"] if t not in pins[pid]]
    if bad:
        print("STATEMENT CHANGED (pinned hash differs): " + ", ".join(bad[:20]))
    if new:
        print("not pinned yet (listed after the last pin update): " + ", ".join(new[:20]))
    return 1 if bad else 0


if __name__ == "__main__":
    sys.exit(main())
