#!/bin/sh
# usage: tools/soak.sh <seed> [<seed>...]   — runs every claimed quick check with the given seeds into scratch output
# directories (/tmp/soak/<seed>/), never touching evidence/ or replays/; prints one line per run.
for s in "$@"; do
  for p in $(python3 -c "import json,glob; print(' '.join(sorted(json.load(open(f))['id'] for f in glob.glob('/verif/props/C*.json') if json.load(open(f)).get('claimed',True))))"); do
    mkdir -p /tmp/soak/$s
    RIO_OUT=/tmp/soak/$s VERIF_SEED=$s /verif/check $p --tier quick 2>&1 | grep -E "^VIOL|tier=" | cut -c1-220
  done
done
