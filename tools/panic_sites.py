#!/usr/bin/env python3
"""panic_sites.py — static re-inventory of every panic-capable construct in /repo/src (C07, secondary tie).

Usage:  python3 tools/panic_sites.py [--json] [--list] [--skeleton]

On every run the non-test code under $RIO_REPO/src (default /repo/src; `build.rs` is the build script,
not library code, and is skipped) is scanned for

  unwrap      .unwrap()                       expect      .expect(..)
  macro       panic! unreachable! unimplemented! todo! assert*! debug_assert*!
  index       x[i] / x[a..b] (anything but the full range x[..])
  sub         a - b  and  a -= b   (rustfmt spacing; both-literal operands are skipped)
  div         a / b  a % b  with a non-literal divisor
  raw         from_raw( from_raw_parts( from_raw_parts_mut( CStr::from_ptr( from_utf8_unchecked( unwrap_unchecked(
  slice-op    clone_from_slice( copy_from_slice( split_at( split_off( .drain( swap_remove( .remove(<index-like>)
  refcell     .borrow_mut()
  ext-panic   methods of external crates documented to panic on some values: chrono's to_rfc2822( timestamp_nanos( to_rfc3339_opts(

(`as` narrowing, `+`/`*` overflow — wrapping in release builds — and unsafe dereferences are not panics
and are not listed; the dereferences belong to C18.)  Each site is keyed by

  (file, enclosing function qualified by its impl type, kind, normalised expression)   + multiplicity

and compared with tools/panic_inventory.json, where every key is mapped to what discharges it:
  by = "guard"     a check in the same function, quoted in "guard"; the quoted text (whitespace-normalised) must
                   still occur in the body of that function, otherwise the tie is broken ("vanished guard")
  by = "lemma"     Lean theorem(s) (fully qualified names in "lemma": [..]) about the model of that function; every name
                   must occur in the "theorems" list of some props/*.json (so ./check builds and axiom-audits it);
                   entries of other kinds may carry a "lemma" list too, it is checked the same way
  by = "contract"  an external contract (caller protocol of the C API, crate invariant, type invariant), stated in "text"
  by = "const"     the operands are constants / the value is constructed a few lines above, stated in "text"
  by = "not-built" the file is not compiled for the verified target (wasm32-only / feature off)
  by = "finding"   the site CAN panic: "text" gives the input; listed in notes/wp/W8.md
Exit status 0 iff every scanned site is listed with a discharge, every listed site still exists with the
same multiplicity and every quoted guard is still present.  Otherwise exit 1 and print the new / vanished /
changed sites (`--skeleton` prints inventory entries for the new ones, to be justified by hand).
"""
import json
import os
import re
import sys

REPO = os.environ.get("RIO_REPO", "/repo")
SRC = os.path.join(REPO, "src")
HERE = os.path.dirname(os.path.abspath(__file__))
INVENTORY = os.path.join(HERE, "panic_inventory.json")
SKIP_FILES = {"build.rs"}


# ----------------------------------------------------------------------------------------------------
# lexing: blank out comments, string / char literals (keeping length and newlines)

def blank_code(src):
    out = []
    i, n = 0, len(src)

    def blank(seg):
        return "".join(c if c == "\n" else " " for c in seg)

    def lit(seg):
        # literal contents become `_` so that a literal stays one token
        return "".join(c if c == "\n" else "_" for c in seg)

    while i < n:
        c = src[i]
        if src.startswith("//", i):
            j = src.find("\n", i)
            j = n if j < 0 else j
            out.append(blank(src[i:j]))
            i = j
        elif src.startswith("/*", i):
            depth, j = 1, i + 2
            while j < n and depth:
                if src.startswith("/*", j):
                    depth += 1
                    j += 2
                elif src.startswith("*/", j):
                    depth -= 1
                    j += 2
                else:
                    j += 1
            out.append(blank(src[i:j]))
            i = j
        elif c == "r" and re.match(r'r#*"', src[i:]) and (i == 0 or not (src[i - 1].isalnum() or src[i - 1] == "_")):
            m = re.match(r'r(#*)"', src[i:])
            close = '"' + m.group(1)
            j = src.find(close, i + len(m.group(0)))
            j = n if j < 0 else j + len(close)
            out.append('"' + lit(src[i + 1:j - 1]) + '"')
            i = j
        elif c == '"':
            j = i + 1
            while j < n and src[j] != '"':
                j += 2 if src[j] == "\\" else 1
            j = min(j + 1, n)
            out.append('"' + lit(src[i + 1:j - 1]) + '"')
            i = j
        elif c == "'":
            # char literal or lifetime
            m = re.match(r"'(\\.[^']*|[^'\\])'", src[i:])
            if m:
                out.append("'" + "_" * (len(m.group(0)) - 2) + "'")
                i += len(m.group(0))
            else:
                out.append(c)
                i += 1
        else:
            out.append(c)
            i += 1
    return "".join(out)


def match_brace(text, i, open_c="{", close_c="}"):
    depth = 0
    while i < len(text):
        if text[i] == open_c:
            depth += 1
        elif text[i] == close_c:
            depth -= 1
            if depth == 0:
                return i
        i += 1
    return len(text) - 1


def remove_test_code(code):
    """Blank `#[cfg(test)] mod … { … }` blocks and `#[test] fn … { … }` items."""
    out = list(code)
    for m in re.finditer(r"#\[cfg\(test\)\]|#\[test\]", code):
        j = code.find("{", m.end())
        semi = code.find(";", m.end())
        if j < 0 or (0 <= semi < j):
            end = semi if semi >= 0 else m.end()
        else:
            end = match_brace(code, j)
        for k in range(m.start(), end + 1):
            if out[k] != "\n":
                out[k] = " "
    return "".join(out)


# ----------------------------------------------------------------------------------------------------
# structure: which function (qualified by impl type) encloses each offset

def scopes(code):
    """-> list of (start, end, qualified fn name) for every fn body, innermost resolved by smallest span."""
    impls = []
    for m in re.finditer(r"\bimpl\b", code):
        j = code.find("{", m.end())
        if j < 0:
            continue
        header = code[m.end():j]
        if ";" in header:
            continue
        header = re.sub(r"\bwhere\b.*", "", header, flags=re.S)
        # strip generics
        h, depth, buf = header, 0, []
        for ch in h:
            if ch == "<":
                depth += 1
            elif ch == ">":
                depth -= 1
            elif depth == 0:
                buf.append(ch)
        h = "".join(buf)
        if " for " in h:
            h = h.split(" for ", 1)[1]
        name = h.strip().split("::")[-1].strip().split(" ")[-1] if h.strip() else "?"
        impls.append((j, match_brace(code, j), name))
    fns = []
    for m in re.finditer(r"\bfn\s+([A-Za-z_][A-Za-z0-9_]*)", code):
        # body = first `{` at paren depth 0 before a `;`
        i, depth = m.end(), 0
        body = None
        while i < len(code):
            ch = code[i]
            if ch in "([":
                depth += 1
            elif ch in ")]":
                depth -= 1
            elif ch == ";" and depth == 0:
                break
            elif ch == "{" and depth == 0:
                body = i
                break
            i += 1
        if body is None:
            continue
        end = match_brace(code, body)
        owner = None
        for (s, e, name) in impls:
            if s < m.start() < e and (owner is None or s > owner[0]):
                owner = (s, e, name)
        # nested fn inside a fn: qualify by the outer fn later (rare); keep simple
        q = (owner[2] + "::" if owner else "") + m.group(1)
        fns.append((body, end, q))
    return fns


def enclosing(fns, pos):
    best = None
    for (s, e, q) in fns:
        if s <= pos <= e and (best is None or s > best[0]):
            best = (s, e, q)
    return best


# ----------------------------------------------------------------------------------------------------
# sites

MACROS = r"\b(panic|unreachable|unimplemented|todo|assert|assert_eq|assert_ne|debug_assert|debug_assert_eq|debug_assert_ne)!"
RAW = r"\b(from_raw_parts_mut|from_raw_parts|from_raw|from_ptr|from_utf8_unchecked|unwrap_unchecked)\s*\("
SLICE_OPS = r"\b(clone_from_slice|copy_from_slice|split_at|split_at_mut|split_off|swap_remove|copy_within)\s*\(|\.drain\s*\("
# methods of external crates that are documented to panic on some values (chrono: year outside 0..=9999, nanosecond overflow)
EXT = r"\.\s*(to_rfc2822|timestamp_nanos|to_rfc3339_opts)\s*\("
NUM = r"(?:\d[\d_]*(?:\.\d+)?(?:[iuf]\d+|usize|isize)?|b?'[^']*')"


def norm(s):
    s = re.sub(r"\s+", " ", s).strip()
    return s


def statement_start(code, pos):
    """start of the statement containing pos: after the previous `;`, `{` or `}` at this nesting level (cheap approximation)."""
    i = pos
    depth = 0
    while i > 0:
        ch = code[i - 1]
        if ch in ")]":
            depth += 1
        elif ch in "([":
            if depth == 0:
                break
            depth -= 1
        elif ch in ";{},=" and depth == 0:
            if ch == "=" and i >= 2 and code[i - 2] in "=!<>":
                i -= 1
                continue
            break
        i -= 1
    if i < len(code) and code[i] == ">":
        i += 1
    return i


def operand_left(code, pos):
    """text of the operand ending at pos (exclusive), going left over identifiers, field accesses, calls, indexes"""
    i = pos
    while i > 0 and code[i - 1] == " ":
        i -= 1
    end = i
    depth = 0
    while i > 0:
        ch = code[i - 1]
        if ch in ")]":
            depth += 1
        elif ch in "([":
            if depth == 0:
                break
            depth -= 1
        elif depth == 0 and not (ch.isalnum() or ch in "_.:?&*!'\""):
            break
        i -= 1
    return code[i:end]


def operand_right(code, pos):
    i = pos
    while i < len(code) and code[i] == " ":
        i += 1
    start = i
    depth = 0
    while i < len(code):
        ch = code[i]
        if ch in "([":
            depth += 1
        elif ch in ")]":
            if depth == 0:
                break
            depth -= 1
        elif depth == 0 and not (ch.isalnum() or ch in "_.:?&*!'\""):
            break
        i += 1
    return code[start:i]


def scan_file(rel, src):
    code = remove_test_code(blank_code(src))
    fns = scopes(code)
    sites = []

    def add(kind, pos, expr):
        enc = enclosing(fns, pos)
        fn = enc[2] if enc else "<module>"
        line = code.count("\n", 0, pos) + 1
        sites.append({"file": rel, "fn": fn, "kind": kind, "expr": norm(expr)[-140:], "line": line})

    for m in re.finditer(r"\.\s*unwrap\s*\(\s*\)", code):
        add("unwrap", m.start(), code[statement_start(code, m.start()):m.end()])
    for m in re.finditer(r"\.\s*expect\s*\(", code):
        add("expect", m.start(), code[statement_start(code, m.start()):m.end()])
    for m in re.finditer(MACROS, code):
        j = code.find("(", m.end() - 1)
        add("macro", m.start(), code[m.start():match_brace(code, j, "(", ")") + 1] if j >= 0 else m.group(0))
    for m in re.finditer(RAW, code):
        add("raw", m.start(), operand_left(code, m.start() ) + code[m.start():match_brace(code, m.end() - 1, "(", ")") + 1])
    for m in re.finditer(SLICE_OPS, code):
        add("slice-op", m.start(), operand_left(code, m.start()) + code[m.start():match_brace(code, m.end() - 1, "(", ")") + 1])
    for m in re.finditer(r"\.\s*remove\s*\(\s*(" + NUM + r"|i|idx|index|pos|position|[a-z_]*_index|[a-z_]*_pos)\s*\)", code):
        add("slice-op", m.start(), operand_left(code, m.start()) + m.group(0))
    for m in re.finditer(r"\.\s*insert\s*\(\s*(" + NUM + r"|i|idx|index|pos|position|[a-z_]*_index|[a-z_]*_pos)\s*,", code):
        add("slice-op", m.start(), operand_left(code, m.start()) + m.group(0) + " ..)")
    for m in re.finditer(EXT, code):
        add("ext-panic", m.start(), operand_left(code, m.start()) + m.group(0) + ")")
    for m in re.finditer(r"\.\s*borrow_mut\s*\(\s*\)", code):
        add("refcell", m.start(), operand_left(code, m.start()) + m.group(0))
    # indexing / slicing: `[` directly after an identifier char, `)`, `]` or `?`
    for m in re.finditer(r"(?<=[A-Za-z0-9_\)\]\?])\[", code):
        end = match_brace(code, m.start(), "[", "]")
        inner = code[m.start() + 1:end].strip()
        if inner == "..":
            continue
        # attribute / macro-like `name![`, types (`[u8; 4]` never directly follows an identifier)
        add("index", m.start(), operand_left(code, m.start()) + "[" + inner + "]")
    # subtraction
    for m in re.finditer(r"(?<=\S) -=? (?=\S)", code):
        left, right = operand_left(code, m.start()), operand_right(code, m.end())
        if "=" in m.group(0):
            semi = code.find(";", m.end())
            right = norm(code[m.end():semi]) if 0 <= semi - m.end() < 120 else right
        if re.fullmatch(NUM, left or "x") and re.fullmatch(NUM, right or "x"):
            continue
        add("sub", m.start(), f"{left}{m.group(0)}{right}")
    # division / remainder by a non-literal
    for m in re.finditer(r"(?<=\S) [/%]=? (?=\S)", code):
        left, right = operand_left(code, m.start()), operand_right(code, m.end())
        if re.fullmatch(NUM, right or "x"):
            continue
        add("div", m.start(), f"{left}{m.group(0)}{right}")
    return code, fns, sites


def scan_all():
    all_sites, bodies = [], {}
    for root, dirs, files in os.walk(SRC):
        dirs.sort()
        for fn in sorted(files):
            if not fn.endswith(".rs"):
                continue
            path = os.path.join(root, fn)
            rel = os.path.relpath(path, REPO)
            if os.path.relpath(path, SRC) in SKIP_FILES:
                continue
            code, fns, sites = scan_file(rel, open(path, encoding="utf-8").read())
            all_sites.extend(sites)
            src_nc = remove_test_code(blank_comments_only(open(path, encoding="utf-8").read()))
            for (s, e, q) in fns:
                bodies.setdefault((rel, q), []).append(norm(src_nc[s:e + 1]))
            bodies[(rel, "<module>")] = [norm(src_nc)]
    return all_sites, bodies


def blank_comments_only(src):
    """like blank_code but keeps string literals (guards are quoted with their literals)"""
    out, i, n = [], 0, len(src)
    while i < n:
        if src.startswith("//", i):
            j = src.find("\n", i)
            j = n if j < 0 else j
            out.append(" " * (j - i))
            i = j
        elif src.startswith("/*", i):
            j = src.find("*/", i + 2)
            j = n if j < 0 else j + 2
            out.append("".join(c if c == "\n" else " " for c in src[i:j]))
            i = j
        elif src[i] == '"':
            j = i + 1
            while j < n and src[j] != '"':
                j += 2 if src[j] == "\\" else 1
            j = min(j + 1, n)
            out.append(src[i:j])
            i = j
        else:
            out.append(src[i])
            i += 1
    return "".join(out)


def key(s):
    return (s["file"], s["fn"], s["kind"], s["expr"])


def main():
    args = sys.argv[1:]
    sites, bodies = scan_all()
    counted = {}
    lines = {}
    for s in sites:
        counted[key(s)] = counted.get(key(s), 0) + 1
        lines.setdefault(key(s), []).append(s["line"])
    if "--list" in args:
        for k in sorted(counted):
            print(f"{k[0]}:{lines[k]}  {k[1]}  [{k[2]}] x{counted[k]}  {k[3]}")
        print(f"{len(counted)} distinct sites, {len(sites)} occurrences")
        return 0
    inv = {"sites": []}
    if os.path.exists(INVENTORY):
        inv = json.load(open(INVENTORY))
    listed = {}
    problems = {"new": [], "vanished": [], "count": [], "undischarged": [], "guard": [], "lemma": []}
    # every lemma an entry names must be a theorem some property lists (props/*.json "theorems"): those are built and
    # axiom-audited by ./check, so a removed or renamed theorem breaks this tie
    known_theorems = set()
    props_dir = os.path.join(HERE, "..", "props")
    if os.path.isdir(props_dir):
        for fn in sorted(os.listdir(props_dir)):
            if fn.endswith(".json"):
                try:
                    known_theorems.update(json.load(open(os.path.join(props_dir, fn))).get("theorems", []))
                except Exception:
                    pass
    valid_by = {"guard", "lemma", "contract", "const", "not-built", "finding"}
    for e in inv["sites"]:
        k = (e["file"], e["fn"], e["kind"], e["expr"])
        listed[k] = e
        d = e.get("discharge") or {}
        if d.get("by") not in valid_by or not (d.get("text") or d.get("guard") or d.get("lemma")):
            problems["undischarged"].append(k)
        lemmas = d.get("lemma") or []
        if isinstance(lemmas, str):
            lemmas = [lemmas]
        if d.get("by") == "lemma" and not lemmas:
            problems["lemma"].append((k, "<no lemma named>"))
        for l in lemmas:
            if l not in known_theorems:
                problems["lemma"].append((k, l))
        if d.get("guard"):
            # quoted guard(s): each must still occur (whitespace-normalised) in the body of the function the site is in,
            # or of the function named by "guard_in": {"file": .., "fn": ..}
            where = d.get("guard_in") or {}
            gkey = (where.get("file", e["file"]), where.get("fn", e["fn"]))
            gs = d["guard"] if isinstance(d["guard"], list) else [d["guard"]]
            for g in gs:
                g = norm(g)
                if not g or not any(g in b for b in bodies.get(gkey, [])):
                    problems["guard"].append((k, g))
        elif d.get("by") == "guard":
            problems["guard"].append((k, "<no guard quoted>"))
    for k, n in counted.items():
        if k not in listed:
            problems["new"].append((k, n, lines[k]))
        elif listed[k].get("count", 1) != n:
            problems["count"].append((k, listed[k].get("count", 1), n))
    for k in listed:
        if k not in counted:
            problems["vanished"].append(k)
    # A listed site that is no longer in the source cannot panic any more: it is reported but does not break the tie,
    # nor do its guard, or a count that went DOWN.  Only new sites, grown counts, missing discharges, vanished guards of
    # sites that are still there, and unknown lemmas break it.
    vanished_set = set(problems["vanished"])
    hard = {
        "new": problems["new"],
        "count": [(k, a, b) for (k, a, b) in problems["count"] if b > a],
        "undischarged": problems["undischarged"],
        "guard": [(k, g) for (k, g) in problems["guard"] if k not in vanished_set],
        "lemma": problems["lemma"],
    }
    ok = not any(hard.values())
    by_stats = {}
    for e in inv["sites"]:
        b = (e.get("discharge") or {}).get("by", "?")
        by_stats[b] = by_stats.get(b, 0) + e.get("count", 1)
    if "--skeleton" in args:
        out = []
        for (k, n, ls) in sorted(problems["new"]):
            out.append({"file": k[0], "fn": k[1], "kind": k[2], "expr": k[3], "count": n, "discharge": {"by": "", "text": ""}, "_lines": ls})
        print(json.dumps(out, indent=1, ensure_ascii=False))
        return 0 if ok else 1
    if "--json" in args:
        print(json.dumps({
            "ok": ok, "distinct_sites": len(counted), "occurrences": len(sites), "discharged_by": by_stats,
            "new": [{"site": list(k), "count": n, "lines": ls} for (k, n, ls) in problems["new"]],
            "vanished": [list(k) for k in problems["vanished"]],
            "count_changed": [{"site": list(k), "listed": a, "found": b} for (k, a, b) in problems["count"]],
            "undischarged": [list(k) for k in problems["undischarged"]],
            "vanished_guards": [{"site": list(k), "guard": g} for (k, g) in problems["guard"]],
            "unknown_lemmas": [{"site": list(k), "lemma": l} for (k, l) in problems["lemma"]],
            "findings": [{"site": [e["file"], e["fn"], e["kind"], e["expr"]], "text": e["discharge"].get("text", "")} for e in inv["sites"] if (e.get("discharge") or {}).get("by") == "finding"],
        }, indent=1, ensure_ascii=False))
        return 0 if ok else 1
    print(f"panic_sites: {len(counted)} distinct sites ({len(sites)} occurrences) in {os.path.relpath(SRC, REPO)}/ non-test code; inventory lists {len(listed)}")
    print("  discharged by: " + ", ".join(f"{k}={v}" for k, v in sorted(by_stats.items())))
    for (k, n, ls) in sorted(problems["new"]):
        print(f"  NEW site (not in the inventory): {k[0]}:{ls} fn {k[1]} [{k[2]}] x{n}: {k[3]}")
    for k in sorted(problems["vanished"]):
        print(f"  VANISHED site (listed, no longer in the source): {k[0]} fn {k[1]} [{k[2]}]: {k[3]}")
    for (k, a, b) in sorted(problems["count"]):
        print(f"  COUNT changed {a} -> {b}: {k[0]} fn {k[1]} [{k[2]}]: {k[3]}")
    for k in sorted(problems["undischarged"]):
        print(f"  NO DISCHARGE recorded: {k[0]} fn {k[1]} [{k[2]}]: {k[3]}")
    for (k, g) in sorted(problems["guard"]):
        print(f"  VANISHED GUARD `{g}`: {k[0]} fn {k[1]} [{k[2]}]: {k[3]}")
    for (k, l) in sorted(problems["lemma"]):
        print(f"  UNKNOWN LEMMA `{l}` (not in the theorem list of any props/*.json): {k[0]} fn {k[1]} [{k[2]}]: {k[3]}")
    print("panic_sites: " + ("inventory matches" if ok else "TIE BROKEN"))
    return 0 if ok else 1


if __name__ == "__main__":
    sys.exit(main())
