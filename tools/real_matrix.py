#!/usr/bin/env python3
"""Seeded changes in REAL mode: each patch is applied to /repo's own working tree (tools/realrun.sh), the check of the property
it breaks runs exactly as a user would run it (constants and translated definitions regenerated, proofs re-checked), and /repo
is restored.  Serial (there is one /repo).  Writes seeded/RESULTS_real.json.  usage: tools/real_matrix.py [name-prefix ...]"""
import glob, json, os, subprocess, sys, time
V = os.path.normpath(os.path.join(os.path.dirname(os.path.abspath(__file__)), ".."))
args = sys.argv[1:]
res_path = os.path.join(V, "seeded", "RESULTS_real.json")
results = json.load(open(res_path)) if os.path.exists(res_path) else {}
for d in sorted(glob.glob(os.path.join(V, "seeded", "*", ""))):
    name = os.path.basename(os.path.dirname(d))
    if args and not any(name.startswith(a) for a in args):
        continue
    meta = json.load(open(os.path.join(d, "meta.json")))
    if meta.get("superseded"):
        continue
    pid = meta.get("property")
    t0 = time.time()
    p = subprocess.run([os.path.join(V, "tools", "realrun.sh"), os.path.join(d, "patch.diff"), pid], stdout=subprocess.PIPE, stderr=subprocess.STDOUT)
    out = p.stdout.decode("utf-8", "replace")
    if "does not apply" in out or "not clean" in out:
        print(f"{name}: {pid}: SKIPPED ({out.strip()[-80:]})")
        results[name] = {pid: {"how": "patch does not apply to the current tree"}}
        continue
    viol = [l for l in out.split("\n") if l.startswith("VIOLATION")]
    how = "not caught"
    if viol:
        how = "caught (no failing input found)" if all(v.rstrip().endswith("no-failing-input-found") for v in viol) else "caught with replay input"
    ties = [l for l in out.split("\n") if "do not build" in l or "FAILED" in l]
    results[name] = {pid: {"how": how, "lines": viol[:3], "ties": [t[:200] for t in ties][:3], "wall_s": round(time.time() - t0, 1),
                          **({"output_tail": out[-1500:]} if how != "caught with replay input" else {})}}
    print(f"{name}: {pid}: {how} ({round(time.time() - t0)}s)" + (" | " + ties[0][:120] if ties else ""), flush=True)
    json.dump(results, open(res_path, "w"), indent=1, ensure_ascii=False)
