#!/bin/sh
# Soak-test the hint-directed generator families on the UNCHANGED tree: every check is run with a forced, rich VERIF_HINTS
# (numbers and literals a diff could mention).  Any VIOLATION here is a latent model gap / false-alarm risk of the hint
# mechanism, to be fixed before it can fire on a harmless diff.  Output to /tmp/hint_soak/<n>/ only.
HINTS1='{"nums":[0,1,2,3,7,8,15,16,31,32,63,64,100,127,128,255,256,257,1000,1024,4096,8192,65535,65536],"strs":[" ","\t","\n","\f","\u0000","::","ÿ","ǅ","É","é","%","+","@","\\","\u0027","\"","<",">","&","=","?","#","/","..",";",":","-","_","GET","get","gzip","GZIP","script","SCRIPT","title","utm_source","Location","content-type"]}'
HINTS2='{"nums":[5,9,10,11,12,24,60,97,89,200,301,302,308,404,418,500,599,2048,9999,10000,86400],"strs":["a","A","Z","z","0","9","İ","ß","ẞ","Σ","ς","Ж","日","\r","\u000b","\u00a0","\u0085","%2B","%2b","%25","%00","+02:00","Z","12:00:00 ","10.0.0.0/8","::ffff:10.1.2.3","[","]","(",")","{","}","|","^","$","*",".","~","`"]}'
n=0
for H in "$HINTS1" "$HINTS2"; do
  n=$((n+1)); mkdir -p /tmp/hint_soak/$n
  for p in ${PROPS:-C01 C02 C03 C04 C05 C06 C07 C08 C09 C10 C11 C12 C13 C14 C15 C16 C17 C18 C19}; do
    RIO_OUT=/tmp/hint_soak/$n VERIF_FORCE_HINTS="$H" /verif/check $p --tier quick 2>&1 | grep -E "^VIOL|tier=" | cut -c1-200 | sed "s/^/[hints$n] /"
  done
done
