#!/usr/bin/env python3
"""False-alarm calibration: run every behaviour-preserving refactoring in harmless/ against the checks of the properties
whose anchored source it touches (scratch worktrees, tools/seedrun.sh).  An alarm here is a false alarm of the machinery
(or, by the rules of this task, a `no-failing-input-found` report caused by a broken tie).  Writes harmless/RESULTS.json."""
import glob, json, os, subprocess, sys, tempfile
V = os.path.normpath(os.path.join(os.path.dirname(os.path.abspath(__file__)), ".."))
args = sys.argv[1:]
res_path = os.path.join(V, "harmless", "RESULTS.json")
results = json.load(open(res_path)) if os.path.exists(res_path) else {}
for d in sorted(glob.glob(os.path.join(V, "harmless", "[hgk]*", ""))):
    name = os.path.basename(os.path.dirname(d))
    if args and name not in args:
        continue
    patch = os.path.join(d, "patch.diff")
    wt = tempfile.mkdtemp(prefix="harmless_")
    os.rmdir(wt)
    subprocess.run(["git", "-C", "/repo", "worktree", "add", "--detach", wt, "HEAD"], stdout=subprocess.DEVNULL, stderr=subprocess.DEVNULL)
    subprocess.run(["git", "-C", wt, "apply", patch])
    props = []
    for i in range(1, 20):
        pid = f"C{i:02d}"
        out = subprocess.run([sys.executable, os.path.join(V, "tools", "source_baseline.py"), pid], env=dict(os.environ, RIO_REPO=wt), stdout=subprocess.PIPE).stdout.decode()
        if out.startswith("changed"):
            props.append(pid)
    subprocess.run(["git", "-C", "/repo", "worktree", "remove", "--force", wt])
    for pid in props:
        p = subprocess.run([os.path.join(V, "tools", "seedrun.sh"), patch, pid], stdout=subprocess.PIPE, stderr=subprocess.STDOUT)
        out = p.stdout.decode("utf-8", "replace")
        viol = [l for l in out.split("\n") if l.startswith("VIOLATION")]
        notes = [l for l in out.split("\n") if "FAILED" in l or "tie failed" in l or "does not build" in l]
        kind = "quiet" if not viol else ("alarm: no-failing-input-found" if all(v.endswith("no-failing-input-found") for v in viol) else "ALARM WITH INPUT")
        results.setdefault(name, {})[pid] = {"result": kind, "why": [n[:300] for n in notes][:3], "lines": [v.replace("/tmp/seedrun_", "<scratch>/seedrun_") for v in viol][:3]}
        print(f"{name}: {pid}: {kind} {notes[:1]}")
        json.dump(results, open(res_path, "w"), indent=1, ensure_ascii=False)
