#!/bin/sh
# usage: tools/check_all.sh [tier]   — every claimed check at once (output in /tmp/check_all, evidence/ untouched); run after
# EVERY merge: a change in one property's Lean files can break another property's module through an import.
T=${1:-quick}; O=/tmp/check_all; rm -rf $O; mkdir -p $O
for p in $(python3 -c "import json,glob; print(' '.join(sorted(json.load(open(f))['id'] for f in glob.glob('/verif/props/C*.json') if json.load(open(f)).get('claimed',True))))"); do
  (RIO_OUT=$O /verif/check $p --tier $T > $O/$p.log 2>&1; echo "$p rc=$?" >> $O/rc.txt) &
done
wait
grep -hE "^VIOL|tier=" $O/C*.log | cut -c1-180
sort $O/rc.txt | grep -v "rc=0" && exit 1
echo "all exit 0"
