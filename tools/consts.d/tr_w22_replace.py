"""W22: section `tr_w22_replace` - `StaticOrDynamic::replace` (src/marker/mod.rs) translated from the source on every run (C10).

Self-contained; FAILS CLOSED (naming the source line) on every statement / expression form outside the subset below.

    genReplaceFor  {σ} P («at» : Nat) (after : σ) (result rest : σ) : List (σ × σ) → Option (σ × σ)
    genReplaceLoop {σ} P (variables : List (σ × σ)) : Nat → σ → σ → Option σ          (fuel, result, rest)
    genReplace     {σ} P (withCapacity : Nat → σ) (fuel : Nat) (str : σ) (variables : List (σ × σ)) : Option σ
  P = (find : σ → Char → Option Nat) (sliceTo sliceFrom : σ → Nat → σ) (startsWith : σ → σ → Bool) (len : σ → Nat)
      (append : σ → σ → σ) (push : σ → Char → σ)

ABSTRACT PARAMETERS (σ = String / &str; `as_str()` and `&` are identities on values):
  find         `str::find(char) -> Option<usize>` (byte offset)
  sliceTo      `&s[..n]`      sliceFrom  `&s[n..]`   (both PANIC off a char boundary / out of range: they are abstract, and the
               equivalence theorem only assumes what they return for `n` = an offset returned by `find`, that offset + 1 after
               the one-byte '@', and `name.len()` after `starts_with(name)` succeeded - exactly the uses in the code)
  startsWith   `str::starts_with(&str)`       len  `str::len` (bytes)
  append       `String::push_str` as old -> added -> new;   push  `String::push(char)`
  withCapacity `String::with_capacity(n)` (an empty string)
`at + 1` is `«at» + 1` on Nat (no overflow: `at < len <= isize::MAX`).
LOOPS: the labelled `'l: while let Some(x) = E { .. }` has no structural bound, so it is translated with an explicit FUEL and an
explicit failure outcome: `none` = fuel exhausted (never silently truncated); the statements after the loop are the `none` arm
of `E`.  The inner `for (a, b) in variables { if C { ..; continue 'l; } }` is the first-match search `genReplaceFor`: `some (state)`
= the labelled `continue` was taken with that state, `none` = the loop ran to its end.  The equivalence theorem shows that
fuel > number of chars of the template always suffices.

Subset: `let [mut] x = E;`  `x = E;` (x mutable)  `r.push_str(E);`  `r.push('c');`  the labelled while-let (top level, once), the
for/if/continue shape above (directly in the while body), tail variable.  Expressions: variables, `&E`, `E + INT`, `'c'`,
`.as_str()`, `.len()`, `.find('c')`, `.starts_with(E)`, `E[..E]`, `E[E..]`, `String::with_capacity(E)`.
"""
import re

_HEADER = r"pub fn replace\(str: String, variables: &\[\(String, String\)\]\) -> String \{"
_TOKEN = re.compile(r"(?P<ws>\s+)|(?P<com>//[^\n]*)|(?P<chr>'[^'\\]')|(?P<label>'[A-Za-z_][A-Za-z_0-9]*)|(?P<int>[0-9]+)"
                    r"|(?P<id>[A-Za-z_][A-Za-z_0-9]*)|(?P<op>\.\.|::|[.(){};:&=+,\[\]])|(?P<bad>.)")
_KW = {"at", "from", "end", "fun", "then", "else", "have", "show", "do", "in", "with", "match", "if", "open", "by", "variable"}
_PARAMS = {"find", "sliceTo", "sliceFrom", "startsWith", "len", "append", "push", "withCapacity", "fuel", "some", "none",
           "genReplaceFor", "genReplaceLoop", "genReplace"}
STR, NAT, BOOL, OPTNAT, VARS, CHAR = "Str", "Nat", "Bool", "Option Nat", "Vars", "Char"
P_DECL = ("(find : σ → Char → Option Nat) (sliceTo sliceFrom : σ → Nat → σ) (startsWith : σ → σ → Bool) (len : σ → Nat)\n"
          "    (append : σ → σ → σ) (push : σ → Char → σ)")
P_USE = "find sliceTo sliceFrom startsWith len append push"


def _q(n):
    return "«%s»" % n if n in _KW else n


class _P:
    def __init__(self, toks, lines, fail):
        self.t, self.i, self.lines, self._fail = toks, 0, lines, fail

    def fail(self, msg, line=None):
        line = self.t[self.i][2] if line is None else line
        self._fail("src/marker/mod.rs:%d: StaticOrDynamic::replace: %s: `%s`" % (line, msg, self.lines[line - 1].strip()))

    def at(self, text, k=0):
        return self.t[self.i + k][1] == text and self.t[self.i + k][0] in ("id", "op")

    def kind(self, k=0):
        return self.t[self.i + k][0]

    def eat(self, text):
        if not self.at(text):
            self.fail("expected `%s`, found `%s`" % (text, self.t[self.i][1]))
        self.i += 1

    def take(self, kind):
        if self.t[self.i][0] != kind:
            self.fail("expected %s, found `%s`" % (kind, self.t[self.i][1]))
        self.i += 1
        return self.t[self.i - 1][1]

    def block(self):
        self.eat("{")
        stmts, tail = [], None
        while not self.at("}"):
            if tail is not None:
                self.fail("expression without `;` in the middle of a block")
            line = self.t[self.i][2]
            if self.at("let"):
                self.eat("let")
                mut = self.at("mut")
                if mut:
                    self.eat("mut")
                name = self.take("id")
                self.eat("=")
                e = self.expr()
                self.eat(";")
                stmts.append(("let", name, mut, e, line))
            elif self.kind() == "label":
                label = self.take("label")
                self.eat(":"); self.eat("while"); self.eat("let"); self.eat("Some"); self.eat("(")
                binder = self.take("id")
                self.eat(")"); self.eat("=")
                e = self.expr()
                b = self.block()
                if b[1] is not None:
                    self.fail("loop body with a value", line)
                stmts.append(("while_let", label, binder, e, b[0], line))
            elif self.at("for"):
                self.eat("for"); self.eat("(")
                a = self.take("id"); self.eat(","); b_ = self.take("id")
                self.eat(")"); self.eat("in")
                it = self.take("id")
                b = self.block()
                if b[1] is not None:
                    self.fail("loop body with a value", line)
                stmts.append(("for2", (a, b_), it, b[0], line))
            elif self.at("if"):
                self.eat("if")
                if self.at("let"):
                    self.fail("`if let` is not translated")
                c = self.expr()
                b = self.block()
                if self.at("else") or b[1] is not None:
                    self.fail("`if` with `else` / with a value is not translated", line)
                stmts.append(("if", c, b[0], line))
            elif self.at("continue"):
                self.eat("continue")
                label = self.take("label")
                self.eat(";")
                stmts.append(("continue", label, line))
            elif self.kind() == "id" and self.t[self.i][1] in ("break", "return", "while", "loop", "match"):
                self.fail("statement form `%s` is not translated" % self.t[self.i][1])
            elif self.kind() == "id" and self.at("=", 1):
                name = self.take("id")
                self.eat("=")
                e = self.expr()
                self.eat(";")
                stmts.append(("assign", name, e, line))
            else:
                e = self.expr()
                if self.at(";"):
                    self.eat(";")
                    stmts.append(("expr", e, line))
                else:
                    tail = e
        self.eat("}")
        return stmts, tail

    def expr(self):
        line = self.t[self.i][2]
        e = self.postfix()
        if self.at("+"):
            self.eat("+")
            e = ("add", e, int(self.take("int")), line)
        return e

    def postfix(self):
        line = self.t[self.i][2]
        if self.at("&"):
            self.eat("&")
            return ("ref", self.postfix(), line)
        if self.kind() == "chr":
            return ("char", self.take("chr")[1], line)
        if self.kind() == "id" and self.at("::", 1):
            a = self.take("id"); self.eat("::"); b = self.take("id"); self.eat("(")
            arg = self.expr()
            self.eat(")")
            e = ("path", a + "::" + b, arg, line)
        else:
            e = ("var", self.take("id"), line)
        while self.at(".") or self.at("["):
            if self.at("["):
                self.eat("[")
                if self.at(".."):
                    self.eat("..")
                    e = ("slice_to", e, self.expr(), line)
                else:
                    idx = self.expr()
                    self.eat("..")
                    e = ("slice_from", e, idx, line)
                self.eat("]")
                continue
            self.eat(".")
            name = self.take("id")
            self.eat("(")
            args = []
            while not self.at(")"):
                args.append(self.expr())
                if not self.at(")"):
                    self.eat(",")
            self.eat(")")
            e = ("call", e, name, args, line)
        return e


class _Tr:
    def __init__(self, lines, fail):
        self.lines, self._fail = lines, fail

    def fail(self, msg, line):
        self._fail("src/marker/mod.rs:%d: StaticOrDynamic::replace: %s: `%s`" % (line, msg, self.lines[line - 1].strip()))

    def expr(self, e, env):
        k, line = e[0], e[-1]
        if k == "var":
            if e[1] not in env:
                self.fail("unknown variable `%s`" % e[1], line)
            return _q(e[1]), env[e[1]]
        if k == "ref":
            return self.expr(e[1], env)
        if k == "char":
            return "'%s'" % e[1], CHAR
        if k == "add":
            a, t = self.expr(e[1], env)
            if t != NAT:
                self.fail("`+` on a value that is not a usize", line)
            return "(%s + %d)" % (a, e[2]), NAT
        if k in ("slice_to", "slice_from"):
            (a, ta), (b, tb) = self.expr(e[1], env), self.expr(e[2], env)
            if ta != STR or tb != NAT:
                self.fail("slice of a non-string / by a non-usize", line)
            return "(%s %s %s)" % ("sliceTo" if k == "slice_to" else "sliceFrom", a, b), STR
        if k == "path":
            a, t = self.expr(e[2], env)
            if e[1] != "String::with_capacity" or t != NAT:
                self.fail("call `%s(..)` is not translated" % e[1], line)
            return "(withCapacity %s)" % a, STR
        if k == "call":
            r, t = self.expr(e[1], env)
            args = [self.expr(a, env) for a in e[3]]
            sig = (t, e[2], tuple(a[1] for a in args))
            if sig == (STR, "as_str", ()):
                return r, STR
            if sig == (STR, "len", ()):
                return "(len %s)" % r, NAT
            if sig == (STR, "find", (CHAR,)):
                return "(find %s %s)" % (r, args[0][0]), OPTNAT
            if sig == (STR, "starts_with", (STR,)):
                return "(startsWith %s %s)" % (r, args[0][0]), BOOL
            self.fail("call `.%s(..)` on a value of type %s is not translated" % (e[2], t), line)
        self.fail("expression form is not translated", line)

    def bind(self, name, line, env, muts):
        if name in _PARAMS or name in muts or name in env:
            self.fail("binder name `%s` cannot be used (shadowing is not translated)" % name, line)

    def simple(self, st, env, muts, ind):
        """let / assignment / push_str / push -> one Lean line (or None); extends env"""
        k, line = st[0], st[-1]
        if k == "let" and not st[2]:
            lean, t = self.expr(st[3], env)
            self.bind(st[1], line, env, muts)
            if t not in (STR, NAT):
                self.fail("binding of this type is not translated", line)
            env[st[1]] = t
            return ind + "let %s := %s" % (_q(st[1]), lean)
        if k == "assign":
            lean, t = self.expr(st[2], env)
            if st[1] not in muts or t != STR:
                self.fail("assignment to something that is not a mutable string", line)
            return ind + "let %s := %s" % (st[1], lean)
        if k == "expr":
            e = st[1]
            if e[0] == "call" and e[1][0] == "var" and e[1][1] in muts and len(e[3]) == 1:
                a, t = self.expr(e[3][0], env)
                if (e[2], t) == ("push_str", STR):
                    return ind + "let %s := append %s %s" % (e[1][1], e[1][1], a)
                if (e[2], t) == ("push", CHAR):
                    return ind + "let %s := push %s %s" % (e[1][1], e[1][1], a)
            self.fail("expression statement other than `push_str` / `push` on a mutable string", line)
        return None


def extract(read, fail, lean_str, lean_list):
    src = read("src/marker/mod.rs")
    m = list(re.finditer(_HEADER, src))
    if len(m) != 1:
        fail("src/marker/mod.rs: expected exactly one `pub fn replace(str: String, variables: &[(String, String)]) -> String`")
    start = m[0].end()
    depth, i = 1, start
    while depth:
        if i >= len(src):
            fail("src/marker/mod.rs: unbalanced braces in StaticOrDynamic::replace")
        depth += {"{": 1, "}": -1}.get(src[i], 0)
        i += 1
    lines = src.split("\n")
    toks, line = [], src.count("\n", 0, start) + 1
    for t in _TOKEN.finditer("{" + src[start:i - 1] + "}"):
        k = t.lastgroup
        if k == "bad":
            fail("src/marker/mod.rs:%d: StaticOrDynamic::replace: character %r outside the translated subset" % (line, t.group()))
        if k not in ("ws", "com"):
            toks.append((k, t.group(), line))
        line += t.group().count("\n")
    toks.append(("eof", "", line))
    p = _P(toks, lines, fail)
    stmts, tail = p.block()
    if p.t[p.i][0] != "eof":
        p.fail("text after the function body")
    tr = _Tr(lines, fail)
    env, muts = {"str": STR, "variables": VARS}, []
    head = []
    idx = 0
    # ---- before the loop: the `let mut`s
    while idx < len(stmts) and stmts[idx][0] == "let":
        st = stmts[idx]
        if not st[2]:
            fail("src/marker/mod.rs:%d: StaticOrDynamic::replace: only `let mut` is translated before the loop" % st[-1])
        lean, t = tr.expr(st[3], env)
        tr.bind(st[1], st[-1], env, muts)
        if t != STR:
            tr.fail("a mutable variable that is not a string", st[-1])
        muts.append(st[1])
        env[st[1]] = STR
        head.append("  let %s := %s" % (st[1], lean))
        idx += 1
    if muts != ["result", "rest"]:
        fail("src/marker/mod.rs: StaticOrDynamic::replace: the mutable variables are not `result`, `rest` (in this order)")
    if idx >= len(stmts) or stmts[idx][0] != "while_let":
        fail("src/marker/mod.rs: StaticOrDynamic::replace: the labelled `while let` does not follow the `let mut`s")
    _, label, binder, cond, body, wline = stmts[idx]
    after_loop = stmts[idx + 1:]
    S = "(%s)" % ", ".join(muts)
    cl, ct = tr.expr(cond, env)
    if ct != OPTNAT:
        tr.fail("the `while let Some(..)` scrutinee is not an Option<usize>", wline)
    # ---- the `none` arm: statements after the loop, then the tail
    env_none = dict(env)
    none_lines = []
    for st in after_loop:
        ln = tr.simple(st, env_none, muts, "      ")
        if ln is None:
            tr.fail("statement form after the loop is not translated", st[-1])
        none_lines.append(ln)
    if tail is None or tail[0] != "var" or tail[1] not in muts:
        fail("src/marker/mod.rs: StaticOrDynamic::replace: the tail expression is not a mutable variable")
    none_lines.append("      some %s" % tail[1])
    # ---- the `some` arm: the loop body
    benv = dict(env)
    tr.bind(binder, wline, benv, muts)
    benv[binder] = NAT
    locals_ = [(binder, NAT)]
    nxt = "genReplaceLoop %s variables fuel %s" % (P_USE, " ".join(muts))
    some_lines, helper, ind = [], None, "      "
    for st in body:
        ln = tr.simple(st, benv, muts, ind)
        if ln is not None:
            if st[0] == "let":
                locals_.append((st[1], benv[st[1]]))
            some_lines.append(ln)
            continue
        if st[0] != "for2" or helper is not None:
            tr.fail("statement form in the loop body is not translated", st[-1])
        _, (a, b), it, fbody, fline = st
        if env.get(it) != VARS:
            tr.fail("`for` over something that is not the slice of variables", fline)
        if not (len(fbody) == 1 and fbody[0][0] == "if" and fbody[0][2] and fbody[0][2][-1][0] == "continue"
                and fbody[0][2][-1][1] == label):
            tr.fail("`for` body is not `if C { ..; continue %s; }`" % label, fline)
        fenv = dict(benv)
        for x in (a, b):
            tr.bind(x, fline, fenv, muts)
            fenv[x] = STR
        if a == b:
            tr.fail("repeated binder", fline)
        c, cty = tr.expr(fbody[0][1], fenv)
        if cty != BOOL:
            tr.fail("condition is not a boolean", fbody[0][-1])
        upd = []
        for s2 in fbody[0][2][:-1]:
            ln2 = tr.simple(s2, fenv, muts, "      ")
            if ln2 is None:
                tr.fail("statement form before `continue` is not translated", s2[-1])
            upd.append(ln2)
        loc_decl = " ".join("(%s : %s)" % (_q(n), "σ" if t == STR else "Nat") for n, t in locals_)
        loc_use = " ".join(_q(n) for n, _ in locals_)
        helper = (["set_option linter.unusedVariables false in",
                   "/-- the inner `for` of `StaticOrDynamic::replace`: `some` = the labelled `continue` was taken with this state -/",
                   "def genReplaceFor {σ : Type} " + P_DECL,
                   "    %s (%s : σ) : List (σ × σ) → Option (σ × σ)" % (loc_decl, " ".join(muts)),
                   "  | [] => none",
                   "  | (%s, %s) :: %s =>" % (_q(a), _q(b), it),
                   "    if %s then" % c] + upd +
                  ["      some %s" % S,
                   "    else genReplaceFor %s %s %s %s" % (P_USE, loc_use, " ".join(muts), it)])
        some_lines += [ind + "match genReplaceFor %s %s %s %s with" % (P_USE, loc_use, " ".join(muts), it),
                       ind + "| some %s => %s" % (S, nxt), ind + "| none =>"]
        ind += "  "
    if helper is None:
        fail("src/marker/mod.rs: StaticOrDynamic::replace: no inner `for` over the variables")
    some_lines.append(ind + nxt)
    return (helper + ["",
                      "/-- the labelled `while let` of `StaticOrDynamic::replace` with explicit fuel (`none` = fuel exhausted) -/",
                      "def genReplaceLoop {σ : Type} " + P_DECL,
                      "    (variables : List (σ × σ)) : Nat → σ → σ → Option σ",
                      "  | 0, _, _ => none",
                      "  | fuel + 1, %s =>" % ", ".join(muts),
                      "    match %s with" % cl,
                      "    | none =>"] + none_lines +
            ["    | some %s =>" % _q(binder)] + some_lines +
            ["", "/-- `StaticOrDynamic::replace` (src/marker/mod.rs), translated by tools/consts.d/tr_w22_replace.py -/",
             "def genReplace {σ : Type} " + P_DECL,
             "    (withCapacity : Nat → σ) (fuel : Nat) (str : σ) (variables : List (σ × σ)) : Option σ :="] + head +
            ["  genReplaceLoop %s variables fuel %s" % (P_USE, " ".join(muts))])
