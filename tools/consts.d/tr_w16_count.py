"""W16: section `w16_count` - the COUNTERS and the pruning of the path and the host layer of the router, translated from the
source on every run: `insert`, `remove`, `batch_remove`, `len`, `is_empty` of `PathAndQueryMatcher`
(src/router/request_matcher/path_and_query.rs) and of `HostMatcher` (src/router/request_matcher/host.rs).

A small compiler of its own (lexer -> recursive-descent parser for the subset -> emission in continuation-passing style); it does
NOT use the W4c core (these functions need `&mut self` state threading, `retain` closures with captured mutable state, early
`return`, `-= 1` with an explicit failure outcome - none of which the core has).  Everything outside the subset FAILS CLOSED with
`file:line: reason: source line`.

SHAPE of the result.  A `&mut self` function `f(&mut self, a..) -> R` becomes

    genPathF / genHostF  <abstract parameters>  <the mutable fields of the struct, in the order of _LAYERS[..]['fields']>  a1 ..
        : Option (R x fields)

`none` = a Rust PANIC: `.unwrap()` on `None`, or `self.count -= 1` at `count = 0` (the crate is checked with overflow checks on;
without them the counter wraps to usize::MAX - the theorems of Props/C02gen.lean show the `none` exit is dead under `Repr`, so the
difference is not observable).  `self.count += 1` is `count + 1` on `Nat` (overflow of a usize needs 2^64 live insertions: not
represented).  `len` / `is_empty` (`&self`) become plain functions of `count`.
Statements: `let [mut] x = E;`, `x = E;`, `*x.borrow_mut() = E;`, `self.count += 1;` / `-= 1;`, `if C {..} [else {..}]`,
`if let Some(x) = E {..} [else {..}]`, `match E { arms }` (patterns `None`, `Some(x)`, `..::Static(x)`, `..::Dynamic(x)`, `_`),
`return [E];`, effectful calls as statements, a tail expression in tail position.  The continuation of an `if` / `match` is
duplicated into its branches, a branch ending in `return` does not get it (early returns are represented exactly).
Locals and arguments get canonical names (`a1..` arguments, `x1..` locals in binding order): renaming them changes nothing.
Erased (identity on the abstract values): `.clone()`, `.to_string()`, `.as_str()`, `.to_owned()`, `&`, `&mut`;
`std::cell::RefCell::new(E)` is the mutable local E, `*c.borrow_mut() = E` an assignment, `c.into_inner()` its value.

ABSTRACT PARAMETERS (every callee that is not translated; passed as function arguments, instantiated in Proofs/RouterCountGen.lean
with the hand-written model's operations).  T = a field or local the method is called on; the new value of T is returned.
  routePathAndQuery : ρ → GenSoD κ δ      `route.path_and_query()`            routeHost : ρ → Option (GenSoD κ δ)   `route.host()`
  routeId : ρ → ι                         `route.id()`                        markerRegex : δ → π                   `m.regex`
  idsContains : η → ι → Bool              `ids.contains(id)`                  strIsEmpty : κ → Bool                 `static_host.is_empty()`
  inner* = the methods of the VALUE type of the static map (path: the inner `HashMap<String, Arc<Route>>`; host: `IpMatcher`, also
  the type of `any_host` and of the tree's values):
    innerNew : ν                          `HashMap::new()` / `IpMatcher::new(self.config.clone())` (exactly this argument)
    innerInsert                           path `m.insert(id, route)` : ι → ρ → ν → ν (the returned old value must be discarded);
                                          host `m.insert(route)` : ρ → ν → ν
    innerRemove : ι → ν → ν × Option ρ    `m.remove(id)`
    innerBatchRemove : η → ν → ν          `m.batch_remove(ids)` (host; its bool result must be discarded)
    innerRetain                           `m.retain(closure)` (path), same convention as <map>Retain below
    innerIsEmpty : ν → Bool               `m.is_empty()`
  <map> = staticRules / staticHosts (`HashMap<String, V>`, abstract type μ):
    <map>ContainsKey : κ → μ → Bool, <map>Insert : κ → ν → μ → μ, <map>IsEmpty : μ → Bool,
    <map>Modify : κ → (ν → ν) → μ → μ     `map.get_mut(k).unwrap().m(..)`: emitted as `if !(ContainsKey k map) then none else
                                          let map := Modify k (fun v => m .. v) map` (the unwrap panics iff the key is absent)
    <map>Retain : {χ} → (κ → ν → χ → Bool × ν × χ) → μ → χ → μ × χ
                                          `map.retain(|k, v| body)`: the closure is translated to a function of the key, the value
                                          and the ONE local it assigns (χ; `Unit` if none) returning (keep, new value, new local);
                                          which entries are visited, in which order, is the parameter's business
  regexTreeRule* (abstract type τ): Insert (path: π → ι → ρ → τ → τ; host: π → ν → τ → τ), Remove : ι → τ → τ × Option ρ (path),
    Retain (as above; keys ι and values ρ for the path layer, keys π and values ν for the host layer), IsEmpty : τ → Bool,
    Contains : π → τ → Bool and Modify : π → (ν → ν) → τ → τ for the host's
    `match self.regex_tree_rule.get_mut(k) { Some(m) => m.insert(route), None => .. }`
    (emitted `if Contains k tree then let tree := Modify k (fun v => innerInsert route v) tree .. else <None arm>`).
Checked (fail closed): the fields and field types of both structs, the variants of `StaticOrDynamic`, the field `regex` of
`MarkerString`, the signatures of the ten functions, arities of every abstract call.
"""
import re

_TOK = re.compile(r'''
   (?P<ws>\s+|//[^\n]*)
 | (?P<id>[A-Za-z_][A-Za-z0-9_]*)
 | (?P<int>\d+)
 | (?P<op>::|=>|->|\+=|-=|==|!=|&&|\|\||[!.,;:(){}\[\]&=<>*|+\-#?'"])
''', re.X)


class _Fail(Exception):
    pass


def _lex(src, fname):
    toks, pos, line = [], 0, 1
    while pos < len(src):
        m = _TOK.match(src, pos)
        if not m:
            raise _Fail("%s:%d: character outside the subset: %r" % (fname, line, src[pos]))
        kind = m.lastgroup
        if kind != "ws":
            toks.append((kind, m.group(), line))
        line += m.group().count("\n")
        pos = m.end()
    toks.append(("eof", "<eof>", line))
    return toks


def _camel(s, upper_first=False):
    parts = s.split("_")
    out = parts[0] + "".join(p[:1].upper() + p[1:] for p in parts[1:])
    return out[:1].upper() + out[1:] if upper_first else out


# ---------------------------------------------------------------- parser

class _P:
    def __init__(self, toks, i, fname, lines):
        self.t, self.i, self.fname, self.lines = toks, i, fname, lines

    def peek(self, k=0):
        return self.t[min(self.i + k, len(self.t) - 1)]

    def at(self, text, k=0):
        return self.peek(k)[1] == text and self.peek(k)[0] != "eof"

    def fail(self, msg, tok=None):
        tok = tok or self.peek()
        ln = tok[2]
        raise _Fail("%s:%d: %s: `%s`" % (self.fname, ln, msg, self.lines[ln - 1].strip()))

    def eat(self, text):
        if not self.at(text):
            self.fail("expected `%s`, found `%s`" % (text, self.peek()[1]))
        self.i += 1

    def ident(self):
        k, s, _ = self.peek()
        if k != "id":
            self.fail("identifier expected, found `%s`" % s)
        self.i += 1
        return s

    def block(self):
        self.eat("{")
        out = []
        while not self.at("}"):
            st = self.stmt()
            if st[0] == "tail" and not self.at("}"):
                self.fail("expression without `;` in the middle of a block")
            out.append(st)
        self.eat("}")
        return out

    def stmt(self):
        line = self.peek()[2]
        if self.at("let"):
            self.eat("let")
            mut = False
            if self.at("mut"):
                self.eat("mut")
                mut = True
            name = self.ident()
            if not self.at("="):
                self.fail("`let` with a pattern / a type annotation / no initialiser is not in the subset")
            self.eat("=")
            e = self.expr()
            self.eat(";")
            return ("let", mut, name, e, line)
        if self.at("return"):
            self.eat("return")
            e = None
            if not self.at(";"):
                e = self.expr()
            self.eat(";")
            return ("return", e, line)
        if self.at("if"):
            return self.ifstmt()
        if self.at("match"):
            m = self.matchstmt()
            if self.at(";"):
                self.eat(";")
            return m
        for kw in ("for", "while", "loop", "break", "continue", "unsafe"):
            if self.at(kw):
                self.fail("statement `%s` is not in the subset" % kw)
        e = self.expr()
        if self.at("="):
            self.eat("=")
            r = self.expr()
            self.eat(";")
            return ("assign", e, r, line)
        if self.at("+=") or self.at("-="):
            op = self.peek()[1]
            self.i += 1
            r = self.expr()
            self.eat(";")
            return ("opassign", e, op, r, line)
        if self.at(";"):
            self.eat(";")
            return ("expr", e, line)
        if self.at("}"):
            return ("tail", e, line)
        self.fail("statement form not in the subset")

    def ifstmt(self):
        line = self.peek()[2]
        self.eat("if")
        if self.at("let"):
            self.eat("let")
            pat = self.pattern()
            self.eat("=")
            e = self.expr()
            b = self.block()
            return ("iflet", pat, e, b, self.elsepart(), line)
        c = self.expr()
        b = self.block()
        return ("if", c, b, self.elsepart(), line)

    def elsepart(self):
        if not self.at("else"):
            return None
        self.eat("else")
        if self.at("if"):
            return [self.ifstmt()]
        return self.block()

    def matchstmt(self):
        line = self.peek()[2]
        self.eat("match")
        scrut = self.expr()
        self.eat("{")
        arms = []
        while not self.at("}"):
            pat = self.pattern()
            if self.at("if"):
                self.fail("match guards are not in the subset")
            self.eat("=>")
            if self.at("{"):
                body = self.block()
            elif self.at("match"):
                body = [self.matchstmt()]
            else:
                aline = self.peek()[2]
                body = [("expr", self.expr(), aline)]
            if self.at(","):
                self.eat(",")
            arms.append((pat, body))
        self.eat("}")
        return ("match", scrut, arms, line)

    def pattern(self):
        if self.at("_"):
            self.eat("_")
            return ("pwild",)
        path = [self.ident()]
        while self.at("::"):
            self.eat("::")
            path.append(self.ident())
        if path == ["None"]:
            return ("pnone",)
        if self.at("("):
            self.eat("(")
            name = self.ident()
            self.eat(")")
            if path == ["Some"]:
                return ("psome", name)
            if len(path) == 2 and path[0] in ("StaticOrDynamic", "Self") and path[1] in ("Static", "Dynamic"):
                if path[0] != "StaticOrDynamic":
                    self.fail("pattern path not in the subset")
                return ("pvariant", path[1], name)
        self.fail("pattern not in the subset")

    def expr(self):
        e = self.andexpr()
        while self.at("||"):
            self.eat("||")
            e = ("or", e, self.andexpr())
        return e

    def andexpr(self):
        e = self.cmpexpr()
        while self.at("&&"):
            self.eat("&&")
            e = ("and", e, self.cmpexpr())
        return e

    def cmpexpr(self):
        e = self.unary()
        if self.at("==") or self.at("!="):
            op = self.peek()[1]
            self.i += 1
            e = ("eq" if op == "==" else "ne", e, self.unary())
        for op in ("<", ">", "+", "-", "*", "?", "["):
            if self.at(op):
                self.fail("operator `%s` is not in the subset" % op)
        return e

    def unary(self):
        if self.at("!"):
            self.eat("!")
            return ("not", self.unary())
        if self.at("&"):
            self.eat("&")
            if self.at("mut"):
                self.eat("mut")
            return ("ref", self.unary())
        if self.at("*"):
            self.eat("*")
            return ("deref", self.unary())
        return self.postfix()

    def args(self):
        self.eat("(")
        out = []
        while not self.at(")"):
            out.append(self.expr())
            if self.at(","):
                self.eat(",")
            elif not self.at(")"):
                self.fail("`,` or `)` expected")
        self.eat(")")
        return out

    def postfix(self):
        e = self.primary()
        while self.at("."):
            line = self.peek()[2]
            self.eat(".")
            name = self.ident()
            if self.at("::"):
                self.fail("turbofish is not in the subset")
            if self.at("("):
                e = ("mcall", e, name, self.args(), line)
            else:
                e = ("field", e, name, line)
        return e

    def primary(self):
        k, s, line = self.peek()
        if k == "int":
            self.i += 1
            return ("int", s)
        if s == "(":
            self.eat("(")
            if self.at(")"):
                self.eat(")")
                return ("unit",)
            e = self.expr()
            self.eat(")")
            return e
        if s == "|":
            self.eat("|")
            params = []
            while not self.at("|"):
                if self.at("_"):
                    self.eat("_")
                    params.append("_")
                else:
                    params.append(self.ident())
                if self.at(","):
                    self.eat(",")
                elif not self.at("|"):
                    self.fail("closure parameter list not in the subset")
            self.eat("|")
            if self.at("{"):
                body = self.block()
            else:
                body = [("tail", self.expr(), line)]
            return ("closure", params, body, line)
        if k == "id":
            if s in ("match", "if", "move", "loop", "while", "for", "unsafe", "let"):
                self.fail("`%s` in expression position is not in the subset" % s)
            path = [self.ident()]
            while self.at("::"):
                self.eat("::")
                path.append(self.ident())
            if self.at("("):
                return ("call", path, self.args(), line)
            if self.at("!"):
                self.fail("macro calls are not in the subset")
            return ("path", path, line)
        self.fail("expression form not in the subset")


# ---------------------------------------------------------------- layer tables

_SIG = {  # rust fn -> (receiver, [argument types], return type); kinds of the arguments / Lean type of the result
    "insert": ("&mutself", ["Arc<Route<T>>"], "", ["route"], "Unit"),
    "remove": ("&mutself", ["&str"], "Option<Arc<Route<T>>>", ["id"], "Option ρ"),
    "batch_remove": ("&mutself", ["&HashSet<String>"], "bool", ["ids"], "Bool"),
    "len": ("&self", [], "usize", [], "Nat"),
    "is_empty": ("&self", [], "bool", [], "Bool"),
}
_KIND_TY = {"route": "ρ", "id": "ι", "ids": "η"}
_RETAIN = "{χ : Type} → (%s → %s → χ → Bool × %s × χ) → %s → χ → %s × χ"

_LAYERS = {
    "path": dict(
        file="src/router/request_matcher/path_and_query.rs", struct="PathAndQueryMatcher", prefix="genPath", inner_new=("HashMap", "new"),
        struct_fields=[("regex_tree_rule", "RegexTreeMap<Arc<Route<T>>>"), ("static_rules", "HashMap<String,HashMap<String,Arc<Route<T>>>>"),
                       ("count", "usize")],
        fields=[("regex_tree_rule", "tree", "τ"), ("static_rules", "map", "μ"), ("count", "nat", "Nat")],
        mapkey="str", treekey="id", treeval="route", innerkey="id", innerval="route",
        params=[
            ("routePathAndQuery", "ρ → GenSoD κ δ", 1), ("markerRegex", "δ → π", 1), ("routeId", "ρ → ι", 1), ("idsContains", "η → ι → Bool", 2),
            ("innerNew", "ν", 0), ("innerInsert", "ι → ρ → ν → ν", 3), ("innerRemove", "ι → ν → ν × Option ρ", 2),
            ("innerRetain", _RETAIN % ("ι", "ρ", "ρ", "ν", "ν"), 3), ("innerIsEmpty", "ν → Bool", 1),
            ("staticRulesContainsKey", "κ → μ → Bool", 2), ("staticRulesInsert", "κ → ν → μ → μ", 3),
            ("staticRulesModify", "κ → (ν → ν) → μ → μ", 3), ("staticRulesRetain", _RETAIN % ("κ", "ν", "ν", "μ", "μ"), 3),
            ("staticRulesIsEmpty", "μ → Bool", 1),
            ("regexTreeRuleInsert", "π → ι → ρ → τ → τ", 4), ("regexTreeRuleRemove", "ι → τ → τ × Option ρ", 2),
            ("regexTreeRuleRetain", _RETAIN % ("ι", "ρ", "ρ", "τ", "τ"), 3), ("regexTreeRuleIsEmpty", "τ → Bool", 1),
        ]),
    "host": dict(
        file="src/router/request_matcher/host.rs", struct="HostMatcher", prefix="genHost", inner_new=("IpMatcher", "new"),
        struct_fields=[("static_hosts", "HashMap<String,IpMatcher<T>>"), ("regex_tree_rule", "UniqueRegexTreeMap<IpMatcher<T>>"),
                       ("any_host", "IpMatcher<T>"), ("always_match_any_host", "bool"), ("count", "usize"), ("config", "Arc<RouterConfig>")],
        fields=[("static_hosts", "map", "μ"), ("regex_tree_rule", "tree", "τ"), ("any_host", "inner", "ν"), ("count", "nat", "Nat")],
        mapkey="str", treekey="regex", treeval="inner", innerkey=None, innerval=None,
        params=[
            ("routeHost", "ρ → Option (GenSoD κ δ)", 1), ("markerRegex", "δ → π", 1), ("strIsEmpty", "κ → Bool", 1),
            ("innerNew", "ν", 0), ("innerInsert", "ρ → ν → ν", 2), ("innerRemove", "ι → ν → ν × Option ρ", 2),
            ("innerBatchRemove", "η → ν → ν", 2), ("innerIsEmpty", "ν → Bool", 1),
            ("staticHostsContainsKey", "κ → μ → Bool", 2), ("staticHostsInsert", "κ → ν → μ → μ", 3),
            ("staticHostsModify", "κ → (ν → ν) → μ → μ", 3), ("staticHostsRetain", _RETAIN % ("κ", "ν", "ν", "μ", "μ"), 3),
            ("staticHostsIsEmpty", "μ → Bool", 1),
            ("regexTreeRuleContains", "π → τ → Bool", 2), ("regexTreeRuleModify", "π → (ν → ν) → τ → τ", 3),
            ("regexTreeRuleInsert", "π → ν → τ → τ", 3), ("regexTreeRuleRetain", _RETAIN % ("π", "ν", "ν", "τ", "τ"), 3),
            ("regexTreeRuleIsEmpty", "τ → Bool", 1),
        ]),
}
_TYVARS = ["ρ", "ι", "κ", "δ", "π", "ν", "μ", "τ", "η"]
_ERASED = ("clone", "to_string", "as_str", "to_owned")
_ERASABLE_KINDS = ("route", "id", "str", "regex", "marker", "opt", "ids", "sod", "optsod")


# ---------------------------------------------------------------- translation

class _Tr:
    def __init__(self, layer, fname, lines):
        self.L, self.fname, self.lines = layer, fname, lines
        self.ptab = {n: (t, a) for n, t, a in layer["params"]}
        self.fields = {r: (_camel(r), k) for r, k, _ in layer["fields"]}
        self.used, self.n, self.mode = set(), 0, "fn"

    def fail(self, msg, line):
        raise _Fail("%s:%d: %s: `%s`" % (self.fname, line, msg, self.lines[line - 1].strip()))

    def fresh(self):
        self.n += 1
        return "x%d" % self.n

    def param(self, name, nargs, line):
        if name not in self.ptab:
            self.fail("call of `%s` is not one of the abstract operations of this layer" % name, line)
        if self.ptab[name][1] != nargs:
            self.fail("`%s` called with %d argument(s), the modelled signature has %d" % (name, nargs, self.ptab[name][1]), line)
        self.used.add(name)
        return name

    @staticmethod
    def selffield(e):
        if e[0] == "field" and e[1][0] == "path" and e[1][1] == ["self"]:
            return e[2]
        return None

    def target(self, e, env, line):
        """a receiver that holds a map / tree / inner value: (lean variable, kind, parameter prefix)"""
        f = self.selffield(e)
        if f is not None:
            if f not in self.fields:
                self.fail("field `self.%s` is not a modelled mutable field" % f, line)
            lean, kind = self.fields[f]
            if self.mode == "closure":
                self.fail("`self.%s` used inside a closure" % f, line)
            return lean, kind, ("inner" if kind == "inner" else lean)
        if e[0] == "path" and len(e[1]) == 1 and e[1][0] in env:
            lean, kind = env[e[1][0]][:2]
            if kind == "inner":
                return lean, kind, "inner"
        return None

    # ---- pure expressions: (lean text, kind)
    def pe(self, e, env, line):
        t = e[0]
        if t == "int":
            return e[1], "nat"
        if t == "unit":
            return "()", "unit"
        if t == "path":
            if len(e[1]) == 1:
                x = e[1][0]
                if x in env:
                    return env[x][0], env[x][1]
                if x == "None":
                    return "none", "opt"
                if x in ("true", "false"):
                    return x, "bool"
            self.fail("name `%s` is not a local / an argument" % "::".join(e[1]), line)
        if t == "call":
            path, args = e[1], e[2]
            if path == ["Some"] and len(args) == 1:
                a, k = self.pe(args[0], env, line)
                if k != "route":
                    self.fail("`Some(..)` of something that is not a route", line)
                return "(some %s)" % a, "opt"
            if tuple(path) == self.L["inner_new"]:
                if path[0] == "IpMatcher":
                    ok = (len(args) == 1 and args[0][0] == "mcall" and args[0][2] == "clone" and not args[0][3]
                          and self.selffield(args[0][1]) == "config")
                    if not ok:
                        self.fail("`IpMatcher::new` with an argument other than `self.config.clone()`", line)
                elif args:
                    self.fail("`HashMap::new` with arguments", line)
                return self.param("innerNew", 0, line), "inner"
            if path == ["std", "cell", "RefCell", "new"] and len(args) == 1:
                a, k = self.pe(args[0], env, line)
                if k != "opt":
                    self.fail("`RefCell::new` of something that is not an `Option`", line)
                return a, "refcell"
            self.fail("call of `%s` is not in the subset" % "::".join(path), line)
        if t == "field":
            if self.selffield(e) == "count":
                if self.mode == "closure":
                    self.fail("`self.count` used inside a closure", line)
                return "count", "nat"
            if e[2] == "regex":
                a, k = self.pe(e[1], env, line)
                if k == "marker":
                    return "(%s %s)" % (self.param("markerRegex", 1, line), a), "regex"
            self.fail("field access not in the subset", line)
        if t == "ref":
            return self.pe(e[1], env, line)
        if t == "not":
            a, k = self.pe(e[1], env, line)
            if k != "bool":
                self.fail("`!` of a non-boolean", line)
            return "(!%s)" % a, "bool"
        if t in ("and", "or"):
            a, ka = self.pe(e[1], env, line)
            b, kb = self.pe(e[2], env, line)
            if ka != "bool" or kb != "bool":
                self.fail("`&&` / `||` of non-booleans", line)
            return "(%s %s %s)" % (a, "&&" if t == "and" else "||", b), "bool"
        if t in ("eq", "ne"):
            a, ka = self.pe(e[1], env, line)
            b, kb = self.pe(e[2], env, line)
            if ka != "nat" or kb != "nat":
                self.fail("comparison of something other than the counter with an integer", line)
            return "(%s %s %s)" % (a, "==" if t == "eq" else "!=", b), "bool"
        if t == "mcall":
            recv, name, args = e[1], e[2], e[3]
            tg = self.target(recv, env, line)
            if tg is not None:
                lean, kind, pre = tg
                if name == "is_empty" and not args:
                    return "(%s %s)" % (self.param(pre + "IsEmpty", 1, line), lean), "bool"
                if name == "contains_key" and len(args) == 1 and kind == "map":
                    a, k = self.pe(args[0], env, line)
                    if k != self.L["mapkey"]:
                        self.fail("key of the wrong kind", line)
                    return "(%s %s %s)" % (self.param(pre + "ContainsKey", 2, line), a, lean), "bool"
                self.fail("`.%s(..)` on a map / tree / matcher in a position where its effect or result is not modelled" % name, line)
            a, k = self.pe(recv, env, line)
            if name in _ERASED and not args and k in _ERASABLE_KINDS:
                return a, k
            if k in ("opt", "refcell") and not args and name in ("is_some", "is_none"):
                return "%s.%s" % (a, "isSome" if name == "is_some" else "isNone"), "bool"
            if k == "refcell" and name == "into_inner" and not args:
                return a, "opt"
            if k == "str" and name == "is_empty" and not args:
                return "(%s %s)" % (self.param("strIsEmpty", 1, line), a), "bool"
            if k == "ids" and name == "contains" and len(args) == 1:
                b, kb = self.pe(args[0], env, line)
                if kb != "id":
                    self.fail("`ids.contains` of something that is not an id", line)
                return "(%s %s %s)" % (self.param("idsContains", 2, line), a, b), "bool"
            if k == "route" and not args:
                if name == "id":
                    return "(%s %s)" % (self.param("routeId", 1, line), a), "id"
                if name == "path_and_query":
                    return "(%s %s)" % (self.param("routePathAndQuery", 1, line), a), "sod"
                if name == "host":
                    return "(%s %s)" % (self.param("routeHost", 1, line), a), "optsod"
            self.fail("method `.%s(..)` on a value of kind %s is not in the subset" % (name, k), line)
        self.fail("expression form `%s` is not in the subset" % t, line)

    # ---- effectful calls: None if `e` is not one, else (lines, result kind); the result is bound to `res` (None = discarded)
    def eff(self, e, env, res, ind, line):
        while e[0] == "ref":
            e = e[1]
        if e[0] != "mcall":
            return None
        recv, name, args = e[1], e[2], e[3]
        sp = " " * ind
        # map.get_mut(k).unwrap().m(args)
        if (recv[0] == "mcall" and recv[2] == "unwrap" and not recv[3] and recv[1][0] == "mcall" and recv[1][2] == "get_mut"
                and len(recv[1][3]) == 1):
            tg = self.target(recv[1][1], env, line)
            if tg is None or tg[1] != "map":
                self.fail("`.get_mut(..).unwrap()` on something that is not the static map", line)
            if self.mode != "fn":
                self.fail("`unwrap` inside a closure", line)
            lean, _, pre = tg
            k, kk = self.pe(recv[1][3][0], env, line)
            if kk != self.L["mapkey"]:
                self.fail("key of the wrong kind", line)
            if name != "insert":
                self.fail("only `.insert(..)` is modelled on `get_mut(..).unwrap()`", line)
            if res is not None:
                self.fail("the result of `.insert(..)` must be discarded", line)
            a = [self.pe(x, env, line)[0] for x in args]
            v = self.fresh()
            call = "%s %s" % (self.param("innerInsert", len(a) + 1, line), " ".join(a + [v]))
            return ([sp + "if !(%s %s %s) then none else" % (self.param(pre + "ContainsKey", 2, line), k, lean),
                     sp + "let %s := %s %s (fun %s => %s) %s" % (lean, self.param(pre + "Modify", 3, line), k, v, call, lean)], "unit")
        tg = self.target(recv, env, line)
        if tg is None:
            return None
        lean, kind, pre = tg
        if name in ("is_empty", "contains_key"):
            return None
        if name == "retain" and len(args) == 1:
            c = args[0]
            while c[0] == "ref":
                c = c[1]
            if c[0] != "closure":
                self.fail("`retain` of something that is not a closure literal", line)
            if res is not None:
                self.fail("`retain` has no result", line)
            return self.retain(lean, kind, pre, c, env, ind, line), "unit"
        a = [self.pe(x, env, line)[0] for x in args]
        if name == "insert":
            if res is not None:
                self.fail("the result of `.insert(..)` must be discarded", line)
            return [sp + "let %s := %s %s" % (lean, self.param(pre + "Insert", len(a) + 1, line), " ".join(a + [lean]))], "unit"
        if name == "remove" and kind in ("inner", "tree"):
            return ([sp + "let (%s, %s) := %s %s" % (lean, res or "_", self.param(pre + "Remove", len(a) + 1, line), " ".join(a + [lean]))],
                    "opt")
        if name == "batch_remove" and kind == "inner":
            if res is not None:
                self.fail("the bool result of `.batch_remove(..)` must be discarded", line)
            return [sp + "let %s := %s %s" % (lean, self.param(pre + "BatchRemove", len(a) + 1, line), " ".join(a + [lean]))], "unit"
        self.fail("`.%s(..)` on a %s is not one of the modelled operations" % (name, kind), line)

    @staticmethod
    def assigned(stmts, acc):
        for st in stmts:
            if st[0] == "assign":
                lhs = st[1]
                if lhs[0] == "deref" and lhs[1][0] == "mcall" and lhs[1][2] == "borrow_mut":
                    lhs = lhs[1][1]
                if lhs[0] == "path" and len(lhs[1]) == 1 and lhs[1][0] not in acc:
                    acc.append(lhs[1][0])
            elif st[0] == "if":
                _Tr.assigned(st[2], acc)
                _Tr.assigned(st[3] or [], acc)
            elif st[0] == "iflet":
                _Tr.assigned(st[3], acc)
                _Tr.assigned(st[4] or [], acc)
            elif st[0] == "match":
                for _, b in st[2]:
                    _Tr.assigned(b, acc)
        return acc

    def retain(self, lean, kind, pre, c, env, ind, line):
        if self.mode == "closure" and kind != "inner":
            self.fail("nested `retain` on a field", line)
        params, body = c[1], c[2]
        if len(params) != 2:
            self.fail("a `retain` closure takes (key, value)", line)
        declared = [st[2] for st in body if st[0] == "let"]
        cap = [x for x in self.assigned(body, []) if x not in declared]
        for x in cap:
            if x not in env:
                self.fail("closure assigns `%s`, which is not a local" % x, line)
        if len(cap) > 1:
            self.fail("closure assigns more than one captured local", line)
        L = self.L
        if kind == "map":
            kk, vk = L["mapkey"], "inner"
        elif kind == "tree":
            kk, vk = L["treekey"], L["treeval"]
        else:
            kk, vk = L["innerkey"], L["innerval"]
            if kk is None:
                self.fail("`retain` on the inner matcher is not modelled for this layer", line)
        cenv = dict(env)
        kname = self.fresh() if params[0] != "_" else "_"
        if params[0] != "_":
            cenv[params[0]] = (kname, kk, False)
        vname = self.fresh()
        if params[1] != "_":
            cenv[params[1]] = (vname, vk, True)
        if cap:
            st, stpat, init = env[cap[0]][0], env[cap[0]][0], env[cap[0]][0]
            if not env[cap[0]][2]:
                self.fail("closure assigns `%s`, which is not `mut` / a RefCell" % cap[0], line)
        else:
            st, stpat, init = "()", "(_ : Unit)", "()"
        sp = " " * ind
        old_mode, old_fin = self.mode, self.fin
        self.mode = "closure"
        self.fin = lambda ret, env2, ind2, line2: [" " * ind2 + "(%s, %s, %s)" % (ret[0], vname, st)] if ret[1] == "bool" else \
            self.fail("a `retain` closure must return a bool", line2)
        blines = self.ss(body, 0, cenv, lambda env2, ind2: self.fail("`retain` closure without a result", line), ind + 4, True)
        self.mode, self.fin = old_mode, old_fin
        blines[-1] = blines[-1] + ") %s %s" % (lean, init)
        return [sp + "let (%s, %s) := %s (fun %s %s %s =>" % (lean, st if cap else "_", self.param(pre + "Retain", 3, line), kname, vname, stpat)] + blines

    # ---- statements, continuation-passing
    def ss(self, stmts, i, env, k, ind, tailpos):
        if i == len(stmts):
            return k(env, ind)
        st = stmts[i]
        kind, line = st[0], st[-1]
        sp = " " * ind
        last = i == len(stmts) - 1

        def rest(env2, ind2=ind):
            return self.ss(stmts, i + 1, env2, k, ind2, tailpos)
        sub_tail = tailpos and last

        if kind == "let":
            _, mut, name, e, _ = st
            x = self.fresh()
            r = self.eff(e, env, x, ind, line)
            if r is not None:
                lines, rk = r
                if rk != "opt":
                    self.fail("`let` of a call without a modelled result", line)
                env2 = dict(env)
                env2[name] = (x, "opt", mut)
                return lines + rest(env2)
            a, ak = self.pe(e, env, line)
            env2 = dict(env)
            env2[name] = (x, ak, mut or ak == "refcell")
            return [sp + "let %s := %s" % (x, a)] + rest(env2)
        if kind == "assign":
            _, lhs, rhs, _ = st
            viacell = False
            if lhs[0] == "deref" and lhs[1][0] == "mcall" and lhs[1][2] == "borrow_mut" and not lhs[1][3]:
                lhs, viacell = lhs[1][1], True
            if lhs[0] != "path" or len(lhs[1]) != 1 or lhs[1][0] not in env:
                self.fail("assignment to something that is not a local", line)
            x, xk, xmut = env[lhs[1][0]]
            if not xmut or (viacell != (xk == "refcell")) or xk not in ("opt", "refcell"):
                self.fail("assignment to a local that is not a mutable `Option` (or a RefCell through `borrow_mut`)", line)
            r = self.eff(rhs, env, x, ind, line)
            if r is not None:
                if r[1] != "opt":
                    self.fail("assignment of a call without a modelled result", line)
                return r[0] + rest(env)
            a, ak = self.pe(rhs, env, line)
            if ak not in ("opt", "refcell"):
                self.fail("assignment of a value that is not an `Option`", line)
            return [sp + "let %s := %s" % (x, a)] + rest(env)
        if kind == "opassign":
            _, lhs, op, rhs, _ = st
            if self.selffield(lhs) != "count" or rhs != ("int", "1") or self.mode != "fn":
                self.fail("only `self.count += 1` / `self.count -= 1` (outside closures) are in the subset", line)
            if op == "+=":
                return [sp + "let count := count + 1"] + rest(env)
            return [sp + "if count = 0 then none else", sp + "let count := count - 1"] + rest(env)
        if kind == "expr":
            e = st[1]
            if e[0] == "unit":
                return rest(env)
            r = self.eff(e, env, None, ind, line)
            if r is None:
                self.fail("expression statement without a modelled effect", line)
            return r[0] + rest(env)
        if kind == "tail":
            if not tailpos or not last:
                self.fail("value of a block that is not in tail position", line)
            if self.eff(st[1], env, None, ind, line) is not None:
                self.fail("effectful call in tail position", line)
            return self.fin(self.pe(st[1], env, line), env, ind, line)
        if kind == "return":
            if not last:
                self.fail("statements after `return`", line)
            if self.mode == "closure":
                return self.fin(self.pe(st[1], env, line), env, ind, line) if st[1] is not None else self.fail("bare `return` in a closure", line)
            return self.fin(self.pe(st[1], env, line) if st[1] is not None else ("()", "unit"), env, ind, line)
        if kind == "if":
            _, c, b, eb, _ = st
            a, ak = self.pe(c, env, line)
            if ak != "bool":
                self.fail("condition is not a bool", line)
            return ([sp + "if %s then" % a] + self.ss(b, 0, env, lambda e2, i2: rest(e2, i2), ind + 2, sub_tail) +
                    [sp + "else"] + self.ss(eb or [], 0, env, lambda e2, i2: rest(e2, i2), ind + 2, sub_tail))
        if kind in ("iflet", "match"):
            if kind == "iflet":
                _, pat, scrut, b, eb, _ = st
                if pat[0] != "psome":
                    self.fail("`if let` with a pattern other than `Some(x)`", line)
                arms = [(pat, b), (("pnone",), eb or [])]
            else:
                _, scrut, arms, _ = st
            while scrut[0] == "ref":
                scrut = scrut[1]
            # tree.get_mut(k)
            if scrut[0] == "mcall" and scrut[2] == "get_mut":
                return self.getmut(scrut, arms, env, rest, ind, sub_tail, line)
            tmp = self.fresh()
            r = self.eff(scrut, env, tmp, ind, line)
            if r is not None:
                pre, s, sk = r[0], tmp, r[1]
            else:
                self.n -= 1
                pre = []
                s, sk = self.pe(scrut, env, line)
            if sk == "refcell":
                self.fail("match on a RefCell", line)
            out = pre + [sp + "match %s with" % s]
            seen = []
            for pat, body in arms:
                env2 = dict(env)
                if pat[0] == "pnone" and sk in ("opt", "optsod"):
                    lp, key = "none", "none"
                elif pat[0] == "psome" and sk in ("opt", "optsod"):
                    v = self.fresh()
                    env2[pat[1]] = (v, "route" if sk == "opt" else "sod", False)
                    lp, key = "some %s" % v, "some"
                elif pat[0] == "pvariant" and sk == "sod":
                    v = self.fresh()
                    env2[pat[2]] = (v, "str" if pat[1] == "Static" else "marker", False)
                    lp, key = ".%s %s" % (pat[1].lower(), v), pat[1]
                else:
                    self.fail("pattern does not fit a scrutinee of kind %s" % sk, line)
                if key in seen:
                    self.fail("pattern repeated", line)
                seen.append(key)
                out += [sp + "| %s =>" % lp] + self.ss(body, 0, env2, lambda e2, i2: rest(e2, i2), ind + 2, sub_tail)
            if len(seen) != 2:
                self.fail("match must have exactly the two arms of the scrutinee's type", line)
            return out
        self.fail("statement form not in the subset", line)

    def getmut(self, scrut, arms, env, rest, ind, sub_tail, line):
        tg = self.target(scrut[1], env, line)
        if tg is None or tg[1] != "tree" or len(scrut[3]) != 1:
            self.fail("`get_mut` in a match on something that is not the regex tree", line)
        lean, _, pre = tg
        k, kk = self.pe(scrut[3][0], env, line)
        if kk != self.L["treekey"] or self.L["treeval"] != "inner":
            self.fail("`get_mut` with a key of the wrong kind", line)
        some = [a for a in arms if a[0][0] == "psome"]
        none = [a for a in arms if a[0][0] == "pnone"]
        if len(arms) != 2 or len(some) != 1 or len(none) != 1:
            self.fail("`match ...get_mut(..)` must have exactly the arms `Some(m)` and `None`", line)
        m, body = some[0][0][1], some[0][1]
        ok = (len(body) == 1 and body[0][0] == "expr" and body[0][1][0] == "mcall" and body[0][1][1][0] == "path" and
              body[0][1][1][1] == [m] and body[0][1][2] == "insert")
        if not ok:
            self.fail("the `Some(m)` arm of `get_mut` must be exactly `m.insert(..)`", line)
        a = [self.pe(x, env, line)[0] for x in body[0][1][3]]
        v = self.fresh()
        sp = " " * ind
        call = "%s %s" % (self.param("innerInsert", len(a) + 1, line), " ".join(a + [v]))
        return ([sp + "if %s %s %s then" % (self.param(pre + "Contains", 2, line), k, lean),
                 sp + "  let %s := %s %s (fun %s => %s) %s" % (lean, self.param(pre + "Modify", 3, line), k, v, call, lean)] +
                rest(env, ind + 2) + [sp + "else"] +
                self.ss(none[0][1], 0, env, lambda e2, i2: rest(e2, i2), ind + 2, sub_tail))


# ---------------------------------------------------------------- driver

def _find_struct(toks, name, fname, lines):
    for i in range(len(toks) - 2):
        if toks[i][1] == "struct" and toks[i + 1][1] == name:
            j = i + 2
            while toks[j][1] != "{":
                j += 1
            j += 1
            fields = []
            while toks[j][1] != "}":
                while toks[j][1] == "pub":
                    j += 1
                fname_ = toks[j][1]
                if toks[j + 1][1] != ":":
                    raise _Fail("%s:%d: struct %s: field syntax not in the subset" % (fname, toks[j][2], name))
                j += 2
                depth, ty = 0, ""
                while not (depth == 0 and toks[j][1] in (",", "}")):
                    if toks[j][1] == "<":
                        depth += 1
                    if toks[j][1] == ">":
                        depth -= 1
                    ty += toks[j][1]
                    j += 1
                if toks[j][1] == ",":
                    j += 1
                fields.append((fname_, ty))
            return fields
    raise _Fail("%s: struct %s not found" % (fname, name))


def _find_fn(toks, struct, fn, fname):
    """index of the `(` of `fn <fn>` inside `impl<T> <struct><T> {`"""
    pat = ["impl", "<", "T", ">", struct, "<", "T", ">", "{"]
    for i in range(len(toks) - len(pat)):
        if [t[1] for t in toks[i:i + len(pat)]] == pat:
            depth, j = 1, i + len(pat)
            found = []
            while depth > 0:
                s = toks[j][1]
                if s == "{":
                    depth += 1
                elif s == "}":
                    depth -= 1
                elif depth == 1 and s == "fn" and toks[j + 1][1] == fn:
                    found.append(j + 2)
                j += 1
            if len(found) != 1:
                raise _Fail("%s: expected exactly one `fn %s` in `impl<T> %s<T>`" % (fname, fn, struct))
            return found[0]
    raise _Fail("%s: `impl<T> %s<T>` not found" % (fname, struct))


def _translate_fn(layer, toks, fname, lines, fn):
    L = _LAYERS[layer]
    i = _find_fn(toks, L["struct"], fn, fname)
    recv, argtys, retty, argkinds, leanret = _SIG[fn]
    # signature
    j, depth, cur, parts = i + 1, 0, [], []
    while not (depth == 0 and toks[j][1] == ")"):
        s = toks[j][1]
        if s in ("(", "<"):
            depth += 1
        if s in (")", ">"):
            depth -= 1
        if s == "," and depth == 0:
            parts.append(cur)
            cur = []
        else:
            cur.append(s)
        j += 1
    if cur:
        parts.append(cur)
    j += 1
    ret = ""
    if toks[j][1] == "->":
        j += 1
        while toks[j][1] != "{":
            ret += toks[j][1]
            j += 1
    line = toks[i][2]
    if not parts or "".join(parts[0]) != recv or ret != retty or len(parts) - 1 != len(argtys) or any(
            len(p) < 3 or p[1] != ":" or "".join(p[2:]) != t for p, t in zip(parts[1:], argtys)):
        raise _Fail("%s:%d: the signature of `%s` is not the modelled one: `%s`" % (fname, line, fn, lines[line - 1].strip()))
    p = _P(toks, j, fname, lines)
    body = p.block()
    tr = _Tr(L, fname, lines)
    env = {}
    args = []
    for n, (pt, kind) in enumerate(zip(parts[1:], argkinds)):
        env[pt[0]] = ("a%d" % (n + 1), kind, False)
        args.append(("a%d" % (n + 1), _KIND_TY[kind]))
    name = L["prefix"] + _camel(fn, True)
    doc = "`%s::%s`, translated from %s" % (L["struct"], fn, L["file"])
    if recv == "&self":
        tr.mode = "pure"
        if len(body) != 1 or body[0][0] != "tail":
            raise _Fail("%s:%d: `%s` must be a single expression" % (fname, line, fn))
        a, k = tr.pe(body[0][1], env, body[0][-1])
        if tr.used or k != {"Nat": "nat", "Bool": "bool"}[leanret]:
            raise _Fail("%s:%d: `%s` must be an expression of the counter only" % (fname, line, fn))
        return ["/-- %s. -/" % doc, "def %s (count : Nat) : %s := %s" % (name, leanret, a), ""]
    state = [(_camel(r), ty) for r, _, ty in L["fields"]]
    tr.fin = lambda rv, env2, ind2, line2: [" " * ind2 + "some (%s, %s)" % (rv[0], ", ".join(s for s, _ in state))] \
        if rv[1] == {"Unit": "unit", "Bool": "bool", "Option ρ": "opt"}[leanret] else tr.fail("returned value of the wrong kind", line2)
    blines = tr.ss(body, 0, env, lambda env2, ind2: tr.fin(("()", "unit"), env2, ind2, line), 2, True)
    binders = ["(%s : %s)" % (n, t) for n, t, _ in L["params"] if n in tr.used]
    binders += ["(%s : %s)" % (s, t) for s, t in state] + ["(%s : %s)" % (a, t) for a, t in args]
    rettype = "Option (%s)" % " × ".join([leanret] + [t for _, t in state])
    sig = " ".join(binders) + " " + rettype
    tyvars = [v for v in _TYVARS if re.search(r"(?<![A-Za-z])%s(?![A-Za-z])" % v, sig)]
    head = "def %s {%s : Type} %s :" % (name, " ".join(tyvars), " ".join(binders))
    return (["set_option linter.unusedVariables false in", "/-- %s; `none` = panic (`unwrap` of `None` / counter underflow). -/" % doc,
             head, "    %s :=" % rettype] + blines + [""])


def extract(read, fail, lean_str, lean_list):
    try:
        out = ["-- BEGIN section w16_count",
               "-- Rust -> Lean translation of insert / remove / batch_remove / len / is_empty of PathAndQueryMatcher and HostMatcher",
               "-- (tools/consts.d/tr_w16_count.py; every method of the maps, the inner matcher and the regex tree is a parameter).", ""]
        msrc = read("src/marker/mod.rs")
        m = re.search(r"pub enum StaticOrDynamic\s*\{\s*Static\(String\),\s*Dynamic\(MarkerString\),\s*\}", msrc)
        if not m:
            raise _Fail("src/marker/mod.rs: `enum StaticOrDynamic { Static(String), Dynamic(MarkerString), }` not found")
        if not re.search(r"pub struct MarkerString\s*\{\s*pub regex: String,", msrc):
            raise _Fail("src/marker/mod.rs: `MarkerString` no longer starts with `pub regex: String`")
        out += ["/-- `marker::StaticOrDynamic` (payloads abstract). -/", "inductive GenSoD (α β : Type) where",
                "  | static (a : α)", "  | dynamic (b : β)", ""]
        for layer in ("path", "host"):
            L = _LAYERS[layer]
            src = read(L["file"])
            lines = src.split("\n")
            toks = _lex(src, L["file"])
            got = _find_struct(toks, L["struct"], L["file"], lines)
            if got != L["struct_fields"]:
                raise _Fail("%s: the fields of `%s` are %r, modelled are %r" % (L["file"], L["struct"], got, L["struct_fields"]))
            for fn in ("insert", "remove", "batch_remove", "len", "is_empty"):
                out += _translate_fn(layer, toks, L["file"], lines, fn)
        out.append("-- END section w16_count")
        return out
    except _Fail as e:
        fail("w16_count: " + str(e))
