"""Rust -> Lean translation of the radix-tree insertion: `Node::insert` (src/regex_radix_tree/node.rs), `Leaf::new` and
`Leaf::insert` (src/regex_radix_tree/leaf.rs).  Package W23, property C08; at merge the file must sort after tr_w20_lazyregex.py and w4_translate_scan.py (e.g. w4_translate_w23_tree_insert.py).

How it works.  The STATEMENT SKELETON of each function is whitelisted (a sequence of `let` / `let mut` / `if .. { .. return ..; }` /
`for i in 0..self.children.len() { let ..; if .. { assignments } }` / `match opt { Some(i) => { remove; insert; push } None => { push } }` /
tail expression; local names are free, the assignments inside the loop may come in any order).  Every EXPRESSION in the skeleton
(right-hand sides, conditions, call arguments, struct literals, `vec![..]`) is translated by a small typed-by-whitelist recursive-descent
translator: comparison / boolean operators, the calls and method chains listed in `_Expr`, nothing else.  Any other statement or
expression form fails closed with the offending source text.

What is represented exactly (nothing totalised away):
  * `self.regex.original.chars().count() as u32`  ->  `(self.regex.original.length % 4294967296)`  (the truncating cast is kept; the
    equivalence theorem states the hypothesis `length < 2^32`).  `.len()` (bytes) is NOT in the whitelist: fails closed.
  * `self.children[i]` (panics out of range) -> `children[i]?`, `none` = panic; `self.children.remove(i)` -> `none` when `i >= len`;
    the generated functions return `Option χ` (`none` = panic); `child.insert(..)` may itself panic (`Option`).
  * early `return` of the split case, `mut` variables `max_prefix_size` / `max_prefix_item` threaded through the loop as a state pair.
  * `self` is consumed field-wise: `self.regex` (a `GenLazyRegex ρ`, section tr_w20_lazyregex) and `self.children` / `self.values`;
    `Item::Node(self)` rebuilds the item from the CURRENT values of the fields.

`Item::insert` (src/regex_radix_tree/item.rs) is translated too (`genItemInsert`): a single `match self` with the three arms in any order,
over the generated one-layer view `GenItemView` of the enum (the enum variants and the fields of `Node` / `Leaf` are checked verbatim);
its callees `Node::insert` / `Leaf::insert` are the parameters `nodeInsert` / `leafInsert` (instantiated in the proofs by the translated ones).

Abstract parameters of the generated definitions (callees that are not translated here):
  * `χ` the type of `Item<V>`, `μ` the type of `HashMap<String, V>`, `ι` ids, `V` values, `ρ` compiled regex values;
  * `mkNode : GenLazyRegex ρ → List χ → χ`  = `Item::Node(Node { regex: Arc::new(..) / self.regex, children })`;
  * `mkLeaf : μ → GenLazyRegex ρ → χ`       = `Item::Leaf(Leaf { values, regex })`;
  * `itemRegex : χ → List Char`             = `Item::regex()` (item.rs);
  * `childInsert : χ → List Char → ι → V → Option χ` = the recursive call `Item::insert` on the selected child;
  * `getPrefix : List Char → Nat → List Char` = `get_prefix_with_char_size` (prefix.rs; modelled, Model/Scan.lean);
  * `commonPrefix : List Char → List Char → List Char` = `common_prefix` (prefix.rs);
  * `hmNew : μ`, `hmInsert : μ → ι → V → μ` = `HashMap::new()`, `HashMap::insert` (result discarded in the source).
Called generated definitions: `genCommonPrefixCharSize` (section w4_translate_scan), `genLazyRegexNewNode` / `genLazyRegexNewLeaf`
(section tr_w20_lazyregex).  `Arc::new(x)` is `x` (sharing is not observable: the cell is immutable behind the Arc in these functions)."""
import re

NODE = "src/regex_radix_tree/node.rs"
LEAF = "src/regex_radix_tree/leaf.rs"


def _strip(src):
    src = re.sub(r"//[^\n]*", "", src)
    return src


def _fn_body(src, impl_hdr, sig_re, fail, what):
    """body text (between the outer braces) of the fn matching sig_re inside the impl block starting with impl_hdr"""
    k = src.find(impl_hdr)
    if k < 0:
        fail("%s: `%s` not found" % (what, impl_hdr))
    m = re.compile(sig_re).search(src, k)
    if not m:
        fail("%s: signature not found / changed (expected /%s/)" % (what, sig_re))
    i = m.end() - 1
    assert src[i] == "{"
    depth, j = 0, i
    while j < len(src):
        if src[j] == "{":
            depth += 1
        elif src[j] == "}":
            depth -= 1
            if depth == 0:
                return m, " ".join(src[i + 1:j].split())
        j += 1
    fail("%s: unbalanced braces" % what)


_TOK = re.compile(r"\s*(::|\.\.|\|\||&&|==|!=|<=|>=|=>|[A-Za-z_][A-Za-z0-9_]*!?|[0-9]+|[(){}\[\],.:<>!&|=+\-*/;])")


def _tokens(s, fail):
    out, p = [], 0
    s = s.strip()
    while p < len(s):
        m = _TOK.match(s, p)
        if not m:
            fail("cannot tokenise expression `%s`" % s)
        out.append(m.group(1))
        p = m.end()
    return out


class _Expr:
    """recursive-descent translator of the whitelisted expression forms.  env: rust local name -> (lean term, type tag)
    type tags: nat str bool lazy item items map id val optnat"""

    def __init__(self, text, env, fail, selfkind, idx=None):
        self.text, self.env, self.fail = text, env, fail
        self.t = _tokens(text, fail)
        self.p = 0
        self.selfkind = selfkind      # "node" | "leaf" | None
        self.idx = idx                # (loop var rust name, lean name of children[i]) inside the loop

    def bad(self, why="unsupported expression form"):
        self.fail("%s in `%s` (at token %d: `%s`)" % (why, self.text, self.p, self.t[self.p] if self.p < len(self.t) else "<end>"))

    def peek(self, k=0):
        return self.t[self.p + k] if self.p + k < len(self.t) else None

    def eat(self, tok):
        if self.peek() != tok:
            self.bad("expected `%s`" % tok)
        self.p += 1

    def seq(self, *toks):
        if self.t[self.p:self.p + len(toks)] == list(toks):
            self.p += len(toks)
            return True
        return False

    def full(self):
        r = self.or_()
        if self.p != len(self.t):
            self.bad("trailing tokens")
        return r

    def or_(self):
        l = self.and_()
        while self.peek() == "||":
            self.p += 1
            r = self.and_()
            if l[1] != "bool" or r[1] != "bool":
                self.bad("`||` on non-bool")
            l = ("(%s || %s)" % (l[0], r[0]), "bool")
        return l

    def and_(self):
        l = self.cmp()
        while self.peek() == "&&":
            self.p += 1
            r = self.cmp()
            if l[1] != "bool" or r[1] != "bool":
                self.bad("`&&` on non-bool")
            l = ("(%s && %s)" % (l[0], r[0]), "bool")
        return l

    def cmp(self):
        l = self.atom()
        op = self.peek()
        if op in ("<", ">", "<=", ">=", "==", "!="):
            self.p += 1
            r = self.atom()
            if l[1] != r[1]:
                self.bad("comparison of different types (%s, %s)" % (l[1], r[1]))
            if op in ("<", ">", "<=", ">="):
                if l[1] != "nat":
                    self.bad("ordering on non-integer")
                lop = {"<": "<", ">": ">", "<=": "≤", ">=": "≥"}[op]
                return ("(decide (%s %s %s))" % (l[0], lop, r[0]), "bool")
            if l[1] not in ("nat", "str"):
                self.bad("`%s` on type %s" % (op, l[1]))
            return ("(%s %s %s)" % (l[0], "==" if op == "==" else "!=", r[0]), "bool")
        return l

    def args(self):
        self.eat("(")
        out = []
        while self.peek() != ")":
            out.append(self.or_())
            if self.peek() == ",":
                self.p += 1
        self.eat(")")
        return out

    def want(self, args, *tys):
        if [a[1] for a in args] != list(tys):
            self.bad("argument types %s, expected %s" % ([a[1] for a in args], list(tys)))

    def atom(self):
        t = self.peek()
        if t is None:
            self.bad("unexpected end")
        if t == "(":
            self.p += 1
            r = self.or_()
            self.eat(")")
            return r
        if t == "self":
            return self.self_path()
        if t == "None":
            self.p += 1
            return ("(none : Option Nat)", "optnat")
        if t == "Some":
            self.p += 1
            a = self.args()
            self.want(a, "nat")
            return ("(some %s)" % a[0][0], "optnat")
        if self.seq("common_prefix_char_size"):
            a = self.args()
            self.want(a, "str", "str")
            return ("(genCommonPrefixCharSize %s %s)" % (a[0][0], a[1][0]), "nat")
        if self.seq("get_prefix_with_char_size"):
            a = self.args()
            self.want(a, "str", "nat")
            return ("(getPrefix %s %s)" % (a[0][0], a[1][0]), "str")
        if self.seq("common_prefix"):
            a = self.args()
            self.want(a, "str", "str")
            return ("(commonPrefix %s %s)" % (a[0][0], a[1][0]), "str")
        if self.seq("Arc", "::", "new"):
            a = self.args()
            self.want(a, "lazy")
            return a[0]
        if self.seq("LazyRegex", "::", "new_node"):
            a = self.args()
            self.want(a, "str", "bool")
            return ("(genLazyRegexNewNode %s %s : GenLazyRegex ρ)" % (a[0][0], a[1][0]), "lazy")
        if self.seq("LazyRegex", "::", "new_leaf"):
            a = self.args()
            self.want(a, "str", "bool")
            return ("(genLazyRegexNewLeaf %s %s : GenLazyRegex ρ)" % (a[0][0], a[1][0]), "lazy")
        if self.seq("Leaf", "::", "new"):
            a = self.args()
            self.want(a, "str", "id", "val", "bool")
            return ("(genLeafNew hmNew hmInsert %s %s %s %s : μ × GenLazyRegex ρ)" % tuple(x[0] for x in a), "leafstruct")
        if self.seq("HashMap", "::", "new"):
            a = self.args()
            self.want(a)
            return ("hmNew", "map")
        if self.seq("Item", "::", "Leaf"):
            a = self.args()
            self.want(a, "leafstruct")
            return ("(mkLeaf %s.1 %s.2)" % (a[0][0], a[0][0]), "item")
        if self.seq("Item", "::", "Node"):
            a = self.args()
            self.want(a, "nodestruct")
            return ("(mkNode %s.1 %s.2)" % (a[0][0], a[0][0]), "item")
        if self.seq("Node", "{"):
            f = self.fields()
            if [k for k, _ in f] != ["regex", "children"] or [v[1] for _, v in f] != ["lazy", "items"]:
                self.bad("Node literal: fields / types")
            return ("(%s, %s)" % (f[0][1][0], f[1][1][0]), "nodestruct")
        if self.seq("Leaf", "{"):
            f = dict(self.fields())
            if sorted(f) != ["regex", "values"] or f["regex"][1] != "lazy" or f["values"][1] != "map":
                self.bad("Leaf literal: fields / types")
            return ("(%s, %s)" % (f["values"][0], f["regex"][0]), "leafstruct")
        if t == "vec!":
            self.p += 1
            self.eat("[")
            out = []
            while self.peek() != "]":
                out.append(self.or_())
                if self.peek() == ",":
                    self.p += 1
            self.eat("]")
            if any(o[1] != "item" for o in out):
                self.bad("vec! of non-items")
            return ("[%s]" % ", ".join(o[0] for o in out), "items")
        if re.match(r"[A-Za-z_]\w*$", t) and t in self.env:
            self.p += 1
            r = self.env[t]
            if r[1] == "dead":
                self.bad("use of moved / shadowed variable `%s`" % t)
            if self.peek() == "." and self.peek(1) == "is_none" and r[1] == "optnat":
                self.p += 2
                self.want(self.args())
                return ("%s.isNone" % r[0], "bool")
            if self.peek() == "." and self.peek(1) == "as_str" and r[1] == "str":
                self.p += 2
                self.want(self.args())
            return r
        self.bad()

    def fields(self):
        out = []
        while self.peek() != "}":
            name = self.peek()
            self.p += 1
            if self.peek() == ":":
                self.p += 1
                out.append((name, self.or_()))
            else:   # shorthand `values,`
                if name not in self.env:
                    self.bad("unknown shorthand field `%s`" % name)
                out.append((name, self.env[name]))
            if self.peek() == ",":
                self.p += 1
        self.eat("}")
        return out

    def self_path(self):
        self.eat("self")
        if self.peek() != ".":
            # whole `self` (moved)
            if self.selfkind == "node":
                return ("(v_self_regex, v_self_children)", "nodestruct")
            if self.selfkind == "leaf":
                return ("(v_self_values, v_self_regex)", "leafstruct")
            self.bad("`self` here")
        if self.seq(".", "regex", ".", "original", ".", "as_str", "(", ")"):
            return ("v_self_regex.original", "str")
        if self.seq(".", "regex", ".", "original", ".", "chars", "(", ")", ".", "count", "(", ")", "as", "u32"):
            return ("(v_self_regex.original.length % 4294967296)", "nat")
        if self.seq(".", "regex", ".", "ignore_case"):
            return ("v_self_regex.ignoreCase", "bool")
        if self.selfkind == "node" and self.peek(1) == "children" and self.peek(2) == "[":
            if self.idx is None:
                self.bad("`self.children[..]` outside the loop")
            self.p += 3
            if self.peek() != self.idx[0]:
                self.bad("`self.children[..]` indexed by something else than the loop variable")
            self.p += 1
            self.eat("]")
            if self.seq(".", "regex", "(", ")"):
                return ("(itemRegex %s)" % self.idx[1], "str")
            self.bad("unsupported use of `self.children[i]`")
        self.bad("unsupported `self.` path")


def _tr(text, env, fail, selfkind, ty=None, idx=None):
    r = _Expr(text, env, fail, selfkind, idx).full()
    if ty is not None and r[1] != ty:
        fail("expression `%s` has type %s, expected %s" % (text, r[1], ty))
    return r


ID = r"[A-Za-z_][A-Za-z0-9_]*"
E = r"[^;]+?"


def _node_insert(src, fail):
    sig, body = _fn_body(src, "impl<V> Node<V> {",
                         r"pub fn insert\(mut self, (?P<regex>%s): &str, (?P<id>%s): String, (?P<item>%s): V\) -> Item<V> \{" % (ID, ID, ID),
                         fail, "Node::insert")
    skel = (r"^let mut (?P<mx>{ID}) = (?P<e_mx>{E}); let (?P<ps>{ID}) = (?P<e_ps>{E}); "
            r"if (?P<c1>[^{{]+?) \{{ let (?P<prefix>{ID}) = (?P<e_prefix>{E}); let (?P<left>{ID}) = (?P<e_left>{E}); return (?P<e_ret>{E}); \}} "
            r"let mut (?P<mpi>{ID}) = (?P<e_mpi>{E}); "
            r"for (?P<i>{ID}) in 0\.\.self\.children\.len\(\) \{{ let (?P<ps2>{ID}) = (?P<e_ps2>{E}); "
            r"if (?P<c2>[^{{]+?) \{{ (?P<assigns>(?:{ID} = {E}; )+)\}} \}} "
            r"match (?P<m>{ID}) \{{ Some\((?P<ci>{ID})\) => \{{ let mut (?P<ch>{ID}) = self\.children\.remove\((?P<rmidx>{ID})\); "
            r"(?P<ch2>{ID}) = (?P<ch3>{ID})\.insert\((?P<insargs>{E})\); self\.children\.push\((?P<e_push>{E})\); \}} "
            r"None => \{{ self\.children\.push\((?P<e_push2>{E})\); \}} \}} (?P<e_tail>{E})$").format(ID=ID, E=E)
    m = re.match(skel, body)
    if not m:
        fail("Node::insert: statement skeleton not recognised (fails closed); body = `%s`" % body)
    g = m.groupdict()
    env = {sig.group("regex"): ("v_regex", "str"), sig.group("id"): ("v_id", "id"), sig.group("item"): ("v_item", "val")}
    if len(set(env)) != 3:
        fail("Node::insert: parameter names clash")

    def bind(env, name, val):
        e = dict(env)
        e[name] = val
        return e
    L = []
    e_mx = _tr(g["e_mx"], env, fail, "node", "nat")
    env1 = bind(env, g["mx"], ("v_mx", "nat"))
    e_ps = _tr(g["e_ps"], env1, fail, "node", "nat")
    env2 = bind(env1, g["ps"], ("v_ps", "nat"))
    c1 = _tr(g["c1"], env2, fail, "node", "bool")
    e_prefix = _tr(g["e_prefix"], env2, fail, "node", "str")
    env3 = bind(env2, g["prefix"], ("v_prefix", "str"))
    e_left = _tr(g["e_left"], env3, fail, "node", "item")
    env4 = bind(env3, g["left"], ("v_left", "item"))
    e_ret = _tr(g["e_ret"], env4, fail, "node", "item")
    e_mpi = _tr(g["e_mpi"], env2, fail, "node", "optnat")
    env5 = bind(env2, g["mpi"], ("v_mpi", "optnat"))
    # loop
    envl = bind(env5, g["i"], ("v_i", "nat"))
    idx = (g["i"], "v_ci")
    e_ps2 = _tr(g["e_ps2"], envl, fail, "node", "nat", idx)
    envl2 = bind(envl, g["ps2"], ("v_ps2", "nat"))
    c2 = _tr(g["c2"], envl2, fail, "node", "bool", idx)
    new = {"mx": "v_mx", "mpi": "v_mpi"}
    envl3 = envl2
    for a in [x.strip() for x in g["assigns"].split(";") if x.strip()]:
        am = re.match(r"(%s) = (.+)$" % ID, a)
        tgt = am.group(1)
        if envl3.get(tgt, (None,))[0] == "v_mx" and tgt == g["mx"]:
            new["mx"] = _tr(am.group(2), envl3, fail, "node", "nat", idx)[0]
            envl3 = bind(envl3, tgt, ("(%s)" % new["mx"], "nat"))
        elif envl3.get(tgt, (None,))[0] == "v_mpi" and tgt == g["mpi"]:
            new["mpi"] = _tr(am.group(2), envl3, fail, "node", "optnat", idx)[0]
            envl3 = bind(envl3, tgt, ("(%s)" % new["mpi"], "optnat"))
        else:
            fail("Node::insert: assignment `%s` in the loop: target is not an unassigned mutable loop variable" % a)
    # match
    if env5.get(g["m"], (None,))[0] != "v_mpi":
        fail("Node::insert: `match %s` is not on the selected index" % g["m"])
    envm = bind(env5, g["ci"], ("v_child_index", "nat"))
    if envm.get(g["rmidx"], (None,))[0] != "v_child_index":
        fail("Node::insert: `self.children.remove(%s)`: not the matched index" % g["rmidx"])
    if not (g["ch"] == g["ch2"] == g["ch3"]):
        fail("Node::insert: `%s = %s.insert(..)` does not reassign the removed child `%s`" % (g["ch2"], g["ch3"], g["ch"]))
    args = [a.strip() for a in g["insargs"].split(",")]
    if len(args) != 3:
        fail("Node::insert: child insert arguments `%s`" % g["insargs"])
    ia = [_tr(args[0], envm, fail, "node", "str")[0], _tr(args[1], envm, fail, "node", "id")[0], _tr(args[2], envm, fail, "node", "val")[0]]
    envm2 = bind(envm, g["ch"], ("v_child", "item"))
    e_push = _tr(g["e_push"], envm2, fail, "node", "item")
    e_push2 = _tr(g["e_push2"], env5, fail, "node", "item")
    # the tail is evaluated with the pushed children: `self.children` is rebound under the same lean name
    e_tail = _tr(g["e_tail"], env5, fail, "node", "item")

    P = ("{ρ χ μ ι V : Type} (mkNode : GenLazyRegex ρ → List χ → χ) (mkLeaf : μ → GenLazyRegex ρ → χ) (itemRegex : χ → List Char) "
         "(hmNew : μ) (hmInsert : μ → ι → V → μ)")
    L.append("set_option linter.unusedVariables false in")
    L.append("/-- the child-selection loop `for %s in 0..self.children.len()` of `Node::insert` over the remaining indices; state = (`%s`, `%s`); `none` = index panic; translated from %s. -/"
             % (g["i"], g["mx"], g["mpi"], NODE))
    L.append("def genNodeInsertLoop {χ : Type} (itemRegex : χ → List Char) (v_regex : List Char) (v_self_children : List χ) : List Nat → Nat × Option Nat → Option (Nat × Option Nat)")
    L.append("  | [], st => some st")
    L.append("  | v_i :: rest, (v_mx, v_mpi) =>")
    L.append("    match v_self_children[v_i]? with")
    L.append("    | none => none")
    L.append("    | some v_ci =>")
    L.append("      let v_ps2 := %s" % e_ps2[0])
    L.append("      if %s then genNodeInsertLoop itemRegex v_regex v_self_children rest (%s, %s)" % (c2[0], new["mx"], new["mpi"]))
    L.append("      else genNodeInsertLoop itemRegex v_regex v_self_children rest (v_mx, v_mpi)")
    L.append("")
    L.append("set_option linter.unusedVariables false in")
    L.append("/-- `Node::insert(mut self, %s, %s, %s)`; `self` = (`v_self_regex`, `v_self_children`); `none` = panic (index / remove out of range, or in the child); translated from %s. -/"
             % (sig.group("regex"), sig.group("id"), sig.group("item"), NODE))
    L.append("def genNodeInsert %s (getPrefix : List Char → Nat → List Char) (childInsert : χ → List Char → ι → V → Option χ)" % P)
    L.append("    (v_self_regex : GenLazyRegex ρ) (v_self_children : List χ) (v_regex : List Char) (v_id : ι) (v_item : V) : Option χ :=")
    L.append("  let v_mx := %s" % e_mx[0])
    L.append("  let v_ps := %s" % e_ps[0])
    L.append("  if %s then" % c1[0])
    L.append("    let v_prefix := %s" % e_prefix[0])
    L.append("    let v_left : χ := %s" % e_left[0])
    L.append("    some %s" % e_ret[0])
    L.append("  else")
    L.append("    let v_mpi := %s" % e_mpi[0])
    L.append("    match genNodeInsertLoop itemRegex v_regex v_self_children (List.range v_self_children.length) (v_mx, v_mpi) with")
    L.append("    | none => none")
    L.append("    | some (v_mx, v_mpi) =>")
    L.append("      match v_mpi with")
    L.append("      | some v_child_index =>")
    L.append("        match v_self_children[v_child_index]? with")
    L.append("        | none => none")
    L.append("        | some v_child =>")
    L.append("          let v_self_children := v_self_children.eraseIdx v_child_index")
    L.append("          match childInsert v_child %s %s %s with" % tuple(ia))
    L.append("          | none => none")
    L.append("          | some v_child =>")
    L.append("            let v_self_children := v_self_children ++ [%s]" % e_push[0])
    L.append("            some %s" % e_tail[0])
    L.append("      | none =>")
    L.append("        let v_self_children := v_self_children ++ [%s]" % e_push2[0])
    L.append("        some %s" % e_tail[0])
    return L


def _leaf_new(src, fail):
    sig, body = _fn_body(src, "impl<V> Leaf<V> {",
                         r"pub fn new\((?P<regex>%s): &str, (?P<id>%s): String, (?P<item>%s): V, (?P<ic>%s): bool\) -> Self \{" % (ID, ID, ID, ID),
                         fail, "Leaf::new")
    m = re.match((r"^let mut (?P<vals>{ID}) = (?P<e_new>{E}); (?P<vals2>{ID})\.insert\((?P<a>{E})\); (?P<e_tail>.+)$").format(ID=ID, E=E), body)
    if not m or m.group("vals") != m.group("vals2"):
        fail("Leaf::new: statement skeleton not recognised; body = `%s`" % body)
    env = {sig.group("regex"): ("v_regex", "str"), sig.group("id"): ("v_id", "id"), sig.group("item"): ("v_item", "val"),
           sig.group("ic"): ("v_ignore_case", "bool")}
    e_new = _tr(m.group("e_new"), env, fail, None, "map")
    a = [x.strip() for x in m.group("a").split(",")]
    if len(a) != 2:
        fail("Leaf::new: insert arguments")
    k, v = _tr(a[0], env, fail, None, "id")[0], _tr(a[1], env, fail, None, "val")[0]
    env2 = dict(env)
    env2[m.group("vals")] = ("v_values", "map")
    e_tail = _tr(m.group("e_tail"), env2, fail, None, "leafstruct")
    return ["set_option linter.unusedVariables false in",
            "/-- `Leaf::new(regex, id, item, ignore_case)`: the fields (`values`, `regex`); translated from %s. -/" % LEAF,
            "def genLeafNew {ρ μ ι V : Type} (hmNew : μ) (hmInsert : μ → ι → V → μ) (v_regex : List Char) (v_id : ι) (v_item : V) (v_ignore_case : Bool) : μ × GenLazyRegex ρ :=",
            "  let v_values := %s" % e_new[0],
            "  let v_values := hmInsert v_values %s %s" % (k, v),
            "  %s" % e_tail[0]]


def _leaf_insert(src, fail):
    sig, body = _fn_body(src, "impl<V> Leaf<V> {",
                         r"pub fn insert\(mut self, (?P<regex>%s): &str, (?P<id>%s): String, (?P<item>%s): V\) -> Item<V> \{" % (ID, ID, ID),
                         fail, "Leaf::insert")
    skel = (r"^if (?P<c>[^{{]+?) \{{ self\.values\.insert\((?P<a>{E})\); return (?P<e_ret>{E}); \}} "
            r"let (?P<prefix>{ID}) = (?P<e_prefix>{E}); let mut (?P<lv>{ID}) = (?P<e_lv>{E}); (?P<lv2>{ID})\.insert\((?P<a2>{E})\); "
            r"let (?P<leaf>{ID}) = (?P<e_leaf>{E}); (?P<e_tail>.+)$").format(ID=ID, E=E)
    m = re.match(skel, body)
    if not m or m.group("lv") != m.group("lv2"):
        fail("Leaf::insert: statement skeleton not recognised (fails closed); body = `%s`" % body)
    g = m.groupdict()
    env = {sig.group("regex"): ("v_regex", "str"), sig.group("id"): ("v_id", "id"), sig.group("item"): ("v_item", "val")}
    c = _tr(g["c"], env, fail, "leaf", "bool")

    def two(s, what):
        a = [x.strip() for x in s.split(",")]
        if len(a) != 2:
            fail("Leaf::insert: %s arguments `%s`" % (what, s))
        return _tr(a[0], env, fail, "leaf", "id")[0], _tr(a[1], env, fail, "leaf", "val")[0]
    k1, v1 = two(g["a"], "self.values.insert")
    e_ret = _tr(g["e_ret"], env, fail, "leaf", "item")
    e_prefix = _tr(g["e_prefix"], env, fail, "leaf", "str")
    env2 = dict(env)
    env2[g["prefix"]] = ("v_prefix", "str")
    e_lv = _tr(g["e_lv"], env2, fail, "leaf", "map")
    k2, v2 = two(g["a2"], "leaf_values.insert")
    env3 = dict(env2)
    env3[g["lv"]] = ("v_leaf_values", "map")
    e_leaf = _tr(g["e_leaf"], env3, fail, "leaf", "item")
    env4 = dict(env3)
    env4[g["lv"]] = ("v_leaf_values", "dead")     # moved into the leaf
    env4[g["leaf"]] = ("v_leaf", "item")
    e_tail = _tr(g["e_tail"], env4, fail, "leaf", "item")
    return ["set_option linter.unusedVariables false in",
            "/-- `Leaf::insert(mut self, regex, id, item)`; `self` = (`v_self_values`, `v_self_regex`); translated from %s. -/" % LEAF,
            "def genLeafInsert {ρ χ μ ι V : Type} (mkNode : GenLazyRegex ρ → List χ → χ) (mkLeaf : μ → GenLazyRegex ρ → χ) (hmNew : μ) (hmInsert : μ → ι → V → μ) (commonPrefix : List Char → List Char → List Char)",
            "    (v_self_values : μ) (v_self_regex : GenLazyRegex ρ) (v_regex : List Char) (v_id : ι) (v_item : V) : χ :=",
            "  if %s then" % c[0],
            "    let v_self_values := hmInsert v_self_values %s %s" % (k1, v1),
            "    %s" % e_ret[0],
            "  else",
            "    let v_prefix := %s" % e_prefix[0],
            "    let v_leaf_values := %s" % e_lv[0],
            "    let v_leaf_values := hmInsert v_leaf_values %s %s" % (k2, v2),
            "    let v_leaf : χ := %s" % e_leaf[0],
            "    %s" % e_tail[0]]


ITEM = "src/regex_radix_tree/item.rs"


def _shapes(item, node, leaf, fail):
    """the data layout the generated view type relies on: enum variants and struct fields, in declaration order"""
    def norm(x):
        return " ".join(x.split())
    m = re.search(r"pub enum Item<V> \{(.*?)\}", item, re.S)
    if not m or norm(m.group(1)) != "Empty(bool), Node(Node<V>), Leaf(Leaf<V>),":
        fail("item.rs: `pub enum Item<V>` is not { Empty(bool), Node(Node<V>), Leaf(Leaf<V>), }")
    m = re.search(r"pub struct Node<V> \{(.*?)\}", node, re.S)
    if not m or norm(m.group(1)) != "pub(crate) regex: Arc<LazyRegex>, pub(crate) children: Vec<Item<V>>,":
        fail("node.rs: `pub struct Node<V>` fields changed")
    m = re.search(r"pub struct Leaf<V> \{(.*?)\}", leaf, re.S)
    if not m or norm(m.group(1)) != "pub(crate) values: HashMap<String, V>, pub(crate) regex: Arc<LazyRegex>,":
        fail("leaf.rs: `pub struct Leaf<V>` fields changed")
    return ["/-- one layer of `pub enum Item<V> { Empty(bool), Node(Node<V>), Leaf(Leaf<V>) }` with `Node { regex, children }`, `Leaf { values, regex }` (fields in declaration order); `χ` = the items below, `μ` = the map; shapes checked against %s, node.rs, leaf.rs. -/" % ITEM,
            "inductive GenItemView (ρ χ μ : Type) where",
            "  | empty (ignoreCase : Bool)",
            "  | node (regex : GenLazyRegex ρ) (children : List χ)",
            "  | leaf (values : μ) (regex : GenLazyRegex ρ)"]


def _item_insert(src, fail):
    sig, body = _fn_body(src, "impl<V> Item<V> {",
                         r"pub fn insert\(self, (?P<regex>%s): &str, (?P<id>%s): String, (?P<item>%s): V\) -> Item<V> \{" % (ID, ID, ID),
                         fail, "Item::insert")
    m = re.match(r"^match self \{ (?P<arms>.+) \}$", body)
    if not m:
        fail("Item::insert: body is not a single `match self { .. }`: `%s`" % body)
    arms = [a.strip() for a in re.split(r",\s*(?=Item::)", m.group("arms").rstrip(", ").strip() + ",") if a.strip()]
    env = {sig.group("regex"): ("v_regex", "str"), sig.group("id"): ("v_id", "id"), sig.group("item"): ("v_item", "val")}
    out = {}
    for a in arms:
        a = a.rstrip(",").strip()
        am = re.match(r"^Item::(Empty|Node|Leaf)\((%s)\) => (.+)$" % ID, a)
        if not am:
            fail("Item::insert: arm not recognised: `%s`" % a)
        var, pat, rhs = am.group(1), am.group(2), am.group(3)
        if var in out:
            fail("Item::insert: duplicate arm for `%s`" % var)
        if pat in env:
            fail("Item::insert: pattern variable `%s` shadows a parameter" % pat)
        if var == "Empty":
            e = dict(env)
            e[pat] = ("v_ignore_case", "bool")
            out[var] = "    | .empty v_ignore_case => some %s" % _tr(rhs, e, fail, None, "item")[0]
        else:
            cm = re.match(r"^(%s)\.insert\((.+)\)$" % ID, rhs)
            if not cm or cm.group(1) != pat:
                fail("Item::insert: arm `%s`: expected `%s.insert(..)`" % (a, pat))
            args = [x.strip() for x in cm.group(2).split(",")]
            if len(args) != 3:
                fail("Item::insert: arm `%s`: arguments" % a)
            ia = (_tr(args[0], env, fail, None, "str")[0], _tr(args[1], env, fail, None, "id")[0], _tr(args[2], env, fail, None, "val")[0])
            if var == "Node":
                out[var] = "    | .node v_n_regex v_n_children => nodeInsert v_n_regex v_n_children %s %s %s" % ia
            else:
                out[var] = "    | .leaf v_l_values v_l_regex => some (leafInsert v_l_values v_l_regex %s %s %s)" % ia
    if sorted(out) != ["Empty", "Leaf", "Node"]:
        fail("Item::insert: arms %s, expected Empty / Node / Leaf" % sorted(out))
    return ["set_option linter.unusedVariables false in",
            "/-- `Item::insert(self, regex, id, item)`: the three-way `match`; `nodeInsert` = `Node::insert`, `leafInsert` = `Leaf::insert` on the fields; `none` = panic; translated from %s. -/" % ITEM,
            "def genItemInsert {ρ χ μ ι V : Type} (mkLeaf : μ → GenLazyRegex ρ → χ) (hmNew : μ) (hmInsert : μ → ι → V → μ)",
            "    (nodeInsert : GenLazyRegex ρ → List χ → List Char → ι → V → Option χ) (leafInsert : μ → GenLazyRegex ρ → List Char → ι → V → χ)",
            "    (self : GenItemView ρ χ μ) (v_regex : List Char) (v_id : ι) (v_item : V) : Option χ :=",
            "  match self with", out["Empty"], out["Node"], out["Leaf"]]


def extract(read, fail, lean_str, lean_list):
    node = _strip(read(NODE))
    leaf = _strip(read(LEAF))
    out = ["-- Rust -> Lean translation: `Leaf::new`, `Leaf::insert` (%s), `Node::insert` (%s) (translator plugin w23_tree_insert; whitelisted statement skeleton + expression translator, fails closed outside its subset)" % (LEAF, NODE), ""]
    out += _leaf_new(leaf, fail) + [""]
    out += _leaf_insert(leaf, fail) + [""]
    out += _node_insert(node, fail) + [""]
    item = _strip(read(ITEM))
    out += _shapes(item, node, leaf, fail) + [""]
    out += _item_insert(item, fail)
    return out
