"""W4c: section `router` (match_request of the host / scheme / method / ip layers) translated from the source by the translator of w4_translate.py (own section, so that a
failure / change only concerns the properties that use these definitions)."""
import importlib.util
import os


def _core():
    path = os.path.join(os.path.dirname(os.path.abspath(__file__)), "w4_translate.py")
    spec = importlib.util.spec_from_file_location("consts_w4_translate_core", path)
    mod = importlib.util.module_from_spec(spec)
    spec.loader.exec_module(mod)
    return mod


def extract(read, fail, lean_str, lean_list):
    return _core().extract_router(read, fail)
