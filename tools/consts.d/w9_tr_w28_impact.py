"""W28: section `tr_w28_impact` - the impact entry points of src/api/impact.rs, translated from the source on every run:
`ImpactOutput::from_impact_project` (genFromImpactProject), `ImpactOutput::create_result` (genImpactCreateResult) and the
HEAD of `ImpactOutput::compute_impacts` (genComputeImpactsHead: the first statement, `if action == "add" || action == "update"
{ router.insert(..); trace_unique_router.insert(..); }`; everything after it is the abstract parameter `impactLoop`).

Self-contained strict translator (own lexer / recursive-descent parser for exactly the statement forms below); everything
else FAILS CLOSED naming the source line.

Subset
  statements   `let [mut] x = E;`
               `x.insert(E);` / `x.remove(E);`  on a local / `&mut` parameter x   ->  `let x := insert E x` / `remove E x`
               `for v in E.iter() { S.. }`        ->  `List.foldl (fun STATE v => ..) STATE E`, STATE = the outer variables
                                                     mutated in the body; `if C { continue; }` -> `if C then STATE else ..`
               `if C { S.. }` (no else)           ->  `let STATE := if C then (..; STATE) else STATE`
               a final expression without `;`    (the value of the function)
  expressions  locals, string literals, `E == E`, `E || E`, `&mut x` / `&x` (= x: states are threaded as values),
               `E.clone()` / `E.as_str()` / `E.iter()` (= E: values), `INPUT.field` (the fields of the input struct are the
               parameters `inField`, in DECLARATION order of the struct, with the declared types), `E.id` / `E.examples` /
               `E.config` (accessor parameters below), `E.update_existing_router(A)`, `Router::<Rule>::from_config(E)`,
               `Router::<Rule>::from_arc_config(E)`, `ImpactOutput::compute_impacts(8 arguments)`.

ABSTRACT PARAMETERS (callees that are not translated; the algebra `Alg` / the pipeline `Pipe` of Model/LoopAnalysis.lean)
  updateExistingRouter : CS -> St -> St     `RuleChangeSet::update_existing_router(self, router)` (clone + apply_change_set)
  fromArcConfig / fromConfig : Cfg -> St    `Router::from_arc_config` / `Router::from_config`
  config : St -> Cfg                        the field `router.config`
  remove : Id -> St -> St                   `Router::remove(id)` (returned route dropped: the statement form discards it)
  insert : Rule -> St -> St                 `Router::insert(rule)`
  ruleId : Rule -> Id                       the field `rule.id`;  `==` on ids is `=` under `[DecidableEq Id]`
  examples : Rule -> Option (List Ex)       the field `rule.examples`
  computeImpacts : St -> St -> Option (List Ex) -> Bool -> Nat -> String -> Rule -> Dom -> Out
                                            `ImpactOutput::compute_impacts`, arguments in SIGNATURE order (checked against
                                            the signature: 8 parameters with the expected names)
  impactLoop : St -> St -> Option (List Ex) -> Bool -> Nat -> Dom -> Out
                                            the rest of `compute_impacts` after its first statement.  The plugin checks that
                                            the rest cannot see what is not passed: `rule` (moved by the second insert) does
                                            not occur in it, and the first occurrence of `action` is `let mut action =`.
`.clone()` of an `Arc<Router>` / a config / a rule and `.as_str()` are the identity (value semantics); `max_hops: u8` is a Nat
(only passed through); `Vec<String>` (domains) is the abstract type `Dom` of the model.
"""
import re

SRC = "src/api/impact.rs"
_TOK = re.compile(r'\s+|//[^\n]*|(?P<str>"(?:[^"\\]|\\.)*")|(?P<id>[A-Za-z_][A-Za-z0-9_]*)|(?P<int>[0-9]+)|(?P<op>::|==|\|\||->|[.,;:(){}<>&=!\[\]#*+\-?|/])')

_TYPES = {"RouterConfig": "Cfg", "u8": "Nat", "bool": "Bool", "Vec<String>": "Dom", "Rule": "Rule", "String": "String",
          "Vec<Rule>": "List Rule", "RuleChangeSet": "CS", "Arc<Router<Rule>>": "St", "&mutRouter<Rule>": "St",
          "Option<Vec<Example>>": "Option (List Ex)", "&str": "String"}
_FIELDS = {"id": "ruleId", "examples": "examples", "config": "config"}
_IDENT_METHODS = ("clone", "as_str", "iter")
_PARAM_SIGS = {
    "updateExistingRouter": "CS → St → St", "fromArcConfig": "Cfg → St", "fromConfig": "Cfg → St", "config": "St → Cfg",
    "remove": "Id → St → St", "insert": "Rule → St → St", "ruleId": "Rule → Id", "examples": "Rule → Option (List Ex)",
    "computeImpacts": "St → St → Option (List Ex) → Bool → Nat → String → Rule → Dom → Out",
    "impactLoop": "St → St → Option (List Ex) → Bool → Nat → Dom → Out"}
_PARAM_ORDER = list(_PARAM_SIGS)
_CI_NAMES = ["router", "trace_unique_router", "examples", "with_redirection_loop", "max_hops", "action", "rule",
             "project_domains"]


def camel(s, prefix=""):
    parts = s.split("_")
    if prefix:
        return prefix + "".join(p.capitalize() for p in parts)
    return parts[0] + "".join(p.capitalize() for p in parts[1:])


class T:
    def __init__(self, kind, text, line):
        self.kind, self.text, self.line = kind, text, line


def lex(src, fail):
    out, i, line = [], 0, 1
    while i < len(src):
        m = _TOK.match(src, i)
        if not m:
            fail(f"{SRC}:{line}: cannot tokenise near {src[i:i+20]!r}")
        k = m.lastgroup
        if k:
            out.append(T(k, m.group(k), line))
        line += m.group(0).count("\n")
        i = m.end()
    out.append(T("eof", "", line))
    return out


class P:
    def __init__(self, toks, lines, fail, structs):
        self.t, self.i, self.lines, self._fail, self.structs = toks, 0, lines, fail, structs
        self.used = set()
        self.inputs = {}   # rust variable of struct type -> struct name

    def fail(self, msg, tok=None):
        tok = tok or self.t[self.i]
        src = self.lines[tok.line - 1].strip() if tok.line - 1 < len(self.lines) else ""
        self._fail(f"{SRC}:{tok.line}: {msg}: `{src}`")

    def at(self, text, k=0):
        return self.t[self.i + k].text == text and self.t[self.i + k].kind not in ("str",)

    def eat(self, text):
        if not self.at(text):
            self.fail(f"expected `{text}`, found `{self.t[self.i].text}`")
        self.i += 1
        return self.t[self.i - 1]

    def ident(self):
        if self.t[self.i].kind != "id":
            self.fail(f"identifier expected, found `{self.t[self.i].text}`")
        self.i += 1
        return self.t[self.i - 1].text

    def type_text(self, stop):
        """the tokens of a type up to one of `stop` at nesting depth 0, concatenated"""
        depth, out = 0, []
        while True:
            t = self.t[self.i]
            if t.kind == "eof":
                self.fail("unterminated type")
            if depth == 0 and t.text in stop:
                break
            if t.text == "<":
                depth += 1
            if t.text == ">":
                depth -= 1
            out.append(t.text)
            self.i += 1
        return "".join(out)

    # ---- expressions: return a Lean string
    def expr(self):
        e = self.cmp()
        while self.at("||"):
            self.eat("||")
            e = f"({e} || {self.cmp()})"
        return e

    def cmp(self):
        e = self.postfix()
        if self.at("=="):
            self.eat("==")
            e = f"decide ({e} = {self.postfix()})"
        return e

    def call(self, fn, args):
        self.used.add(fn)
        return "(" + " ".join([fn] + args) + ")"

    def args(self):
        self.eat("(")
        out = []
        while not self.at(")"):
            out.append(self.expr())
            if not self.at(")"):
                self.eat(",")
        self.eat(")")
        return out

    def primary(self):
        t = self.t[self.i]
        if t.kind == "str":
            self.i += 1
            if "\\" in t.text:
                self.fail("escape in a string literal")
            return t.text
        if self.at("&"):
            self.eat("&")
            if self.at("mut"):
                self.eat("mut")
            return self.local(self.ident())
        if self.at("(") :
            self.fail("parenthesised expression is not in the subset")
        if t.kind != "id":
            self.fail(f"expression form not in the subset (`{t.text}`)")
        name = self.ident()
        if self.at("::"):
            if name == "Router":
                for x in ("::", "<", "Rule", ">", "::"):
                    self.eat(x)
                f = self.ident()
                if f not in ("from_config", "from_arc_config"):
                    self.fail(f"`Router::{f}` is not in the subset")
                a = self.args()
                if len(a) != 1:
                    self.fail("one argument expected")
                return self.call(camel(f), a)
            if name == "ImpactOutput":
                self.eat("::")
                f = self.ident()
                if f != "compute_impacts":
                    self.fail(f"`ImpactOutput::{f}` is not in the subset")
                a = self.args()
                if len(a) != 8:
                    self.fail("compute_impacts: 8 arguments expected")
                return self.call("computeImpacts", a)
            self.fail(f"path `{name}::` is not in the subset")
        return self.local(name)

    def local(self, name):
        if name in self.inputs:
            return ("input", name)
        if name not in self.scope:
            self.fail(f"unknown variable `{name}`")
        return camel(name)

    def postfix(self):
        e = self.primary()
        while self.at("."):
            self.eat(".")
            f = self.ident()
            if self.at("("):
                if isinstance(e, tuple):
                    self.fail("method call on the input struct itself")
                a = self.args()
                if f in _IDENT_METHODS:
                    if a:
                        self.fail(f"`.{f}()` takes no argument")
                elif f == "update_existing_router":
                    if len(a) != 1:
                        self.fail("one argument expected")
                    e = self.call("updateExistingRouter", [e] + a)
                else:
                    self.fail(f"method `.{f}(..)` is not in the subset as an expression")
            elif isinstance(e, tuple):
                fields = self.structs[self.inputs[e[1]]]
                if f not in fields:
                    self.fail(f"unknown field `{f}` of the input struct")
                e = camel(f, "in")
            elif f in _FIELDS:
                e = self.call(_FIELDS[f], [e])
            else:
                self.fail(f"field `.{f}` is not in the subset")
        if isinstance(e, tuple):
            self.fail("the input struct used as a value")
        return e

    # ---- statements: AST
    def block(self):
        self.eat("{")
        out = []
        while not self.at("}"):
            out.append(self.statement())
            if out[-1][0] == "tail" and not self.at("}"):
                self.fail("expression without `;` in the middle of a block")
        self.eat("}")
        return out

    def statement(self):
        t = self.t[self.i]
        if self.at("let"):
            self.eat("let")
            if self.at("mut"):
                self.eat("mut")
            name = self.ident()
            self.eat("=")
            e = self.expr()
            self.eat(";")
            self.scope = self.scope | {name}
            return ("let", camel(name), e)
        if self.at("continue"):
            self.eat("continue")
            self.eat(";")
            return ("continue",)
        if self.at("if"):
            self.eat("if")
            c = self.expr()
            saved = self.scope
            body = self.block()
            self.scope = saved
            if self.at("else"):
                self.fail("`else` is not in the subset")
            return ("if", c, body)
        if self.at("for"):
            self.eat("for")
            v = self.ident()
            self.eat("in")
            coll_tok = self.i
            coll = self.expr()
            if not (self.t[self.i - 4].text == "." and self.t[self.i - 3].text == "iter"):
                self.fail("`for v in E.iter()` expected", self.t[coll_tok])
            saved = self.scope
            self.scope = self.scope | {v}
            body = self.block()
            self.scope = saved
            return ("for", camel(v), coll, body)
        if t.kind == "id" and self.at(".", 1) and self.t[self.i + 2].text in ("insert", "remove") and self.at("(", 3):
            recv = self.ident()
            if recv not in self.scope or recv in self.inputs:
                self.fail(f"unknown receiver `{recv}`")
            self.eat(".")
            m = self.ident()
            a = self.args()
            if len(a) != 1:
                self.fail("one argument expected")
            self.eat(";")
            return ("mut", camel(recv), self.call(m, a + [camel(recv)]))
        e = self.expr()
        if self.at(";"):
            self.fail("expression statement is not in the subset")
        return ("tail", e)


def mutated(stmts, declared=()):
    """outer variables mutated in the statements, in order of first mutation"""
    out, decl = [], set(declared)
    for s in stmts:
        if s[0] == "let":
            decl.add(s[1])
        elif s[0] == "mut":
            if s[1] not in decl and s[1] not in out:
                out.append(s[1])
        elif s[0] in ("if", "for"):
            for x in mutated(s[-1], {s[1]} if s[0] == "for" else ()):
                if x not in decl and x not in out:
                    out.append(x)
    return out


def tup(names):
    return names[0] if len(names) == 1 else "(" + ", ".join(names) + ")"


def gen(stmts, k, cont, ind, fail):
    """Lean lines for the statements followed by the result expression k; `cont` = the value of `continue` (or None)"""
    pad = "  " * ind
    if not stmts:
        if k is None:
            fail(f"{SRC}: a block without a value where one is needed")
        return [pad + k]
    s, rest = stmts[0], stmts[1:]
    if s[0] == "tail":
        return [pad + s[1]]
    if s[0] in ("let", "mut"):
        return [pad + f"let {s[1]} := {s[2]}"] + gen(rest, k, cont, ind, fail)
    if s[0] == "continue":
        if cont is None or rest:
            fail(f"{SRC}: `continue` outside a loop or followed by statements")
        return [pad + cont]
    if s[0] == "if":
        body = s[2]
        if body and body[-1][0] == "continue":
            return ([pad + f"if {s[1]} then"] + gen(body, None, cont, ind + 1, fail) + [pad + "else"]
                    + gen(rest, k, cont, ind + 1, fail))
        if any(x[0] in ("continue", "tail") for x in body):
            fail(f"{SRC}: `continue` / value in the middle of an `if` body")
        st = mutated(body)
        if not st:
            fail(f"{SRC}: `if` without effect on the outer variables")
        return ([pad + f"let {tup(st)} :=", pad + f"  if {s[1]} then"] + gen(body, tup(st), None, ind + 2, fail)
                + [pad + f"  else {tup(st)}"] + gen(rest, k, cont, ind, fail))
    if s[0] == "for":
        st = mutated(s[3], {s[1]})
        if not st:
            fail(f"{SRC}: loop without effect on the outer variables")
        return ([pad + f"let {tup(st)} := List.foldl (fun {tup(st)} {s[1]} =>"] + gen(s[3], tup(st), tup(st), ind + 2, fail)
                + [pad + f"    ) {tup(st)} {s[2]}"] + gen(rest, k, cont, ind, fail))
    fail(f"{SRC}: internal: statement {s[0]}")


def extract(read, fail, lean_str, lean_list):
    src = read(SRC)
    lines = src.split("\n")
    toks = lex(src, fail)
    # the input structs: fields in declaration order
    structs = {}
    for sname in ("ImpactInput", "ImpactProjectInput"):
        idx = [i for i in range(len(toks) - 2) if toks[i].text == "struct" and toks[i + 1].text == sname]
        if len(idx) != 1:
            fail(f"{SRC}: struct {sname} not found exactly once")
        p = P(toks, lines, fail, structs)
        p.i = idx[0] + 2
        p.eat("{")
        fields = {}
        while not p.at("}"):
            while p.at("#"):
                p.eat("#"); p.eat("[")
                while not p.at("]"):
                    p.i += 1
                p.eat("]")
            p.eat("pub")
            f = p.ident()
            p.eat(":")
            ty = p.type_text((",", "}"))
            if ty not in _TYPES:
                p.fail(f"field type `{ty}` is not modelled")
            fields[f] = _TYPES[ty]
            if p.at(","):
                p.eat(",")
        structs[sname] = fields

    def function(name, lean_name, doc, head_only=False):
        idx = [i for i in range(len(toks) - 2) if toks[i].text == "fn" and toks[i + 1].text == name and toks[i + 2].text == "("]
        if len(idx) != 1:
            fail(f"{SRC}: fn {name} not found exactly once")
        p = P(toks, lines, fail, structs)
        p.i = idx[0] + 2
        p.scope = set()
        p.eat("(")
        params = []
        while not p.at(")"):
            v = p.ident()
            p.eat(":")
            ty = p.type_text((",", ")"))
            if ty in structs:
                p.inputs[v] = ty
                params += [(camel(f, "in"), t) for f, t in structs[ty].items()]
            elif ty in _TYPES:
                p.scope = p.scope | {v}
                params.append((camel(v), _TYPES[ty]))
            else:
                p.fail(f"parameter type `{ty}` is not modelled")
            if p.at(","):
                p.eat(",")
        p.eat(")")
        p.eat("->")
        if p.ident() != "ImpactOutput":
            p.fail("return type ImpactOutput expected")
        if head_only:
            names = [n for n, _ in params]
            if names != [camel(x) for x in _CI_NAMES]:
                p.fail("compute_impacts: unexpected parameter list")
            p.eat("{")
            first = p.statement()
            if first[0] != "if":
                p.fail("compute_impacts: the first statement must be the `if action == ..`")
            # the rest: must not see `rule` (moved) nor the parameter `action`
            j, depth = p.i, 1
            rest = []
            while depth > 0:
                tk = toks[j]
                if tk.kind == "eof":
                    p.fail("unterminated function")
                if tk.kind != "str":
                    depth += (tk.text == "{") - (tk.text == "}")
                rest.append(tk)
                j += 1
            for n, tk in enumerate(rest):
                if tk.kind == "id" and tk.text == "rule":
                    p.fail("compute_impacts: `rule` used after the head statement", tk)
                if tk.kind == "id" and tk.text == "action":
                    if not (n >= 2 and rest[n - 1].text == "mut" and rest[n - 2].text == "let"):
                        p.fail("compute_impacts: the parameter `action` used after the head statement", tk)
                    break
            p.used.add("impactLoop")
            stmts = [first, ("tail", "(impactLoop router traceUniqueRouter examples withRedirectionLoop maxHops projectDomains)")]
        else:
            stmts = p.block()
            if not stmts or stmts[-1][0] != "tail":
                p.fail("the function must end with a value")
        body = gen(stmts, None, None, 1, fail)
        fns = [f"({f} : {_PARAM_SIGS[f]})" for f in _PARAM_ORDER if f in p.used]
        sig = " ".join(fns + [f"({n} : {t})" for n, t in params])
        tys = [t for t in ("St", "Rule", "Id", "Cfg", "Ex", "Dom", "CS", "Out") if re.search(r"\b%s\b" % t, sig + " Out")]
        dec = " [DecidableEq Id]" if "Id" in tys else ""
        return ["set_option linter.unusedVariables false in", f"/-- {doc}; translated from {SRC}. -/",
                f"def {lean_name} {{{' '.join(tys)} : Type}}{dec} {sig} : Out :="] + body + [""]

    out = ["-- Rust -> Lean translation: the impact entry points (tools/consts.d/w28_impact.py; own strict translator).  Router "
           "operations, field accessors and `compute_impacts` are parameters; the input struct is passed field by field (`in*`).", ""]
    out += function("from_impact_project", "genFromImpactProject", "`ImpactOutput::from_impact_project`")
    out += function("create_result", "genImpactCreateResult", "`ImpactOutput::create_result`")
    out += function("compute_impacts", "genComputeImpactsHead",
                    "`ImpactOutput::compute_impacts`: its first statement; `impactLoop` = everything after it", head_only=True)
    return out[:-1]
