"""W34 — the two cache LOOPS translated from the source (C12): `Router::cache` (src/router/mod.rs) and `RegexTreeMap::cache`
(src/regex_radix_tree/tree.rs; `UniqueRegexTreeMap::cache` must be the plain delegation `self.tree.cache(limit, level)`, checked).

Own small lexer + recursive-descent parser + TYPED translation in continuation-passing style (does not load w4_translate.py: that
core has no `while`, no `as` casts, no `break`).  Subset (anything else FAILS CLOSED with file:line and the source line):
 statements  `let [mut] x = e;`  `x = e;`  `x += <lit>;` (counters)  `x -= e;` (i64 only)  `if c { .. }` (no else)  `if let Some(x) = o { return e; }`
             `break;`  `while c { .. }`  `for x in self.routes.values() { .. }`  trailing expression
 expressions identifiers, decimal literals, `a > b` `a <= b` `a == b` `a / lit`, `e as i64` (from u64/usize), `e as u64` (from i64),
             `e.clamp(lit, lit)` (lit1 <= lit2 checked, else fail: Rust panics), `match o { Some(x) => e, None => e }`, the callees below.
 loops       `while` -> a function with EXPLICIT FUEL over (mutated self component, every `let mut` in scope, in declaration order); result
             carries `fuelOut : Bool` (true = fuel exhausted, i.e. non-termination is representable); `break` = exit with the current
             values; `if c {A}; rest` is translated as `if c then [A; rest] else [rest]` (statements after `break` in a block fail closed).
             `for` -> structural recursion over the iterated list.
 integers    u64/usize/counter -> Nat, i64 -> Int.  `as i64` -> `genAsI64` (two's complement wrap of the low 64 bits), `as u64` -> `genI64AsU64`
             (`x mod 2^64`), both generated here.  `+= 1` on counters and `-=` on i64 are unbounded (a wrap needs 2^63 iterations / budget units:
             stated in the notes, not proved).
ABSTRACT PARAMETERS (callees not translated, passed as function arguments):
 `matcherCache : Nat -> Nat -> mu -> mu x Nat`            = `self.matcher.cache(limit, level)` (mutates self.matcher, returns u64)
 `routesLen : Nat`                                          = `self.routes.len()`
 `routeCompile : alpha -> sigma -> sigma x Nat`             = `route.compile()` (interior mutability: the store of cells is threaded)
 `rootCache : Nat -> Nat -> Nat -> tau -> Option (tau x Nat)` = `self.root.cache(left, level, current)` = Item::cache (translated by tr_w20; `none` = u64 underflow panic)
"""
import re

TOK = re.compile(r"\s*(?:(//[^\n]*)|([A-Za-z_][A-Za-z0-9_]*)|([0-9][0-9_]*)|(==|<=|>=|=>|\+=|-=|&mut|[{}()\[\];,.=<>+\-/&:]))")

def extract(read, fail, lean_str, lean_list):
    def body_of(rel, impl_pat, sig_pat):
        src = read(rel)
        mi = re.search(impl_pat, src)
        if not mi: fail("%s: impl `%s` not found" % (rel, impl_pat))
        ms = re.compile(sig_pat).search(src, mi.end())
        if not ms: fail("%s: signature `%s` not found" % (rel, sig_pat))
        nxt = re.compile(r"\nimpl\b").search(src, mi.end())
        if nxt and nxt.start() < ms.start(): fail("%s: `%s` not inside `%s`" % (rel, sig_pat, impl_pat))
        i = ms.end(); assert src[i - 1] == "{"
        depth, j = 1, i
        while depth:
            if src[j] == "{": depth += 1
            elif src[j] == "}": depth -= 1
            j += 1
        return rel, src, i, j - 1

    def lex(rel, src, a, b):
        toks, pos = [], a
        while True:
            m = TOK.match(src, pos, b)
            if not m:
                if src[pos:b].strip() == "": break
                ln = src.count("\n", 0, pos) + 1
                fail("%s:%d: cannot tokenise: %s" % (rel, ln, src.split("\n")[ln - 1].strip()))
            pos = m.end()
            if m.group(1): continue
            ln = src.count("\n", 0, m.start(m.lastindex)) + 1
            kind = "id" if m.group(2) else "num" if m.group(3) else "op"
            toks.append((kind, m.group(m.lastindex), ln))
        return toks

    class P:
        def __init__(s, rel, src, a, b): s.rel, s.lines, s.t, s.i = rel, src.split("\n"), lex(rel, src, a, b), 0
        def bad(s, why, ln=None):
            ln = ln or (s.t[min(s.i, len(s.t) - 1)][2])
            fail("%s:%d: %s: %s" % (s.rel, ln, why, s.lines[ln - 1].strip()))
        def peek(s, k=0): return s.t[s.i + k][1] if s.i + k < len(s.t) else None
        def ln(s): return s.t[min(s.i, len(s.t) - 1)][2]
        def eat(s, v=None):
            if s.i >= len(s.t) or (v is not None and s.t[s.i][1] != v): s.bad("expected `%s`" % v)
            s.i += 1; return s.t[s.i - 1]
        def ident(s):
            if s.i >= len(s.t) or s.t[s.i][0] != "id": s.bad("identifier expected")
            return s.eat()[1]
        def block(s):
            s.eat("{"); out = []
            while s.peek() != "}": out.append(s.stmt())
            s.eat("}"); return out
        def stmts_to_end(s):
            out = []
            while s.i < len(s.t): out.append(s.stmt())
            return out
        def stmt(s):
            ln, p = s.ln(), s.peek()
            if p == "let":
                s.eat(); mut = s.peek() == "mut"
                if mut: s.eat()
                x = s.ident(); s.eat("="); e = s.expr(); s.eat(";"); return ("let", ln, mut, x, e)
            if p == "break": s.eat(); s.eat(";"); return ("break", ln)
            if p == "return": s.eat(); e = s.expr(); s.eat(";"); return ("return", ln, e)
            if p == "while": s.eat(); c = s.expr(); return ("while", ln, c, s.block())
            if p == "for":
                s.eat(); x = s.ident(); s.eat("in"); e = s.expr(); return ("for", ln, x, e, s.block())
            if p == "if":
                s.eat()
                if s.peek() == "let":
                    s.eat(); s.eat("Some"); s.eat("("); x = s.ident(); s.eat(")"); s.eat("="); o = s.ident(); b = s.block()
                    if s.peek() == "else": s.bad("`else` not translated")
                    return ("iflet", ln, x, o, b)
                c = s.expr(); b = s.block()
                if s.peek() == "else": s.bad("`else` not translated")
                return ("if", ln, c, b)
            e = s.expr()
            if s.peek() in ("=", "+=", "-="):
                if e[0] != "var": s.bad("assignment target not a local", ln)
                op = s.eat()[1]; r = s.expr(); s.eat(";"); return ("asg", ln, op, e[2], r)
            if s.i >= len(s.t) or s.peek() == "}": return ("tail", ln, e)
            s.bad("statement form not translated", ln)
        def expr(s):
            ln = s.ln(); a = s.arith()
            if s.peek() in (">", "<=", "=="):
                op = s.eat()[1]; b = s.arith(); return ("cmp", ln, op, a, b)
            if s.peek() in ("<", ">=", "!=", "&&", "||"): s.bad("operator not translated")
            return a
        def arith(s):
            ln = s.ln(); a = s.cast()
            while s.peek() == "/":
                s.eat(); b = s.cast(); a = ("div", ln, a, b)
            if s.peek() in ("+", "-", "*", "%"): s.bad("operator not translated")
            return a
        def cast(s):
            ln = s.ln(); a = s.postfix()
            while s.peek() == "as":
                s.eat(); a = ("as", ln, a, s.ident())
            return a
        def postfix(s):
            ln = s.ln(); a = s.atom()
            while s.peek() == ".":
                s.eat(); f = s.ident()
                if s.peek() == "(":
                    s.eat(); args = []
                    while s.peek() != ")":
                        args.append(s.expr())
                        if s.peek() == ",": s.eat()
                    s.eat(")"); a = ("call", ln, a, f, args)
                else: a = ("field", ln, a, f)
            return a
        def atom(s):
            ln, p = s.ln(), s.peek()
            if p == "(": s.eat(); e = s.expr(); s.eat(")"); return e
            if p == "match":
                s.eat(); o = s.ident(); s.eat("{"); s.eat("Some"); s.eat("("); x = s.ident(); s.eat(")"); s.eat("=>"); e1 = s.expr(); s.eat(",")
                s.eat("None"); s.eat("=>"); e2 = s.expr()
                if s.peek() == ",": s.eat()
                s.eat("}"); return ("matchopt", ln, o, x, e1, e2)
            if s.i < len(s.t) and s.t[s.i][0] == "num": return ("num", ln, int(s.eat()[1].replace("_", "")))
            if s.i < len(s.t) and s.t[s.i][0] == "id" and p not in ("if", "loop", "unsafe", "move"): return ("var", ln, s.ident())
            s.bad("expression form not translated")

    # callees: (receiver path, method, arity) -> (param, argument types, result type, mutated self component or None, may panic)
    CALLEES = {("self.matcher", "cache", 2): ("matcherCache", ["u64", "u64"], "u64", "matcher", False),
               ("self.root", "cache", 3): ("rootCache", ["u64", "u64", "u64"], "u64", "root", True),
               ("route", "compile", 0): ("routeCompile", [], "u64", "store", False)}
    NAT = ("u64", "usize", "ctr")

    class T:
        """CPS translation of one function body."""
        def __init__(s, p, env, panics): s.p, s.env, s.panics, s.defs, s.n = p, dict(env), panics, [], 0
        def path(s, e):
            if e[0] == "var": return e[2]
            if e[0] == "field": return s.path(e[2]) + "." + e[3]
            s.p.bad("receiver not translated", e[1])
        def ex(s, e, env):
            """-> (prefix, value, type, env'); prefix is Lean text to put in front of the continuation (hoisted mutating calls)"""
            k = e[0]
            if k == "num": return "", str(e[2]), "lit", env
            if k == "var":
                if e[2] not in env: s.p.bad("unknown identifier `%s`" % e[2], e[1])
                return "", e[2], env[e[2]], env
            if k == "as":
                pre, v, t, env = s.ex(e[2], env)
                if e[3] == "i64" and t in ("u64", "usize"): return pre, "(genAsI64 %s)" % v, "i64", env
                if e[3] == "u64" and t == "i64": return pre, "(genI64AsU64 %s)" % v, "u64", env
                s.p.bad("cast `%s as %s` not translated" % (t, e[3]), e[1])
            if k == "div":
                pre, v, t, env = s.ex(e[2], env)
                if t not in ("u64", "usize") or e[3][0] != "num" or e[3][2] == 0: s.p.bad("division form not translated", e[1])
                return pre, "(%s / %d)" % (v, e[3][2]), t, env
            if k == "cmp":
                pa, a, ta, env = s.ex(e[3], env); pb, b, tb, env = s.ex(e[4], env)
                if pa or pb: s.p.bad("mutating call inside a comparison", e[1])
                if not (ta == tb or tb == "lit" or ta == "lit") or ta == tb == "lit": s.p.bad("comparison of `%s` with `%s`" % (ta, tb), e[1])
                return "", "(%s %s %s)" % (a, {">": ">", "<=": "≤", "==": "="}[e[2]], b), "bool", env
            if k == "matchopt":
                if env.get(e[2]) != "opt_u64": s.p.bad("`match` scrutinee not an Option<u64> parameter", e[1])
                env1 = dict(env); env1[e[3]] = "u64"
                p1, v1, t1, _ = s.ex(e[4], env1); p2, v2, t2, _ = s.ex(e[5], env)
                if p1 or p2 or t1 != t2: s.p.bad("`match` arms not translated", e[1])
                return "", "(match %s with | some %s => %s | none => %s)" % (e[2], e[3], v1, v2), t1, env
            if k == "call":
                if e[3] == "clamp":
                    pre, v, t, env = s.ex(e[2], env)
                    if t not in ("u64", "usize") or len(e[4]) != 2 or any(a[0] != "num" for a in e[4]) or e[4][0][2] > e[4][1][2]:
                        s.p.bad("`clamp` form not translated (literal bounds lo <= hi on an unsigned value only)", e[1])
                    return pre, "(max %d (min %d %s))" % (e[4][0][2], e[4][1][2], v), t, env
                if e[3] == "len" and not e[4] and s.path(e[2]) == "self.routes": return "", "routesLen", "usize", env
                key = (s.path(e[2]), e[3], len(e[4]))
                if key not in CALLEES: s.p.bad("callee `%s.%s/%d` not translated" % key, e[1])
                par, ats, rt, comp, panic = CALLEES[key]
                if key[0] == "route" and env.get("route") != "route": s.p.bad("`route` is not the loop variable", e[1])
                args = []
                for a, at in zip(e[4], ats):
                    pa, v, t, env = s.ex(a, env)
                    if pa: s.p.bad("nested mutating call", e[1])
                    if not (t == at or t == "lit" or (t == "ctr" and at == "u64")): s.p.bad("argument type `%s` for `%s`" % (t, at), e[1])
                    args.append(v)
                if key[0] == "route": args.append("route")
                s.n += 1; r = "r%d__" % s.n
                call = "%s %s" % (par, " ".join(args + [comp])) if args else "%s %s" % (par, comp)
                if panic:
                    if not s.panics: s.p.bad("panicking callee in a total context", e[1])
                    pre = "match %s with | none => none | some %s => let %s := %s.1; " % (call, r, comp, r)
                else: pre = "let %s := %s; let %s := %s.1; " % (r, call, comp, r)
                return pre, "%s.2" % r, rt, env
            s.p.bad("expression form not translated", e[1])
        def seq(s, stmts, env, ctx):
            """ctx = dict(end=fn(env)->lean, brk=fn(env)->lean or None, ret=fn(value)->lean or None)"""
            if not stmts: return ctx["end"](env)
            st, rest = stmts[0], stmts[1:]
            k, ln = st[0], st[1]
            if k == "let":
                pre, v, t, env = s.ex(st[4], env)
                if st[3] in env: s.p.bad("shadowing not translated", ln)
                if t == "lit":
                    if not st[2] : s.p.bad("immutable literal binding not translated", ln)
                    t = "ctr"
                env = dict(env); env[st[3]] = t
                return "%slet %s : %s := %s; %s" % (pre, st[3], "Int" if t == "i64" else "Nat", v, s.seq(rest, env, ctx))
            if k == "asg":
                x, op = st[3], st[2]
                if x not in env or x not in ctx["muts"]: s.p.bad("assignment to a non-`mut` local", ln)
                pre, v, t, env = s.ex(st[4], env)
                tx = env[x]
                if op == "+=":
                    if tx != "ctr" or st[4][0] != "num": s.p.bad("`+=` only on literal-initialised counters with a literal", ln)
                    rhs = "%s + %s" % (x, v)
                elif op == "-=":
                    if tx != "i64" or t != "i64": s.p.bad("`-=` only i64 -= i64 (unsigned `-=` can underflow)", ln)
                    rhs = "%s - %s" % (x, v)
                else:
                    if t != tx: s.p.bad("assignment `%s = %s`" % (tx, t), ln)
                    rhs = v
                return "%slet %s : %s := %s; %s" % (pre, x, "Int" if tx == "i64" else "Nat", rhs, s.seq(rest, env, ctx))
            if k == "break":
                if rest or ctx.get("brk") is None: s.p.bad("`break` here not translated (dead code after it, or no enclosing loop)", ln)
                return ctx["brk"](env)
            if k == "if":
                pre, c, t, env = s.ex(st[2], env)
                if t != "bool": s.p.bad("condition not a comparison", ln)
                for b in st[3]:
                    if b[0] == "let": s.p.bad("`let` inside `if` followed by code (scoping) not translated", b[1])
                for b in st[3][:-1]:
                    if b[0] == "break": s.p.bad("statements after `break` in a block", b[1])
                inner = st[3] if (st[3] and st[3][-1][0] == "break") else st[3] + rest
                return "if %s then (%s) else (%s)" % (c, s.seq(inner, env, ctx), s.seq(rest, env, ctx))
            s.p.bad("statement form not translated here", ln)

    lines = ["-- section tr_w34_cacheloops: Router::cache (src/router/mod.rs) and RegexTreeMap::cache (src/regex_radix_tree/tree.rs)",
             "/-- `x as i64` for an unsigned 64-bit `x`: two's complement reading of the low 64 bits. -/",
             "def genAsI64 (n : Nat) : Int := if n % 2 ^ 64 < 2 ^ 63 then ((n % 2 ^ 64 : Nat) : Int) else ((n % 2 ^ 64 : Nat) : Int) - 2 ^ 64",
             "/-- `x as u64` for an `i64` `x`. -/",
             "def genI64AsU64 (i : Int) : Nat := (i % 2 ^ 64).toNat"]

    # ---------------- Router::cache
    rel, src, a, b = body_of("src/router/mod.rs", r"\nimpl<T> Router<T>\s*\{", r"pub fn cache\(&mut self, limit: Option<u64>\)\s*\{")
    p = P(rel, src, a, b); body = p.stmts_to_end()
    if len(body) != 5 or [x[0] for x in body] != ["let", "let", "let", "while", "if"]:
        p.bad("Router::cache: statement sequence changed (expected let; let; let; while; if)", body[0][1] if body else None)
    t = T(p, {"limit": "opt_u64"}, False)
    env = {"limit": "opt_u64"}; inits = []
    for st in body[:3]:
        if not st[2]: p.bad("expected `let mut`", st[1])
        pre, v, ty, env = t.ex(st[4], env)
        if pre: p.bad("mutating call in initialiser", st[1])
        if ty == "lit": ty = "ctr"
        env = dict(env); env[st[3]] = ty; inits.append((st[3], ty, v))
    if [i[1] for i in inits] != ["i64", "ctr", "ctr"]: p.bad("initialiser types changed", body[0][1])
    muts = [i[0] for i in inits]
    lines += ["/-- initial values of the `let mut`s of `Router::cache`, in declaration order -/",
              "def genRouterCacheInit (limit : Option Nat) (routesLen : Nat) : Int × Nat × Nat := (%s)" % ", ".join(i[2] for i in inits)]
    w = body[3]
    pre, c, ty, _ = t.ex(w[2], env)
    if ty != "bool": p.bad("loop condition", w[1])
    tup = lambda e, flag: "(matcher, %s, %s)" % (", ".join(muts), flag)
    ctx = {"muts": muts, "end": lambda e: "genRouterCacheLoop matcherCache fuel matcher %s" % " ".join(muts), "brk": lambda e: tup(e, "false")}
    lines += ["/-- the `while` loop of `Router::cache`; result (matcher, " + ", ".join(muts) + ", fuelOut) -/",
              "def genRouterCacheLoop {μ : Type} (matcherCache : Nat → Nat → μ → μ × Nat) : Nat → μ → Int → Nat → Nat → μ × Int × Nat × Nat × Bool",
              "  | 0, matcher, %s => %s" % (", ".join(muts), tup(env, "true")),
              "  | fuel + 1, matcher, %s => if %s then (%s) else %s" % (", ".join(muts), c, t.seq(w[3], env, ctx), tup(env, "false"))]
    # tail: if prev > 0 { for route in self.routes.values() { .. } }
    tl = body[4]
    if tl[0] != "if" or len(tl[3]) != 1 or tl[3][0][0] != "for": p.bad("tail of Router::cache changed", tl[1])
    _, tc, ty, _ = t.ex(tl[2], env)
    f = tl[3][0]
    if not (f[3][0] == "call" and f[3][3] == "values" and not f[3][4] and t.path(f[3][2]) == "self.routes"): p.bad("iterated collection not `self.routes.values()`", f[1])
    if f[2] != "route": p.bad("loop variable must be `route` (callee table)", f[1])
    x = muts[0]
    fenv = {x: "i64", "route": "route"}
    fctx = {"muts": [x], "end": lambda e: "genRouterCacheRoutes routeCompile rest__ store %s" % x, "brk": lambda e: "(store, %s)" % x}
    lines += ["/-- the `for route in self.routes.values()` loop of `Router::cache` (entered under the translated guard, see genRouterCacheTail) -/",
              "def genRouterCacheRoutes {α σ : Type} (routeCompile : α → σ → σ × Nat) : List α → σ → Int → σ × Int",
              "  | [], store, %s => (store, %s)" % (x, x),
              "  | route :: rest__, store, %s => %s" % (x, t.seq(f[4], fenv, fctx)),
              "def genRouterCacheTail {α σ : Type} (routeCompile : α → σ → σ × Nat) (routes : List α) (store : σ) (%s : Int) : σ × Int :=" % x,
              "  if %s then genRouterCacheRoutes routeCompile routes store %s else (store, %s)" % (tc, x, x)]

    # ---------------- RegexTreeMap::cache
    rel, src, a, b = body_of("src/regex_radix_tree/tree.rs", r"\nimpl<V> RegexTreeMap<V>\s*\{", r"pub fn cache\(&mut self, limit: u64, level: Option<u64>\) -> u64\s*\{")
    p = P(rel, src, a, b); body = p.stmts_to_end()
    if [x[0] for x in body] != ["let", "iflet", "let", "while", "tail"]:
        p.bad("RegexTreeMap::cache: statement sequence changed (expected let; if let; let; while; tail)", body[0][1] if body else None)
    t = T(p, {}, True)
    env = {"limit": "u64", "level": "opt_u64"}
    l0, il, l1, w, tail = body
    if not l0[2] or l0[4] != ("var", l0[1], "limit"): p.bad("first statement must be `let mut left = limit;`", l0[1])
    left = l0[3]; env[left] = "u64"
    if il[3] != "level" or len(il[4]) != 1 or il[4][0][0] != "return": p.bad("`if let Some(..) = level { return ..; }` changed", il[1])
    env1 = dict(env); env1[il[2]] = "u64"
    pre, v, ty, _ = t.ex(il[4][0][2], env1)
    if ty != "u64" or not pre: p.bad("returned expression", il[1])
    some_arm = "%ssome (root, %s)" % (pre, v)
    if not l1[2] or l1[4][0] != "num": p.bad("`let mut <level> = <lit>;` expected", l1[1])
    lv = l1[3]; env[lv] = "ctr"
    if tail[2] != ("var", tail[1], left): p.bad("returned value must be the budget variable", tail[1])
    muts = [left, lv]
    _, c, ty, _ = t.ex(w[2], env)
    ctx = {"muts": muts, "end": lambda e: "genTreeCacheLoop rootCache fuel root %s %s" % (left, lv), "brk": lambda e: "some (root, %s, %s, false)" % (left, lv)}
    lines += ["/-- the `while left > 0` loop of `RegexTreeMap::cache`; `none` = the callee panicked (u64 underflow), else (root, left, level, fuelOut) -/",
              "def genTreeCacheLoop {τ : Type} (rootCache : Nat → Nat → Nat → τ → Option (τ × Nat)) : Nat → τ → Nat → Nat → Option (τ × Nat × Nat × Bool)",
              "  | 0, root, %s, %s => some (root, %s, %s, true)" % (left, lv, left, lv),
              "  | fuel + 1, root, %s, %s => if %s then (%s) else some (root, %s, %s, false)" % (left, lv, c, t.seq(w[3], env, ctx), left, lv),
              "/-- `RegexTreeMap::cache(limit, level)` with the loop's fuel explicit: `none` = panic, else (root, returned budget, fuelOut) -/",
              "def genTreeCache {τ : Type} (rootCache : Nat → Nat → Nat → τ → Option (τ × Nat)) (fuel : Nat) (root : τ) (limit : Nat) (level : Option Nat) : Option (τ × Nat × Bool) :=",
              "  let %s : Nat := limit; match level with | some %s => Option.map (fun (r : τ × Nat) => (r.1, r.2, false)) (%s) | none => let %s : Nat := %s; Option.map (fun (r : τ × Nat × Nat × Bool) => (r.1, r.2.1, r.2.2.2)) (genTreeCacheLoop rootCache fuel root %s %s)"
              % (left, il[2], some_arm, lv, l1[4][2], left, lv)]
    # UniqueRegexTreeMap::cache must be the plain delegation
    rel, src, a, b = body_of("src/regex_radix_tree/tree.rs", r"\nimpl<V> UniqueRegexTreeMap<V>\s*\{", r"pub fn cache\(&mut self, limit: u64, level: Option<u64>\) -> u64\s*\{")
    if "".join(src[a:b].split()) != "self.tree.cache(limit,level)":
        fail("%s:%d: UniqueRegexTreeMap::cache is not the delegation `self.tree.cache(limit, level)`: %s" % (rel, src.count("\n", 0, a) + 2, src[a:b].strip()))
    lines.append("def genUniqueTreeCacheDelegates : Bool := true")
    return lines
