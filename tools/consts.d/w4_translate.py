"""W4c: a small Rust -> Lean translator for a WHITELISTED statement / expression subset.

The bodies of the simplest modelled functions are re-translated from /repo/src on every run into Lean
DEFINITIONS (namespace Rio.Consts); proof files then show `generated = hand-written model`
(Proofs/HeaderGen.lean, Proofs/TextGen.lean, Proofs/ScanGen.lean) and the property theorems are restated for
the generated definitions (Props/C13gen.lean, C03gen.lean, C08gen.lean).  A source change that alters
behaviour therefore changes the generated text and breaks a proof; anything outside the subset FAILS CLOSED
with the offending source line.

Translated:
  src/filter/header_action/header_{add,remove,replace,override,default}.rs   `filter`
        -> genHeaderAdd / Remove / Replace / Override / Default
           (lower : String -> String) (name value : String) (headers : List (String x String)) : List (String x String)
           (a `Header` is the pair (name, value); Generated/Consts.lean cannot import Model/Header.lean)
  src/filter/text_filter_body.rs   `filter` (one definition per arm of `match self.action`) and `end`
        -> genTextFilterReplace / Append / Prepend (content : List Nat) (executed : Bool) (data : List Nat) : Bool x List Nat
           genTextEnd (content : List Nat) (executed : Bool) : Bool x List Nat        (new `executed`, returned bytes)
  src/regex_radix_tree/prefix.rs   `common_prefix_char_size` (a `loop` with `next_char_or_return!`)
        -> genCommonPrefixCharSize (left right : List Char) : Nat

  src/router/route_time.rs, route_datetime.rs, route_weekday.rs   `match_datetime`;  route_ip.rs `match_ip` (one def per arm)
        -> genRouteTimeMatch / genRouteDateTimeMatch (start stop : Option Nat) (timeOfDay | instant : Nat) : Bool
           genRouteWeekdayMatch {α} [BEq α] (weekdays : List α) (weekday : α) : Bool
           genRouteIpMatchInRange / NotInRange {κ β} (contains : κ → β → Bool) (range : κ) (ip : β) : Bool
  src/action/mod.rs   `get_status_code`, `get_final_status_code_with_fallback`, `should_log_request`
        -> genActionGetStatusCode / genActionShouldLogRequest {σ ι} (subGet ..) (insert : List ι → ι → List ι) .. : _ × List ι
           genActionGetFinalStatusCode {α} (getStatusCode : α → Nat → Nat × α) (st : α) (c fallback : Nat) : (Nat × Nat) × α
  (proofs: Proofs/TimeGen.lean, Proofs/ActionGen.lean; restated theorems: Props/C01gen.lean, Props/C05gen.lean)

Added for these targets: `match OPTION { None => .., Some(x) => .. }` in tail position (nested; arms as blocks or
expressions; emitted `none` first), `if let Some(x) = OPTION { .. }` that assigns modelled state, `let (a, b[, c]) =
recv.known_call(..)`, `let x = self.known_call(args, <unit trace>)` (threads the `&mut self` state), tuples, `Some(E)`,
`None`, `<` `>` `<=` `>=`, `.0`, `.as_ref()`, `.unwrap_or(E)`, `.contains(E)` on lists / known receivers,
`self.set.insert(E)`, per-function ABSTRACT expressions (`datetime.naive_utc().time()` is a parameter), argument names
captured from the signature (free), unit-trace blocks compared modulo the function's locals and their own binders.

The subset (everything else is an error):
  statements   let [mut] x = E;   x = E;   x += n;   x -= n;   x.push(E);   x.extend(E);   break;   return E;
               for x in [&]xs { .. }          (xs a list-typed variable; translated to a recursive definition)
               loop { .. }                    (last statement of the function; recursion on the first iterator
                                               consumed by `next_char_or_return!`)
               let x = next_char_or_return!(it, E);
               if C { .. } [else if C { .. }]* [else { .. }]      (also as the tail expression)
               match self.action { Enum::Variant => { .. } .. }   (top level only: one definition per arm)
               the unit-trace side-effect blocks, which must have EXACTLY one of the known shapes and are
               then skipped (they only touch the trace object)
  expressions  variables, `self.field` (per-function table), `x.name` / `x.value` of a header, literals
               (true, false, integers, chars), `Vec::new()`, `Header { name: E, value: E }`,
               `.clone()`, `.to_lowercase()`, `&E`, `!E`, `E == E`, `E != E`, `E && E`, `E || E`, parentheses.
Mutable variables become shadowing `let`s; an `if` whose branches neither `break` nor `return` returns the
tuple of the variables it assigns; otherwise the continuation is duplicated into the branches.
"""
import re

# ------------------------------------------------------------------------------------------------
# lexer
# ------------------------------------------------------------------------------------------------

_TOKEN = re.compile(r"""
    (?P<ws>\s+) |
    (?P<comment>//[^\n]*) |
    (?P<char>'(?:\\.|[^'\\])') |
    (?P<str>"(?:\\.|[^"\\])*") |
    (?P<num>\d+) |
    (?P<macro>[A-Za-z_][A-Za-z0-9_]*!) |
    (?P<id>[A-Za-z_][A-Za-z0-9_]*) |
    (?P<op>::|->|=>|==|!=|<=|>=|&&|\|\||\+=|-=|[!.,;:(){}\[\]&=<>*|+-])
""", re.X)


class _Tok:
    def __init__(self, kind, text, line):
        self.kind, self.text, self.line = kind, text, line

    def __repr__(self):
        return f"{self.kind}:{self.text}@{self.line}"


class _Fail(Exception):
    pass


def _lex(src, first_line, where):
    toks, pos, line = [], 0, first_line
    while pos < len(src):
        m = _TOKEN.match(src, pos)
        if not m:
            raise _Fail(f"{where}:{line}: character not in the subset: {src[pos:pos + 20]!r}")
        kind = m.lastgroup
        text = m.group(0)
        if kind not in ("ws", "comment"):
            toks.append(_Tok(kind, text, line))
        line += text.count("\n")
        pos = m.end()
    return toks


# ------------------------------------------------------------------------------------------------
# parser (statements and expressions of the subset)
# ------------------------------------------------------------------------------------------------

class _Parser:
    def __init__(self, toks, where, lines):
        self.t, self.i, self.where, self.lines = toks, 0, where, lines

    def fail(self, msg, tok=None):
        tok = tok or (self.t[self.i] if self.i < len(self.t) else self.t[-1])
        text = self.lines.get(tok.line, "").strip()
        raise _Fail(f"{self.where}:{tok.line}: {msg}: `{text}`")

    def peek(self, k=0):
        return self.t[self.i + k] if self.i + k < len(self.t) else _Tok("eof", "", self.t[-1].line if self.t else 0)

    def at(self, text, k=0):
        return self.peek(k).text == text

    def eat(self, text):
        if not self.at(text):
            self.fail(f"expected `{text}`, found `{self.peek().text}`")
        self.i += 1
        return self.t[self.i - 1]

    def ident(self):
        tok = self.peek()
        if tok.kind != "id":
            self.fail(f"expected an identifier, found `{tok.text}`")
        self.i += 1
        return tok.text

    # ---- blocks and statements
    def block(self):
        """`{ stmts [tail] }` -> (stmts, tail expression or None)"""
        self.eat("{")
        stmts, tail = [], None
        while not self.at("}"):
            st = self.statement()
            if st[0] == "tail":
                if not self.at("}"):
                    self.fail("expression without `;` in the middle of a block")
                tail = st[1]
            else:
                stmts.append(st)
        self.eat("}")
        return stmts, tail

    def raw_until_block_end(self):
        """text of a balanced `{ .. }` (used for the unit-trace blocks, compared with the known shapes)"""
        depth, out = 0, []
        while True:
            tok = self.peek()
            if tok.kind == "eof":
                self.fail("unbalanced braces")
            out.append(tok.text)
            self.i += 1
            if tok.text == "{":
                depth += 1
            elif tok.text == "}":
                depth -= 1
                if depth == 0:
                    return " ".join(out)

    def statement(self):
        tok = self.peek()
        line = tok.line
        if self.at("let"):
            self.eat("let")
            mutable = False
            if self.at("mut"):
                self.eat("mut")
                mutable = True
            if self.at("("):
                self.eat("(")
                names = [self.ident()]
                while self.at(","):
                    self.eat(",")
                    names.append(self.ident())
                self.eat(")")
                self.eat("=")
                e = self.expr()
                self.eat(";")
                return ("lettuple", names, e, line)
            name = self.ident()
            self.eat("=")
            if self.peek().kind == "macro":
                mac = self.peek().text
                self.i += 1
                self.eat("(")
                args = [self.expr()]
                while self.at(","):
                    self.eat(",")
                    args.append(self.expr())
                self.eat(")")
                self.eat(";")
                return ("letmacro", name, mac, args, line)
            e = self.expr()
            self.eat(";")
            return ("let", name, mutable, e, line)
        if self.at("for"):
            self.eat("for")
            if self.at("("):
                self.eat("(")
                names = [self.ident()]
                while self.at(","):
                    self.eat(",")
                    names.append(self.ident())
                self.eat(")")
                var = tuple(names)
            else:
                var = self.ident()
            self.eat("in")
            it = self.expr(no_struct=True)
            body = self.block()
            return ("for", var, it, body, line)
        if self.at("loop"):
            self.eat("loop")
            body = self.block()
            return ("loop", body, line)
        if self.at("break"):
            self.eat("break")
            self.eat(";")
            return ("break", line)
        if self.at("continue"):
            self.eat("continue")
            self.eat(";")
            return ("continue", line)
        if self.at("return"):
            self.eat("return")
            e = self.expr()
            self.eat(";")
            return ("return", e, line)
        if self.at("if") and self.at("let", 1):
            start = self.i
            # `if let Some(x) = EXPR { .. }` is also parsed (used when the block is not a unit-trace block)
            structured = None
            if self.at("Some", 2) and self.at("(", 3) and self.peek(4).kind == "id" and self.at(")", 5) and self.at("=", 6):
                try:
                    self.i += 4
                    var = self.ident()
                    self.eat(")")
                    self.eat("=")
                    scrut = self.expr(no_struct=True)
                    body = self.block()
                    structured = (var, scrut, body)
                except _Fail:
                    structured = None
                self.i = start
            # `if let PATTERN = EXPR { .. }`: kept as text
            while not self.at("{"):
                if self.peek().kind == "eof":
                    self.fail("`if let` without a block")
                self.i += 1
            head = " ".join(t.text for t in self.t[start:self.i])
            body = self.raw_until_block_end()
            if self.at("else"):
                self.fail("`if let .. else` is not in the subset")
            return ("iflet", head + " " + body, line, structured)
        if self.at("if"):
            node = self.if_chain()
            # an `if` at the end of a block is its value iff its branches have values
            if self.at("}") and self._if_has_tail(node):
                return ("tail", node)
            return node
        if self.at("match"):
            node = self.match_node()
            if self.at("}"):
                return ("tail", node)
            return node
        # expression statement / assignment / tail expression
        e = self.expr()
        if self.at("="):
            self.eat("=")
            rhs = self.expr()
            if not self.at("}"):          # `x = match .. { .. }` may end a block without `;`
                self.eat(";")
            return ("assign", e, "=", rhs, line)
        if self.at("+=") or self.at("-="):
            op = self.peek().text
            self.i += 1
            rhs = self.expr()
            self.eat(";")
            return ("assign", e, op, rhs, line)
        if self.at(";"):
            self.eat(";")
            return ("expr", e, line)
        return ("tail", e)

    def match_node(self):
        """`match E { PATH [(x)] => BLOCK | EXPR [,] .. }` -> ("match", scrut, [(path, (stmts, tail), line, binder)], line)"""
        line = self.peek().line
        self.eat("match")
        scrut = self.expr(no_struct=True)
        self.eat("{")
        arms = []
        while not self.at("}"):
            aline = self.peek().line
            path = [self.ident()]
            while self.at("::"):
                self.eat("::")
                path.append(self.ident())
            binder = None
            if self.at("("):
                self.eat("(")
                binder = self.ident()
                self.eat(")")
            self.eat("=>")
            if self.at("{"):
                body = self.block()
            elif self.at("match"):
                body = ([], self.match_node())
            else:
                body = ([], self.expr())
            arms.append(("::".join(path), body, aline, binder))
            if self.at(","):
                self.eat(",")
        self.eat("}")
        return ("match", scrut, arms, line)

    def if_chain(self):
        line = self.peek().line
        self.eat("if")
        cond = self.expr(no_struct=True)
        then = self.block()
        other = None
        if self.at("else"):
            self.eat("else")
            if self.at("if"):
                if self.at("let", 1):
                    self.fail("`else if let` is not in the subset")
                other = ([self.if_chain()], None)
                # normalise: an `else if` chain is an else-block holding one `if`; it may carry the tail
                inner = other[0][0]
                if self._if_has_tail(inner):
                    other = ([], inner)
            else:
                other = self.block()
        return ("if", cond, then, other, line)

    @staticmethod
    def _if_has_tail(node):
        _, _, then, other, _ = node
        return then[1] is not None

    # ---- expressions (precedence: || < && < == != < unary < postfix)
    def expr(self, no_struct=False):
        return self.or_expr(no_struct)

    def or_expr(self, ns):
        e = self.and_expr(ns)
        while self.at("||"):
            line = self.eat("||").line
            e = ("bin", "||", e, self.and_expr(ns), line)
        return e

    def and_expr(self, ns):
        e = self.cmp_expr(ns)
        while self.at("&&"):
            line = self.eat("&&").line
            e = ("bin", "&&", e, self.cmp_expr(ns), line)
        return e

    def cmp_expr(self, ns):
        e = self.add_expr(ns)
        if self.at("==") or self.at("!=") or self.at("<") or self.at(">") or self.at("<=") or self.at(">="):
            op = self.peek()
            self.i += 1
            e = ("bin", op.text, e, self.add_expr(ns), op.line)
        return e

    def add_expr(self, ns):
        e = self.unary(ns)
        while self.at("+") or self.at("-"):
            op = self.peek()
            self.i += 1
            e = ("bin", op.text, e, self.unary(ns), op.line)
        return e

    def unary(self, ns):
        if self.at("!"):
            line = self.eat("!").line
            return ("not", self.unary(ns), line)
        if self.at("&"):
            line = self.eat("&").line
            if self.at("mut"):
                self.fail("`&mut` is not in the subset")
            return ("ref", self.unary(ns), line)
        return self.postfix(ns)

    def postfix(self, ns):
        e = self.primary(ns)
        while self.at(".") or self.at("["):
            if self.at("["):
                line = self.eat("[").line
                idx = self.expr()
                self.eat("]")
                e = ("index", e, idx, line)
                continue
            line = self.eat(".").line
            if self.peek().kind == "num":
                e = ("field", e, self.peek().text, line)
                self.i += 1
                continue
            name = self.ident()
            if self.at("("):
                self.eat("(")
                args = []
                while not self.at(")"):
                    args.append(self.expr())
                    if self.at(","):
                        self.eat(",")
                self.eat(")")
                e = ("call", e, name, args, line)
            else:
                e = ("field", e, name, line)
        return e

    def primary(self, ns):
        tok = self.peek()
        if tok.text == "match":
            return self.match_node()
        if tok.text == "|":
            # closure `|x| EXPR` (argument of `.any` / `.all` / `.find`)
            self.eat("|")
            if self.at("&"):
                self.eat("&")
            var = self.ident()
            if self.at(":"):        # `|r: &Arc<Route<T>>|`: the annotation is skipped
                depth = 0
                while not (self.at("|") and depth == 0):
                    if self.peek().kind == "eof":
                        self.fail("unterminated closure header")
                    if self.at("<"):
                        depth += 1
                    elif self.at(">"):
                        depth -= 1
                    self.i += 1
            self.eat("|")
            body = self.expr()
            return ("closure", var, body, tok.line)
        if tok.text == "(" and self.at(")", 1):
            self.i += 2
            return ("unit", tok.line)
        if tok.text == "(":
            self.eat("(")
            e = self.expr()
            if self.at(","):
                items = [e]
                while self.at(","):
                    self.eat(",")
                    items.append(self.expr())
                self.eat(")")
                return ("tuple", items, tok.line)
            self.eat(")")
            return e
        if tok.kind == "num":
            self.i += 1
            return ("int", int(tok.text), tok.line)
        if tok.kind == "char":
            self.i += 1
            return ("char", tok.text, tok.line)
        if tok.kind == "str":
            self.i += 1
            return ("str", tok.text, tok.line)
        if tok.kind == "id":
            if tok.text in ("true", "false"):
                self.i += 1
                return ("bool", tok.text, tok.line)
            path = [self.ident()]
            while self.at("::"):
                self.eat("::")
                path.append(self.ident())
            if len(path) > 1:
                if self.at("("):
                    self.eat("(")
                    args = []
                    while not self.at(")"):
                        args.append(self.expr())
                        if self.at(","):
                            self.eat(",")
                    self.eat(")")
                    if args:
                        return ("pathcallargs", "::".join(path), args, tok.line)
                    return ("pathcall", "::".join(path), tok.line)
                return ("path", "::".join(path), tok.line)
            if path[0] == "Some" and self.at("("):
                self.eat("(")
                inner = self.expr()
                self.eat(")")
                return ("some", inner, tok.line)
            if self.at("{") and not ns and path[0][0].isupper():
                self.eat("{")
                fields = []
                while not self.at("}"):
                    f = self.ident()
                    self.eat(":")
                    fields.append((f, self.expr()))
                    if self.at(","):
                        self.eat(",")
                self.eat("}")
                return ("struct", path[0], fields, tok.line)
            return ("var", path[0], tok.line)
        self.fail(f"expression form not in the subset (token `{tok.text}`)")


# ------------------------------------------------------------------------------------------------
# translation
# ------------------------------------------------------------------------------------------------

def _camel(name):
    parts = name.split("_")
    return parts[0] + "".join(p.capitalize() for p in parts[1:] if p)


_NORM_WS = re.compile(r"\s+")


def _norm(s):
    return _NORM_WS.sub(" ", s).strip()


# the unit-trace side-effect blocks: exactly these token sequences (after whitespace normalisation)
def _trace_shapes():
    shapes = set()
    for ut in ["unit_trace", "unit_trace . as_deref_mut ( )"]:
        for val in ["& self . value", '""']:
            for fn in ["add_unit_id_with_target", "override_unit_id_with_target"]:
                shapes.add(_norm(
                    f"if let ( Some ( trace ) , Some ( id ) ) = ( {ut} , & self . id ) "
                    f"{{ trace . add_value_computed_by_unit ( id , {val} ) ; "
                    f"if let Some ( target_hash ) = & self . target_hash "
                    f"{{ trace . {fn} ( target_hash , id ) ; }} }}"))
    for fn in ["add_unit_id_with_target", "override_unit_id_with_target"]:
        shapes.add(_norm(
            "if let Some ( trace ) = unit_trace { if let Some ( id ) = self . id . clone ( ) "
            "{ trace . add_value_computed_by_unit ( & id , & self . inner_content ) ; "
            "if let Some ( target_hash ) = self . target_hash . clone ( ) "
            f"{{ trace . {fn} ( target_hash . as_str ( ) , id . as_str ( ) ) ; }} else {{ trace . add_unit_id ( id ) ; }} }} }}"))
    for fn in ["add_unit_id_with_target", "override_unit_id_with_target"]:
        shapes.add(_norm(
            "if let Some ( trace ) = unit_trace { if let Some ( id ) = self . id . clone ( ) "
            f'{{ trace . {fn} ( "text" , id . as_str ( ) ) ; }} }}'))
    return shapes


def _trace_norm(text):
    """a unit-trace block modulo borrow-vs-clone spelling: `&`, `mut`, `.clone()`, `.as_str()`, `.as_ref()`,
    `.as_deref()`, `.as_deref_mut()`, `.to_string()`, `.to_owned()` do not matter for a block that only touches the trace"""
    t = _norm(text)
    for m in ["clone", "as_str", "as_ref", "as_deref_mut", "as_deref", "to_string", "to_owned"]:
        t = t.replace(f". {m} ( )", "")
    t = re.sub(r"(?<![&])&(?![&])", " ", t)
    t = re.sub(r"\bmut\b", " ", t)
    return _norm(t)


def _canon_binders(t):
    """the names bound by `Some ( x )` patterns inside a block are free: x -> _b1, _b2 .. in order of appearance"""
    names = []
    for m in re.finditer(r"Some \( ([A-Za-z_][A-Za-z0-9_]*) \)", t):
        # only binders (in a pattern, i.e. before the `=` of an `if let`): approximated by "not yet seen and followed by a pattern context"
        if m.group(1) not in names:
            names.append(m.group(1))
    for i, n in enumerate(names):
        t = re.sub(r"(?<![A-Za-z0-9_.])" + re.escape(n) + r"(?![A-Za-z0-9_])", f"_b{i + 1}", t)
    return t


def _trace_norm2(text, renames):
    """`_trace_norm`, with the locals of the function replaced by their canonical names and pattern binders canonicalised"""
    parts = re.split(r'("(?:\\.|[^"\\])*")', _norm(text))        # string literals are left alone
    for i in range(0, len(parts), 2):
        for rust, canon in renames.items():
            parts[i] = re.sub(r"(?<![A-Za-z0-9_.])" + re.escape(rust) + r"(?![A-Za-z0-9_])", canon, parts[i])
    return _canon_binders(_trace_norm("".join(parts)))


# the unit-trace blocks of src/action/mod.rs (locals under their canonical names: i1 = the applied rule id, s1 = the
# status_code_update / log_override borrowed from self)
def _action_trace_shapes():
    return [
        "if let Some ( trace ) = unit_trace { trace . rule_ids_applied . insert ( i1 . to_string ( ) ) ; "
        "if let ( Some ( target_hash ) , Some ( unit_id ) ) = ( & s1 . target_hash , & s1 . unit_id ) "
        "{ trace . add_unit_id_with_target ( target_hash . as_str ( ) , unit_id . as_str ( ) ) ; } }",
        "if let ( Some ( trace ) , Some ( unit_id ) ) = ( unit_trace , & s1 . unit_id ) "
        '{ trace . add_unit_id_with_target ( "configuration::log" , unit_id ) ; }',
        "if let ( Some ( trace ) , Some ( unit_id ) ) = ( unit_trace . as_deref_mut ( ) , & o2 ) "
        '{ trace . add_unit_id_with_target ( "configuration::reset" , unit_id . as_str ( ) ) ; }',
        "if let ( Some ( trace ) , Some ( unit_id ) ) = ( unit_trace . as_deref_mut ( ) , & o2 ) "
        '{ trace . add_unit_id_with_target ( "configuration::stop" , unit_id . as_str ( ) ) ; }',
    ]


_TRACE_SHAPES = {_trace_norm(x) for x in _trace_shapes()}
_TRACE_SHAPES2 = {_trace_norm2(x, {}) for x in list(_trace_shapes()) + _action_trace_shapes()}


def _ast_text(e):
    """canonical text of a path of field accesses / method calls (borrows do not matter); `?` for anything else"""
    k = e[0]
    if k == "var":
        return e[1]
    if k == "field":
        return _ast_text(e[1]) + "." + e[2]
    if k == "call":
        return _ast_text(e[1]) + "." + e[2] + "(" + ",".join(_ast_text(a) for a in e[3]) + ")"
    if k == "ref":
        return _ast_text(e[1])
    return "?"


class _Tr:
    """translator of one function body"""

    def __init__(self, cfg, parser):
        self.cfg = cfg                 # dict: name, params [(lean, type)], self_fields {rust: lean}, var_types {rust: type},
        self.p = parser                #       header_vars set, list_vars set, self_out [rust field], result_type
        self.aux = []                  # auxiliary (loop) definitions, in order of appearance
        self.loop_count = 0
        self.scope = {}                # rust variable -> lean name
        self.vtypes = {}               # rust variable (locals, mutable arguments) -> Lean type
        self.decl = []                 # declaration order of the locals
        self.counters = {}
        self.header_vars = set()       # variables bound to a header (loop / closure variables over a header list)
        self.int_vars = set()          # variables that are decremented somewhere: signed
        self.value_depth = 0           # > 0 inside a `match` used as a value: no `return` there
        self.k_continue = None         # inside a `for`: the text of "go on with the next element"
        self.loop_return = False       # inside a `for` whose result is the function's result: `return E` = E
        for rust, lean in cfg.get("args", {}).items():
            self.scope[rust] = lean
        for rust, ty in cfg.get("mutable_args", {}).items():
            self.vtypes[rust] = ty
        for rust, ty in cfg.get("arg_rust_types", {}).items():
            self.vtypes.setdefault(rust, ty)
        for rust, (lean, ty) in cfg.get("pre_scope", {}).items():
            self.scope[rust] = lean
            self.vtypes[rust] = ty
        toks = parser.t
        for i in range(len(toks) - 1):
            if toks[i].kind == "id" and toks[i + 1].text == "-=":
                self.int_vars.add(toks[i].text)

    _PREFIX = {"Bool": "b", "Nat": "n", "Int": "z", "List Char": "cs", "List Nat": "bytes", "Char": "c",
               "List (String × String)": "hs", "String × String": "h",
               "σ": "s", "ι": "i", "κ": "k", "α": "a", "β": "a", "ρ": "r", "φ": "f", "τ": "t", "υ": "u"}

    def fresh(self, ty):
        """canonical Lean name of a new local: the names of the source are free (alpha-renaming changes nothing)"""
        pre = self._PREFIX.get(ty, "o" if ty.startswith("Option ") else "g" if ty.startswith("Gen") else
                               "xs" if ty.startswith("List ") else "v")
        self.counters[pre] = self.counters.get(pre, 0) + 1
        return f"{pre}{self.counters[pre]}"

    @staticmethod
    def opt_inner(ty):
        inner = ty[len("Option "):].strip()
        if inner.startswith("(") and inner.endswith(")"):
            inner = inner[1:-1]
        return inner

    def renames(self):
        """rust local -> canonical name (for the comparison of unit-trace blocks), the trace argument under its usual name"""
        r = {k: v for k, v in self.scope.items() if k in self.vtypes and k not in self.cfg.get("arg_rust_types", {})
             and k not in self.cfg.get("mutable_args", {})}
        if self.cfg.get("trace_arg"):
            r[self.cfg["trace_arg"]] = "unit_trace"
        return r

    def struct_of_type(self, ty):
        for rust, sd in self.cfg.get("structs", {}).items():
            if sd["lean"] == ty:
                return rust, sd
        return None, None

    def abstract_call(self, e):
        if e[0] == "call":
            return self.cfg.get("abstract_calls", {}).get(_ast_text(e[1]) + "." + e[2])
        return None

    def kept_args(self, args):
        return [a for a in args if _ast_text(a) not in self.cfg.get("dropped_args", ())]

    def infer(self, e, name=None):
        k = e[0]
        ab = self.cfg.get("abstract", {}).get(_ast_text(e))
        if ab:
            return ab[1]
        ac = self.abstract_call(e)
        if ac:
            return ac[1]
        if k == "call" and e[2] == "into" and not e[3]:
            return self.infer(e[1], name)
        if k == "field" and not (e[1][0] == "var" and e[1][1] == "self"):
            try:
                bt = self.infer(e[1])
            except _Fail:
                bt = None
            _, sd = self.struct_of_type(bt) if bt else (None, None)
            if sd and e[2] in sd["fields"]:
                return sd["fields"][e[2]][1]
        if k == "some":
            t = self.infer(e[1], name)
            return f"Option ({t})" if " " in t else f"Option {t}"
        if k == "struct" and e[1] in self.cfg.get("structs", {}):
            return self.cfg["structs"][e[1]]["lean"]
        if k == "pathcall" and e[1] in self.cfg.get("path_consts", {}):
            return self.cfg["path_consts"][e[1]][1]
        if k == "pathcallargs" and e[1] in self.cfg.get("path_calls", {}) and len(self.cfg["path_calls"][e[1]][1]) == 1:
            return self.cfg["path_calls"][e[1]][1][0]
        if k == "var" and e[1] == "None" and name and self.cfg.get("none_type"):
            return self.cfg["none_type"]
        if k == "call" and e[2] in ("is_empty",):
            return "Bool"
        if k == "index":
            t = self.infer(e[1], name)
            if t.startswith("List "):
                return self.opt_inner("Option " + t[len("List "):])
        if k == "call" and e[2] == "len" and not e[3]:
            return "Nat"
        if k == "call" and e[2] == "unwrap" and not e[3]:
            t = self.infer(e[1], name)
            if t.startswith("Option "):
                return self.opt_inner(t)
        if k == "bin" and e[1] in ("+", "-"):
            return "Nat"
        if k == "tuple":
            return "tuple"
        if k == "call" and e[2] in ("as_slice", "iter", "into_iter") and not e[3]:
            return self.infer(e[1], name)
        if k == "ref":
            return self.infer(e[1], name)
        if k == "call" and e[2] in ("as_ref", "as_deref", "to_string", "to_owned", "as_str") and not e[3]:
            return self.infer(e[1], name)
        if k == "call" and e[2] == "unwrap_or" and len(e[3]) == 1:
            t = self.infer(e[1], name)
            if t.startswith("Option "):
                return self.opt_inner(t)
        if k == "call" and e[1][0] == "var" and e[1][1] == "self" and e[2] in self.cfg.get("self_calls", {}):
            return self.cfg["self_calls"][e[2]][1]
        if k == "call" and e[2] in self.cfg.get("extern_calls", {}) and len(self.cfg["extern_calls"][e[2]][1]) == 1:
            return self.cfg["extern_calls"][e[2]][1][0]
        if k == "call" and e[2] == "contains":
            return "Bool"
        if k == "pathcall" and e[1] == "Vec::new":
            if "vec_type" not in self.cfg:
                self.fail("`Vec::new()` without a known element type in this function", e[2])
            return self.cfg["vec_type"]
        if k == "bool":
            return "Bool"
        if k == "int":
            return "Int" if name in self.int_vars else "Nat"
        if k == "var" and e[1] in self.header_vars:
            return "String × String"
        if k == "var" and e[1] in self.vtypes:
            return self.vtypes[e[1]]
        if k == "call" and e[2] == "clone":
            return self.infer(e[1], name)
        if k == "field" and e[1][0] == "var" and e[1][1] == "self" and e[2] in self.cfg.get("self_field_types", {}):
            return self.cfg["self_field_types"][e[2]]
        if k == "call" and e[2] in ("any", "all", "is_some", "is_none"):
            return "Bool"
        if k in ("not", "bin"):
            return "Bool"
        self.fail("cannot infer the type of this initialiser", e[-1] if isinstance(e[-1], int) else 0)

    def fail(self, msg, line):
        text = self.p.lines.get(line, "").strip()
        raise _Fail(f"{self.p.where}:{line}: {msg}: `{text}`")

    # ---- expressions
    def expr(self, e):
        k = e[0]
        ab = self.cfg.get("abstract", {}).get(_ast_text(e))
        if ab:
            return ab[0]
        ac = self.abstract_call(e)
        if ac:
            return (f"{ac[0]} " + " ".join(self.atom(a) for a in self.kept_args(e[3]))).strip()
        if k == "call" and e[2] == "into" and not e[3]:
            return self.expr(e[1])
        if k == "unit":
            return "()"
        if k == "var" and e[1] == "None":
            return "none"
        if k == "some":
            return f"some {self.atom(e[1])}"
        if k == "tuple":
            return "(" + ", ".join(self.expr(x) for x in e[1]) + ")"
        if k == "var":
            if e[1] == "self":
                self.fail("bare `self` is not in the subset", e[2])
            if e[1] not in self.scope:
                self.fail(f"unknown variable `{e[1]}`", e[2])
            return self.scope[e[1]]
        if k == "field":
            _, base, name, line = e
            if base[0] == "var" and base[1] == "self":
                if name not in self.cfg["self_fields"]:
                    self.fail(f"`self.{name}` is not a modelled field", line)
                return self.cfg["self_fields"][name]
            try:
                bt = self.infer(base)
            except _Fail:
                bt = None
            _, sd = self.struct_of_type(bt) if bt else (None, None)
            if sd and name in sd["fields"]:
                return f"{self.atom(base)}.{sd['fields'][name][0]}"
            if base[0] == "var" and base[1] in self.header_vars and base[1] in self.scope:
                if name == "name":
                    return self.scope[base[1]] + ".1"
                if name == "value":
                    return self.scope[base[1]] + ".2"
            self.fail(f"field access `.{name}` not in the subset", line)
        if k == "call":
            _, base, name, args, line = e
            if name == "clone" and not args:
                return self.expr(base)
            if name == "to_lowercase" and not args:
                return f"lower {self.atom(base)}"
            if name in ("iter", "into_iter") and not args:
                return self.expr(base)
            if name in ("any", "all", "find") and len(args) == 1 and args[0][0] == "closure":
                _, var, body, cl = args[0]
                lst = base
                while lst[0] == "call" and lst[2] in ("iter", "into_iter", "clone"):
                    lst = lst[1]
                if lst[0] == "ref":
                    lst = lst[1]
                if lst[0] != "var" or not (self.vtypes.get(lst[1]) or "").startswith("List "):
                    self.fail(f"`.{name}(..)` only over a list variable", line)
                saved, saved_h = dict(self.scope), set(self.header_vars)
                elem = self.opt_inner("Option " + self.vtypes[lst[1]][len("List "):])
                lv = self.fresh(elem)
                self.scope[var] = lv
                self.vtypes[var] = elem
                if elem == "String × String":
                    self.header_vars.add(var)
                b = self.expr(body)
                self.scope, self.header_vars = saved, saved_h
                fn = {"any": "any", "all": "all", "find": "find?"}[name]
                return f"{self.scope[lst[1]]}.{fn} (fun {lv} => {b})"
            if name in ("as_ref", "as_deref", "as_slice") and not args:
                return self.expr(base)
            if name == "is_empty" and not args and self.infer(base).startswith("List "):
                return f"{self.atom(base)}.isEmpty"
            if name in ("to_string", "to_owned", "as_str") and not args:
                if self.infer(base) not in ("ι", "List Nat"):
                    self.fail(f"`.{name}()` only on a `String`", line)
                return self.expr(base)
            if name == "len" and not args and self.infer(base).startswith("List "):
                return f"{self.atom(base)}.length"
            if name == "unwrap" and not args:
                t = self.infer(base)
                if t not in self.cfg.get("unwrap_default", {}):
                    self.fail("`.unwrap()` only on an `Option` with a modelled default", line)
                return f"{self.atom(base)}.getD {self.cfg['unwrap_default'][t]}"
            if name == "unwrap_or" and len(args) == 1:
                if not self.infer(base).startswith("Option "):
                    self.fail("`.unwrap_or(..)` only on an `Option`", line)
                return f"{self.atom(base)}.getD {self.atom(args[0])}"
            if name == "contains" and len(args) == 1 and self.infer(base).startswith("List "):
                return f"{self.atom(base)}.contains {self.atom(args[0])}"
            if name in self.cfg.get("extern_calls", {}):
                fn, ret, recv = self.cfg["extern_calls"][name]
                if len(ret) == 1 and self.infer(base) == recv:
                    return (f"{fn} {self.atom(base)} " + " ".join(self.atom(a) for a in self.kept_args(args))).strip()
            if name in ("is_some", "is_none") and not args:
                return f"{self.atom(base)}.{'isSome' if name == 'is_some' else 'isNone'}"
            self.fail(f"method `.{name}(..)` is not in the subset", line)
        if k == "pathcallargs":
            if e[1] in self.cfg.get("path_calls", {}) and len(self.cfg["path_calls"][e[1]][1]) == 1:
                fn, ret, nargs = self.cfg["path_calls"][e[1]]
                for extra in e[2][nargs:]:
                    if _ast_text(extra) not in self.cfg.get("dropped_args", ()):
                        self.fail("extra argument of the call is not one of the arguments the parameter closes over", e[3])
                if len(e[2]) < nargs:
                    self.fail("too few arguments in the call", e[3])
                return f"{fn} " + " ".join(self.atom(a) for a in e[2][:nargs])
            self.fail(f"call `{e[1]}(..)` is not in the subset", e[3])
        if k == "pathcall":
            if e[1] in self.cfg.get("path_consts", {}):
                return self.cfg["path_consts"][e[1]][0]
            if e[1] == "Vec::new":
                return "[]"
            self.fail(f"call `{e[1]}()` is not in the subset", e[2])
        if k == "struct":
            _, name, fields, line = e
            if name in self.cfg.get("structs", {}):
                sd = self.cfg["structs"][name]
                if sorted(f for f, _ in fields) != sorted(sd["fields"]):
                    self.fail(f"`{name} {{ .. }}` does not give exactly the modelled fields", line)
                vals = {f: self.expr(v) for f, v in fields}
                inner = ", ".join(f"{sd['fields'][f][0]} := {vals[f]}" for f in sd["fields"])     # declaration order
                return f"({{ {inner} }} : {sd['lean']})"
            if name != "Header" or [f for f, _ in fields] != ["name", "value"]:
                self.fail("only `Header { name: .., value: .. }` literals are in the subset", line)
            return f"({self.expr(fields[0][1])}, {self.expr(fields[1][1])})"
        if k == "bool":
            return e[1]
        if k == "int":
            return str(e[1])
        if k == "char":
            body = e[1][1:-1]
            table = {"\\\\": "'\\\\'", "(": "'('", ")": "')'", "\\'": "'\\''"}
            if body in table:
                return table[body]
            if len(body) == 1 and body.isprintable() and body not in "\\'":
                return f"'{body}'"
            self.fail(f"char literal {e[1]} is not in the subset", e[2])
        if k == "not":
            return f"!{self.atom(e[1])}"
        if k == "ref":
            return self.expr(e[1])
        if k == "index":
            _, base, idx, line = e
            t = self.infer(base)
            if not t.startswith("List ") or t not in self.cfg.get("index_default", {}):
                self.fail("indexing only into a modelled list with a default", line)
            return f"({self.atom(base)}[{self.expr(idx)}]?).getD {self.cfg['index_default'][t]}"
        if k == "bin" and e[1] in ("+", "-"):
            _, op, a, b, line = e
            if op == "-":
                self.fail("subtraction in an expression is not in the subset", line)
            return f"{self.atom(a)} + {self.atom(b)}"
        if k == "bin":
            _, op, a, b, line = e
            if op in ("==", "!="):
                return f"{self.atom(a)} {op} {self.atom(b)}"
            if op in ("&&", "||"):
                return f"{self.atom(a)} {op} {self.atom(b)}"
            if op in ("<", ">", "<=", ">="):
                lop = {"<": "<", ">": ">", "<=": "≤", ">=": "≥"}[op]
                return f"decide ({self.atom(a)} {lop} {self.atom(b)})"
        self.fail(f"expression form `{k}` is not in the subset", e[-1] if isinstance(e[-1], int) else 0)

    def atom(self, e):
        s = self.expr(e)
        if re.fullmatch(r"[A-Za-z_][A-Za-z0-9_.]*|\d+|'[^']+'|\[\]|true|false", s) and "?" not in s:
            return s
        return f"({s})"

    # ---- statements
    def lvalue(self, e):
        """rust name of an assignable: a local mutable variable or a mutable self field"""
        if e[0] == "var" and e[1] in self.scope and e[1] in self.vtypes and e[1] not in self.cfg.get("arg_rust_types", {}):
            return e[1]
        if e[0] == "field" and e[1][0] == "var" and e[1][1] == "self" and e[2] in self.cfg.get("self_out", []):
            return "self." + e[2]
        self.fail("assignment target is not a mutable variable of the function", e[-1])

    def lean_of(self, rust):
        if rust.startswith("self."):
            return self.cfg["self_fields"][rust[5:]]
        return self.scope[rust]

    def assigned(self, block):
        """rust names assigned in a block (declaration order is imposed by the caller)"""
        stmts, tail = block
        out = []

        def add(x):
            if x not in out:
                out.append(x)

        def walk_stmt(st):
            k = st[0]
            if k == "assign":
                add(self.lvalue(st[1]))
            elif k == "expr":
                e = st[1]
                if e[0] == "call" and e[2] in ("push", "extend", "push_str"):
                    add(self.lvalue(e[1]))
                if e[0] == "call" and e[2] == "insert" and self.cfg.get("set_insert"):
                    add(self.lvalue(e[1]))
                if e[0] == "call" and e[2] in self.cfg.get("mut_calls", {}):
                    add(self.lvalue(e[1]))
            elif k == "iflet":
                if st[3] is not None and _trace_norm2(st[1], self.renames()) not in _TRACE_SHAPES2:
                    walk_block(st[3][2])
            elif k == "let" and st[3][0] == "call" and st[3][1] == ("var", "self", st[3][1][2]) \
                    and st[3][2] in self.cfg.get("self_calls", {}):
                self.fail("a `&mut self` call inside a branch that continues is not in the subset", st[4])
            elif k == "letmacro":
                add(self.lvalue(st[3][0]))
            elif k == "if":
                walk_block(st[2])
                if st[3]:
                    walk_block(st[3])
            elif k == "for":
                walk_block(st[3])
            elif k == "match":
                for arm in st[2]:
                    walk_block(arm[1] if arm[1][1] is None or arm[1][1][0] in ("if",) else (arm[1][0], None))
            elif k == "loop":
                walk_block(st[1])

        def walk_block(b):
            ss, t = b
            local = set()
            for s in ss:
                if s[0] in ("let",):
                    local.add(s[1])
                walk_stmt(s)
            if t is not None and t[0] == "if":
                walk_stmt(t)
            for x in list(out):
                if x in local:
                    out.remove(x)

        walk_block(block)
        return out

    def escapes(self, block):
        """does the block contain `break` or `return` (outside nested loops for `break`)?"""
        stmts, tail = block
        for st in stmts + ([tail] if tail is not None and tail[0] == "if" else []):
            k = st[0]
            if k in ("break", "return", "letmacro", "continue"):
                return True
            if k == "iflet" and st[3] is not None and _trace_norm2(st[1], self.renames()) not in _TRACE_SHAPES2 \
                    and _trace_norm(st[1]) not in _TRACE_SHAPES and self.escapes(st[3][2]):
                return True
            if k == "if":
                if self.escapes(st[2]) or (st[3] and self.escapes(st[3])):
                    return True
        return False

    def order(self, names):
        """tuple order: self fields first (declaration order of cfg), then locals by declaration order"""
        decl = ["self." + f for f in self.cfg.get("self_out", [])] + list(self.cfg.get("mutable_args", {})) + self.decl
        return [n for n in decl if n in names]

    def tuple_of(self, names):
        leans = [self.lean_of(n) for n in names]
        return leans[0] if len(leans) == 1 else "(" + ", ".join(leans) + ")"

    def seq(self, stmts, tail, k_end, k_break, ind):
        """Lean lines for `stmts; tail`, then `k_end()` (a function of the tail value, or of None)"""
        pad = "  " * ind
        if not stmts:
            if tail is not None and tail[0] == "if":
                return self.if_lines(tail, [], None, k_end, k_break, ind, is_tail=True)
            if tail is not None and tail[0] == "match":
                return self.match_lines(tail, k_end, k_break, ind)
            return [pad + k_end(self.expr(tail) if tail is not None else None)]
        st, rest = stmts[0], stmts[1:]
        k = st[0]
        if k == "let" and st[3][0] == "call" and st[3][1][0] == "var" and st[3][1][1] == "self" \
                and st[3][2] in self.cfg.get("self_calls", {}):
            _, name, mutable, e, line = st
            fn, ty, nargs = self.cfg["self_calls"][e[2]]
            args = e[3]
            for extra in args[nargs:]:
                txt = _ast_text(extra[1]) if extra[0] == "some" else _ast_text(extra)
                if txt not in (self.cfg.get("trace_arg"), f"{self.cfg.get('trace_arg')}.as_deref_mut()"):
                    self.fail("extra argument of the `self` call is not the unit trace", line)
            if len(args) < nargs:
                self.fail("too few arguments in the `self` call", line)
            vals = " ".join(self.atom(a) for a in args[:nargs])
            lean = self.fresh(ty)
            self.scope[name] = lean
            self.vtypes[name] = ty
            if name in self.decl:
                self.decl.remove(name)
            self.decl.append(name)
            return [pad + f"let ({lean}, st) := {fn} st {vals}"] + self.seq(rest, tail, k_end, k_break, ind)
        if k == "lettuple":
            _, names, e, line = st
            if e[0] == "pathcallargs" and e[1] in self.cfg.get("path_calls", {}):
                fn, ret, nargs = self.cfg["path_calls"][e[1]]
                for extra in e[2][nargs:]:
                    if _ast_text(extra) not in self.cfg.get("dropped_args", ()):
                        self.fail("extra argument of the call is not one of the arguments the parameter closes over", line)
                if len(ret) != len(names) or len(e[2]) < nargs:
                    self.fail("tuple `let`: arity of the call differs from the modelled one", line)
                call = f"{fn} " + " ".join(self.atom(a) for a in e[2][:nargs])
            else:
                if e[0] != "call" or e[2] not in self.cfg.get("extern_calls", {}):
                    self.fail("tuple `let` only from a known external call", line)
                fn, ret, recv = self.cfg["extern_calls"][e[2]]
                if len(ret) != len(names) or self.infer(e[1]) != recv:
                    self.fail("tuple `let`: arity / receiver of the external call differ from the modelled ones", line)
                call = f"{fn} {self.atom(e[1])} " + " ".join(self.atom(a) for a in e[3])
            leans = []
            for n, ty in zip(names, ret):
                lean = self.fresh(ty)
                self.scope[n] = lean
                self.vtypes[n] = ty
                if n in self.decl:
                    self.decl.remove(n)
                self.decl.append(n)
                leans.append(lean)
            return [pad + f"let ({', '.join(leans)}) := {call}"] + self.seq(rest, tail, k_end, k_break, ind)
        if k == "let":
            _, name, mutable, e, line = st
            val = self.expr(e)
            ty = self.infer(e, name)
            lean = self.fresh(ty)
            self.scope[name] = lean
            self.vtypes[name] = ty
            if ty == "String × String":
                self.header_vars.add(name)
            if name in self.decl:
                self.decl.remove(name)
            self.decl.append(name)
            return [pad + f"let {lean} : {ty} := {val}"] + self.seq(rest, tail, k_end, k_break, ind)
        if k == "letmacro":
            _, name, mac, args, line = st
            if mac != "next_char_or_return!" or len(args) != 2:
                self.fail(f"macro `{mac}` is not in the subset", line)
            it = self.lvalue(args[0])
            if self.vtypes.get(it) != "List Char":
                self.fail("`next_char_or_return!` needs a `.chars()` iterator", line)
            ret = self.expr(args[1])
            cv = self.fresh("Char")
            self.scope[name] = cv
            self.vtypes[name] = "Char"
            itl = self.lean_of(it)
            lines = [pad + f"match {itl} with", pad + f"| [] => {ret}", pad + f"| {cv} :: {itl} =>"]
            return lines + self.seq(rest, tail, k_end, k_break, ind + 1)
        if k == "assign":
            _, lhs, op, rhs, line = st
            x = self.lvalue(lhs)
            xl = self.lean_of(x)
            if op == "=" and rhs[0] == "match":
                self.value_depth += 1
                ml = self.match_lines(rhs, lambda v: v, None, ind + 1)
                self.value_depth -= 1
                return [pad + f"let {xl} :="] + ml + self.seq(rest, tail, k_end, k_break, ind)
            val = self.expr(rhs)
            if op == "=":
                new = val
            else:
                if rhs[0] != "int":
                    self.fail("`+=` / `-=` only with an integer literal", line)
                new = f"{xl} {'+' if op == '+=' else '-'} {val}"
            return [pad + f"let {xl} := {new}"] + self.seq(rest, tail, k_end, k_break, ind)
        if k == "expr":
            _, e, line = st
            if e[0] == "call" and e[2] == "push" and len(e[3]) == 1:
                x = self.lean_of(self.lvalue(e[1]))
                return [pad + f"let {x} := {x} ++ [{self.expr(e[3][0])}]"] + self.seq(rest, tail, k_end, k_break, ind)
            if e[0] == "call" and e[2] == "extend" and len(e[3]) == 1 and self.cfg.get("extend_as_loop"):
                # `xs.extend(ys)` = `for v in ys { xs.push(v); }` (same generated text as the loop form)
                v = ("var", "_extend_elem", line)
                loop = ("for", "_extend_elem", e[3][0], ([("expr", ("call", e[1], "push", [v], line), line)], None), line)
                return self.seq([loop] + rest, tail, k_end, k_break, ind)
            if e[0] == "call" and e[2] == "extend" and len(e[3]) == 1:
                x = self.lean_of(self.lvalue(e[1]))
                return [pad + f"let {x} := {x} ++ {self.atom(e[3][0])}"] + self.seq(rest, tail, k_end, k_break, ind)
            if e[0] == "call" and e[2] == "push_str" and len(e[3]) == 1:
                x = self.lean_of(self.lvalue(e[1]))
                if self.infer(e[1]) != "List Nat":
                    self.fail("`push_str` only on a modelled `String`", line)
                return [pad + f"let {x} := {x} ++ {self.atom(e[3][0])}"] + self.seq(rest, tail, k_end, k_break, ind)
            if e[0] == "call" and e[2] == "sort" and not e[3] and self.cfg.get("sort_fn"):
                x = self.lean_of(self.lvalue(e[1]))
                return [pad + f"let {x} := {self.cfg['sort_fn']} {x}"] + self.seq(rest, tail, k_end, k_break, ind)
            if e[0] == "call" and e[2] in self.cfg.get("mut_calls", {}) and len(e[3]) == 1:
                x = self.lean_of(self.lvalue(e[1]))
                return [pad + f"let {x} := {self.cfg['mut_calls'][e[2]]} {x} {self.atom(e[3][0])}"] + self.seq(rest, tail, k_end, k_break, ind)
            if e[0] == "call" and e[2] == "insert" and len(e[3]) == 1 and self.cfg.get("set_insert"):
                x = self.lean_of(self.lvalue(e[1]))
                return [pad + f"let {x} := {self.cfg['set_insert']} {x} {self.atom(e[3][0])}"] + self.seq(rest, tail, k_end, k_break, ind)
            self.fail("expression statement not in the subset", line)
        if k == "iflet":
            _, text, line, structured = st
            if _trace_norm(text) in _TRACE_SHAPES or _trace_norm2(text, self.renames()) in _TRACE_SHAPES2:
                return self.seq(rest, tail, k_end, k_break, ind)
            if structured is None:
                self.fail("`if let` block is not one of the known unit-trace side-effect shapes", line)
            var, scrut, body = structured
            if body[1] is not None and not (body[1][0] == "if" and body[1][2][1] is None):
                self.fail("`if let` block with a value", line)
            if body[1] is not None:
                body = (body[0] + [body[1]], None)
            base = scrut
            while base[0] == "ref" or (base[0] == "call" and base[2] in ("as_ref", "as_deref", "clone") and not base[3]):
                base = base[1]
            ty = self.infer(base)
            if not ty.startswith("Option "):
                self.fail("`if let Some(..)` on something that is not a modelled `Option`", line)
            sc = self.atom(base)
            saved = dict(self.scope)
            tup0 = None
            inner = self.opt_inner(ty)
            v = self.fresh(inner)
            if self.escapes(body):
                # the continuation goes into both arms
                none_lines = self.seq(rest, tail, k_end, k_break, ind + 1)
                self.scope = dict(saved)
                self.scope[var] = v
                self.vtypes[var] = inner
                if body[0] and body[0][-1][0] in ("break", "return", "continue"):
                    some_lines = self.seq(body[0], None, k_end, k_break, ind + 1)
                else:
                    some_lines = self.seq(body[0] + rest, tail, k_end, k_break, ind + 1)
                self.scope = saved
                return [pad + f"match {sc} with", pad + "| none =>"] + none_lines + [pad + f"| some {v} =>"] + some_lines
            self.scope[var] = v
            self.vtypes[var] = inner
            names = self.order(set(self.assigned(body)))
            if not names:
                self.fail("`if let Some(..)` block that neither assigns a modelled variable nor is a known unit-trace block", line)
            tup = self.tuple_of(names)
            b = self.seq(body[0], None, lambda _v: tup, k_break, ind + 2)
            self.scope = saved
            lines = [pad + f"let {tup} :=", pad + f"  match {sc} with", pad + f"  | none => {tup}", pad + f"  | some {v} =>"] + b
            return lines + self.seq(rest, tail, k_end, k_break, ind)
        if k == "break":
            if k_break is None:
                self.fail("`break` outside a loop", st[1])
            if rest or tail is not None:
                self.fail("code after `break`", st[1])
            return [pad + k_break()]
        if k == "continue":
            if self.k_continue is None:
                self.fail("`continue` outside a `for`", st[1])
            if rest or tail is not None:
                self.fail("code after `continue`", st[1])
            return [pad + self.k_continue]
        if k == "return":
            if rest or tail is not None:
                self.fail("code after `return`", st[2])
            if self.value_depth:
                self.fail("`return` inside a `match` used as a value", st[2])
            if self.k_continue is not None:
                if not self.loop_return:
                    self.fail("`return` inside a `for` whose result is not the function's result", st[2])
                return [pad + self.expr(st[1])]
            return [pad + self.cfg["return"](self, self.expr(st[1]))]
        if k == "if":
            return self.if_lines(st, rest, tail, k_end, k_break, ind, is_tail=False)
        if k == "for":
            return self.for_lines(st, rest, tail, k_end, k_break, ind)
        if k == "loop":
            if rest or tail is not None:
                self.fail("code after `loop`", st[2])
            return self.loop_lines(st, ind)
        if k == "match":
            _, scrut, arms, line = st
            base = scrut
            while base[0] == "ref" or (base[0] == "call" and base[2] in ("as_ref", "as_deref", "clone") and not base[3]
                                       and not self.abstract_call(base) and _ast_text(base) not in self.cfg.get("abstract", {})):
                base = base[1]
            ty = self.infer(base)
            byname = {a[0]: a for a in arms}
            if not ty.startswith("Option ") or sorted(byname) != ["None", "Some"] or len(arms) != 2 \
                    or byname["None"][3] is not None or byname["Some"][3] is None:
                self.fail("a `match` statement must be on a modelled `Option` with arms `None` and `Some(x)`", line)

            def stmts_of(arm):
                b = arm[1]
                if b[1] is None or b[1][0] == "unit":
                    return b[0]
                if b[1][0] == "if" and b[1][2][1] is None:
                    return b[0] + [b[1]]
                self.fail("arm of a `match` statement with a value", arm[2])
            none_st, some_st = stmts_of(byname["None"]), stmts_of(byname["Some"])
            if self.escapes((none_st, None)) or self.escapes((some_st, None)):
                self.fail("`return` / `break` / `continue` inside a `match` statement", line)
            sc = self.atom(base)
            saved = dict(self.scope)
            inner = self.opt_inner(ty)
            v = self.fresh(inner)
            self.scope[byname["Some"][3]] = v
            self.vtypes[byname["Some"][3]] = inner
            names = self.order(set(self.assigned((none_st, None))) | set(self.assigned((some_st, None))))
            if not names:
                self.fail("a `match` statement that assigns nothing", line)
            tup = self.tuple_of(names)
            b_some = self.seq(some_st, None, lambda _v: tup, k_break, ind + 2)
            self.scope = dict(saved)
            b_none = self.seq(none_st, None, lambda _v: tup, k_break, ind + 2)
            self.scope = saved
            lines = [pad + f"let {tup} :=", pad + f"  match {sc} with", pad + "  | none =>"] + b_none + [pad + f"  | some {v} =>"] + b_some
            return lines + self.seq(rest, tail, k_end, k_break, ind)
        self.fail(f"statement `{k}` is not in the subset", st[-1])

    def if_lines(self, node, rest, tail, k_end, k_break, ind, is_tail):
        _, cond, then, other, line = node
        pad = "  " * ind
        c = self.expr(cond)
        other = other if other is not None else ([], None)
        if is_tail or self.escapes(then) or self.escapes(other):
            # the continuation goes into both branches (not after a branch that ends in `break` / `return`)
            if not is_tail and (then[1] is not None or other[1] is not None):
                self.fail("`if` with a value in statement position", line)

            def branch(b):
                saved = dict(self.scope)
                if is_tail:
                    r = self.seq(b[0], b[1], k_end, k_break, ind + 1)
                elif b[0] and b[0][-1][0] in ("break", "return", "continue"):
                    r = self.seq(b[0], None, k_end, k_break, ind + 1)
                else:
                    r = self.seq(b[0] + rest, tail, k_end, k_break, ind + 1)
                self.scope = saved
                return r
            a = branch(then)
            b = branch(other)
            return [pad + f"if {c} then"] + a + [pad + "else"] + b
        if then[1] is not None or other[1] is not None:
            self.fail("`if` with a value in statement position", line)
        names = self.order(set(self.assigned(then)) | set(self.assigned(other)))
        if not names:
            # only skipped trace blocks inside: still translate the branches (fail closed on their content)
            saved = dict(self.scope)
            self.seq(then[0], None, lambda v: "()", k_break, ind + 1)
            self.scope = dict(saved)
            self.seq(other[0], None, lambda v: "()", k_break, ind + 1)
            self.scope = saved
            return self.seq(rest, tail, k_end, k_break, ind)
        saved = dict(self.scope)
        tup = self.tuple_of(names)
        a = self.seq(then[0], None, lambda v: tup, k_break, ind + 2)
        self.scope = dict(saved)
        b = self.seq(other[0], None, lambda v: tup, k_break, ind + 2)
        self.scope = saved
        lines = [pad + f"let {tup} :=", pad + f"  if {c} then"] + a + [pad + "  else"] + b
        return lines + self.seq(rest, tail, k_end, k_break, ind)

    def match_lines(self, node, k_end, k_break, ind):
        """`match OPTION { None => .., Some(x) => .. }` in tail position (arms in canonical order: none first)"""
        _, scrut, arms, line = node
        pad = "  " * ind
        base = scrut
        while base[0] == "ref" or (base[0] == "call" and base[2] in ("as_ref", "as_deref", "clone") and not base[3]):
            base = base[1]
        ty = self.infer(base)
        if not ty.startswith("Option "):
            self.fail("`match` only on a modelled `Option` (or, at the top level, on the modelled enum)", line)
        byname = {a[0]: a for a in arms}
        if sorted(byname) != ["None", "Some"] or len(arms) != 2 or byname["None"][3] is not None or byname["Some"][3] is None:
            self.fail("the arms of a `match` on an `Option` must be `None` and `Some(x)`", line)
        lines = [pad + f"match {self.atom(base)} with", pad + "| none =>"]
        saved = dict(self.scope)
        lines += self.seq(byname["None"][1][0], byname["None"][1][1], k_end, k_break, ind + 1)
        self.scope = dict(saved)
        inner = self.opt_inner(ty)
        v = self.fresh(inner)
        self.scope[byname["Some"][3]] = v
        self.vtypes[byname["Some"][3]] = inner
        lines += [pad + f"| some {v} =>"] + self.seq(byname["Some"][1][0], byname["Some"][1][1], k_end, k_break, ind + 1)
        self.scope = saved
        return lines

    def for_lines(self, st, rest, tail, k_end, k_break, ind):
        _, var, it, body, line = st
        pad = "  " * ind
        while (it[0] == "call" and it[2] in ("iter", "into_iter", "as_slice") and not it[3]) or it[0] == "ref":
            it = it[1]
        try:
            lty = self.infer(it)
        except _Fail:
            lty = None
        if lty is None or not lty.startswith("List "):
            self.fail("`for` only over a modelled list", line)
        elem = lty[len("List "):].strip()
        if elem.startswith("(") and elem.endswith(")"):
            elem = elem[1:-1]
        it_lean = self.atom(it)
        if body[1] is not None:
            if body[1][0] == "if" and body[1][2][1] is None:
                body = (body[0] + [body[1]], None)
            else:
                self.fail("`for` body with a value", line)
        self.loop_count += 1
        fname = f"{self.cfg['name']}Loop{self.loop_count}"
        saved, saved_h = dict(self.scope), set(self.header_vars)
        if isinstance(var, tuple):
            parts = [x.strip() for x in elem.split(" × ")]
            if len(parts) != len(var) or any(" " in x for x in parts):
                self.fail("tuple pattern in `for` over a list whose elements are not a flat product of type names", line)
            evs = []
            for x, t in zip(var, parts):
                l = self.fresh(t)
                self.scope[x] = l
                self.vtypes[x] = t
                evs.append(l)
            ev = "(" + ", ".join(evs) + ")"
            ev_names = evs
        else:
            ev = self.fresh(elem)
            self.scope[var] = ev
            self.vtypes[var] = elem
            ev_names = [ev]
            if elem == "String × String":
                self.header_vars.add(var)
        state = self.order(set(self.assigned(body)))
        if not state:
            self.fail("`for` loop that assigns nothing", line)
        tup = self.tuple_of(state)
        leans = [self.lean_of(x) for x in state]
        fixed = " ".join(n for n, _ in self.cfg["params"] + self.cfg.get("loop_params", []))
        mark = f"⟪{fname}⟫"          # replaced below by the free locals the body turns out to use
        rec = f"{fname} {fixed}{mark} rest " + " ".join(leans)
        # a `return E` inside the loop is allowed when the loop's result is the function's: `for ..; x` with state [x]
        lr = (not rest and tail is not None and tail[0] == "var" and len(state) == 1 and state[0] == tail[1]
              and self.k_continue is None and not self.value_depth)
        saved_k, saved_lr = self.k_continue, self.loop_return
        self.k_continue, self.loop_return = rec, lr
        body_lines = self.seq(body[0], None, lambda v: rec, lambda: tup, 2)
        self.k_continue, self.loop_return = saved_k, saved_lr
        # free locals / arguments / self fields of the enclosing function used by the body become extra parameters
        cands = {}
        for rust, lean in saved.items():
            if rust in self.vtypes:
                cands[lean] = self.vtypes[rust]
        for n, t in self.cfg.get("arg_types", []):
            cands.setdefault(n, t)
        fixed_names = set(n for n, _ in self.cfg["params"] + self.cfg.get("loop_params", []))
        text = "\n".join(body_lines)
        extra = [(n, t) for n, t in cands.items() if n not in leans and n not in ev_names and n not in fixed_names
                 and re.search(r"(?<![A-Za-z0-9_.'])" + re.escape(n) + r"(?![A-Za-z0-9_'])", text)]
        xs = "".join(" " + n for n, _ in extra)
        body_lines = [l.replace(mark, xs) for l in body_lines]
        rec = rec.replace(mark, xs)
        self.scope, self.header_vars = saved, saved_h
        types = [self.vtypes[x] if not x.startswith("self.") else self.cfg["self_field_types"][x[5:]] for x in state] \
            if any(x.startswith("self.") for x in state) else [self.vtypes[x] for x in state]
        res = types[0] if len(types) == 1 else " × ".join(f"{t}" if " " not in t else f"({t})" for t in types)
        par = " ".join(f"({n} : {t})" for n, t in self.cfg["params"] + self.cfg.get("loop_params", []) + extra)
        tp = self.cfg.get("tparams", "")
        sig = " → ".join([f"List ({elem})"] + [t if " " not in t else f"({t})" for t in types] + [res])
        tm = re.fullmatch(r"\{([^:{}]+): Type\}", tp)
        if tm:      # only the type parameters the loop mentions (the others could not be inferred at the call)
            used = [v for v in tm.group(1).split() if re.search(r"(?<![A-Za-z0-9_])" + re.escape(v) + r"(?![A-Za-z0-9_])", par + " " + sig)]
            tp = "{" + " ".join(used) + " : Type}" if used else ""
        aux = ["set_option linter.unusedVariables false in", f"def {fname} {tp + ' ' if tp else ''}{par} :", f"    {sig}",
               "  | [], " + ", ".join(leans) + " => " + tup,
               f"  | {ev} :: rest, " + ", ".join(leans) + " =>"] + body_lines
        self.aux.append(aux)
        call = f"{fname} {fixed}{xs} {it_lean} " + " ".join(leans)
        return [pad + f"let {tup} := {call}"] + self.seq(rest, tail, k_end, k_break, ind)

    def loop_lines(self, st, ind):
        _, body, line = st
        pad = "  " * ind
        if body[1] is not None:
            self.fail("`loop` body with a value", line)
        self.loop_count += 1
        fname = f"{self.cfg['name']}Loop{self.loop_count}"
        # all mutable locals, the iterators consumed by `next_char_or_return!` first (recursion goes through them)
        its = []
        for st2 in body[0]:
            if st2[0] == "letmacro" and st2[3] and st2[3][0][0] == "var" and st2[3][0][1] not in its:
                its.append(st2[3][0][1])
        state = [x for x in its if x in self.decl] + [x for x in self.decl if x not in its]
        leans = [self.lean_of(x) for x in state]
        fixed = " ".join(n for n, _ in self.cfg["params"])
        rec = (f"{fname} {fixed} " if fixed else f"{fname} ") + " ".join(leans)
        saved = dict(self.scope)
        body_lines = self.seq(body[0], None, lambda v: rec, None, 1)
        self.scope = saved
        par = " ".join(f"({n} : {t})" for n, t in self.cfg["params"])
        args = " ".join(f"({l} : {self.vtypes[x]})" for l, x in zip(leans, state))
        aux = ["set_option linter.unusedVariables false in",
               f"def {fname} {par + ' ' if par else ''}{args} : {self.cfg['result_type']} :="] + body_lines
        self.aux.append(aux)
        return [pad + rec]


def _function(src, path, header_re, fail):
    """-> (body text without the outer braces, line number of its first line, {line: text})"""
    m = re.search(header_re, src)
    if not m:
        fail(f"{path}: function with signature /{header_re}/ not found")
    i = m.end()
    if src[i - 1] != "{":
        fail(f"{path}: signature pattern must end at the opening brace")
    depth, j = 1, i
    while j < len(src) and depth:
        if src[j] == "{":
            depth += 1
        elif src[j] == "}":
            depth -= 1
        j += 1
    if depth:
        fail(f"{path}: unbalanced braces in the function body")
    first_line = src.count("\n", 0, i - 1) + 1
    lines = {n + 1: t for n, t in enumerate(src.split("\n"))}
    return "{" + src[i:j], first_line, lines


def _translate(read, fail, path, header_re, cfg):
    src = read(path)
    body, first_line, lines = _function(src, path, header_re, fail)
    try:
        toks = _lex(body, first_line, path)
        parser = _Parser(toks, path, lines)
        stmts, tail = parser.block()
        if parser.i != len(toks):
            parser.fail("trailing tokens after the function body")
        return parser, stmts, tail
    except _Fail as e:
        fail(str(e))


def _emit(cfg, parser, stmts, tail, fail, doc):
    try:
        tr = _Tr(cfg, parser)
        lines = tr.seq(stmts, tail, lambda v: cfg["return"](tr, v), None, 1)
    except _Fail as e:
        fail(str(e))
    out = []
    for aux in tr.aux:
        out += aux + [""]
    par = " ".join(f"({n} : {t})" for n, t in cfg["params"])
    args = " ".join(f"({l} : {t})" for l, t in cfg.get("arg_types", []))
    tp = cfg.get("tparams", "")
    out += ["set_option linter.unusedVariables false in", f"/-- {doc} -/",
            f"def {cfg['name']} {tp + ' ' if tp else ''}{par + ' ' if par else ''}{args} : {cfg['result_type']} :="] + lines
    return out


_PAIR = "String × String"


def _header_cfg(name, headers="headers", ut="unit_trace"):
    return {
        "name": name,
        "params": [("lower", "String → String"), ("name", "String"), ("value", "String")],
        "args": {headers: "headers"}, "trace_arg": ut,
        "arg_types": [("headers", f"List ({_PAIR})")],
        "self_fields": {"name": "name", "value": "value"},
        "mutable_args": {headers: f"List ({_PAIR})"},
        "vec_type": f"List ({_PAIR})",
        "result_type": f"List ({_PAIR})",
        "return": lambda tr, v: v,
    }


def _text_cfg(name, with_data, data="data", ut="unit_trace"):
    return {
        "name": name,
        "params": [], "trace_arg": ut,
        "args": {data: "data"} if with_data else {},
        "arg_types": [("content", "List Nat"), ("executed", "Bool")] + ([("data", "List Nat")] if with_data else []),
        "self_fields": {"content": "content", "executed": "executed"},
        "self_out": ["executed"],
        "self_field_types": {"content": "List Nat", "executed": "Bool"},
        "arg_rust_types": {data: "List Nat"} if with_data else {},
        "result_type": "Bool × List Nat",
        "return": lambda tr, v: f"(executed, {v})",
    }


def extract_headers(read, fail):
    out = ["-- Rust -> Lean translation of whitelisted function bodies: the five header actions (tools/consts.d/w4_translate.py)"]

    # ---- (1) the five header actions
    hdr0 = r"fn filter\(&self, (?:mut )?(\w+): Vec<Header>, (?:mut )?(\w+): Option<&mut UnitTrace>\) -> Vec<Header> \{"
    for mod, lean_name in [("add", "genHeaderAdd"), ("remove", "genHeaderRemove"), ("replace", "genHeaderReplace"),
                           ("override", "genHeaderOverride"), ("default", "genHeaderDefault")]:
        path = f"src/filter/header_action/header_{mod}.rs"
        src = read(path)
        # the struct must still be (name[, value], id, target_hash) with String names
        want = r"pub struct Header\w+Action \{\s*pub name: String,\s*(pub value: String,\s*)?(//[^\n]*\s*)*pub id: Option<String>,\s*(//[^\n]*\s*)*pub target_hash: Option<String>,\s*\}"
        if not re.search(want, src):
            fail(f"{path}: the action struct no longer has the modelled fields (name[, value], id, target_hash)")
        if len(re.findall(r"\bfn \w+", src)) != 1:
            fail(f"{path}: expected exactly one function (`filter`)")
        hdr, (hname, utname) = _sig(src, path, hdr0, fail)
        cfg = _header_cfg(lean_name, hname, utname)
        parser, stmts, tail = _translate(read, fail, path, hdr, cfg)
        out.append("")
        out += _emit(cfg, parser, stmts, tail, fail, f"`Header{mod.capitalize()}Action::filter`, translated from {path}.")
    hsrc = read("src/http/header.rs")
    if not re.search(r"pub struct Header \{\s*pub name: String,\s*pub value: String,\s*\}", hsrc):
        fail("src/http/header.rs: `Header` is no longer { name: String, value: String }")

    return out


def extract_text(read, fail):
    out = ["-- Rust -> Lean translation: the text body filter (tools/consts.d/w4_translate_text.py, translator in w4_translate.py)"]
    # ---- (2) the text body filter
    path = "src/filter/text_filter_body.rs"
    src = read(path)
    if not re.search(r"pub struct TextFilterBodyAction \{\s*id: Option<String>,\s*action: TextFilterAction,\s*content: Vec<u8>,\s*executed: bool,\s*\}", src):
        fail(f"{path}: `TextFilterBodyAction` no longer has the modelled fields")
    if not re.search(r"pub enum TextFilterAction \{\s*Append,\s*Prepend,\s*Replace,\s*\}", src):
        fail(f"{path}: `TextFilterAction` is no longer {{Append, Prepend, Replace}}")
    if not re.search(r"Self \{\s*id,\s*action,\s*content: content\.into_bytes\(\),\s*executed: false,\s*\}", src):
        fail(f"{path}: `new` no longer starts with executed = false and the content bytes")
    thdr, (dname, utname) = _sig(src, path, r"pub fn filter\(&mut self, (?:mut )?(\w+): Vec<u8>, (?:mut )?(\w+): Option<&mut UnitTrace>\) -> Vec<u8> \{", fail)
    cfg0 = _text_cfg("genTextFilter", True, dname, utname)
    parser, stmts, tail = _translate(read, fail, path, thdr, cfg0)
    if stmts or tail is None or tail[0] != "match":
        fail(f"{path}: `filter` is no longer a single `match self.action`")
    _, scrut, arms, mline = tail
    if scrut != ("field", ("var", "self", scrut[1][2] if scrut[0] == "field" else 0), "action", scrut[3] if scrut[0] == "field" else 0):
        fail(f"{path}:{mline}: the `match` is not on `self.action`")
    names = [a[0] for a in arms]
    if sorted(names) != ["TextFilterAction::Append", "TextFilterAction::Prepend", "TextFilterAction::Replace"]:
        fail(f"{path}:{mline}: arms of `match self.action` are {names}")
    for variant in ["Replace", "Append", "Prepend"]:
        arm = [a for a in arms if a[0] == "TextFilterAction::" + variant][0]
        cfg = _text_cfg("genTextFilter" + variant, True, dname, utname)
        out.append("")
        out += _emit(cfg, parser, arm[1][0], arm[1][1], fail,
                     f"`TextFilterBodyAction::filter`, arm `{variant}`: (new `executed`, returned bytes); translated from {path}.")
    cfg = _text_cfg("genTextEnd", False)
    parser, stmts, tail = _translate(read, fail, path, r"pub fn end\(&mut self\) -> Vec<u8> \{", cfg)
    out.append("")
    out += _emit(cfg, parser, stmts, tail, fail,
                 f"`TextFilterBodyAction::end`: (new `executed`, returned bytes); translated from {path}.")

    return out


def extract_scan(read, fail):
    out = ["-- Rust -> Lean translation: the prefix scanner (tools/consts.d/w4_translate_scan.py, translator in w4_translate.py)"]
    # ---- (3) the prefix scanner
    path = "src/regex_radix_tree/prefix.rs"
    src = read(path)
    mac = r"macro_rules! next_char_or_return \{\s*\(\$c:expr,\$p:expr\) => \{\s*match \$c\.next\(\) \{\s*Some\(char\) => char,\s*None => return \$p,\s*\}\s*\};\s*\}"
    if not re.search(mac, src):
        fail(f"{path}: the macro `next_char_or_return!` no longer has the modelled definition")
    cfg = {
        "name": "genCommonPrefixCharSize",
        "params": [],
        "args": {},
        "arg_types": [("left", "List Char"), ("right", "List Char")],
        "self_fields": {},
        # `let mut left_chars = left.chars();` is handled below: iterators are the remaining characters
        "arg_rust_types": {"left": "List Char", "right": "List Char"},
        "result_type": "Nat",
        "return": lambda tr, v: v,
    }
    # `X.chars()` on a parameter is the only iterator constructor: rewrite it to the parameter itself
    body_src = read(path)
    if len(re.findall(r"\.chars\(\)", body_src.split("pub fn get_prefix_with_char_size")[0])) != 2:
        fail(f"{path}: expected exactly two `.chars()` iterators in `common_prefix_char_size`")

    def read_chars(p):
        s = read(p)
        s = s.replace("let mut left_chars = left.chars();", "let mut left_chars = left;")
        s = s.replace("let mut right_chars = right.chars();", "let mut right_chars = right;")
        return s
    cfg["args"] = {"left": "left", "right": "right"}
    parser, stmts, tail = _translate(read_chars, fail, path,
                                     r"pub fn common_prefix_char_size\(left: &str, right: &str\) -> u32 \{", cfg)
    out.append("")
    out += _emit(cfg, parser, stmts, tail, fail,
                 f"`common_prefix_char_size` (strings as `List Char`; `group_level` is an `i32`: `Int`); translated from {path}.")
    return out


def _sig(src, path, pattern, fail):
    """signature with the argument names captured (they are free); returns (regex matching exactly this signature, names)"""
    m = re.search(pattern, src)
    if not m:
        fail(f"{path}: function with signature /{pattern}/ not found")
    return re.escape(m.group(0)), list(m.groups())


def extract_time(read, fail):
    out = ["-- Rust -> Lean translation: the date / time / week-day / ip primitives of the router "
           "(tools/consts.d/w4_translate_time.py, translator in w4_translate.py)"]
    for path, struct, ty, lean_name, chain, absname in [
            ("src/router/route_time.rs", "RouteTime", "NaiveTime", "genRouteTimeMatch", ".naive_utc().time()", "timeOfDay"),
            ("src/router/route_datetime.rs", "RouteDateTime", "NaiveDateTime", "genRouteDateTimeMatch", ".naive_utc()", "instant")]:
        src = read(path)
        if not re.search(r"pub struct " + struct + r" \{\s*pub start: Option<" + ty + r">,\s*pub end: Option<" + ty + r">,\s*\}", src):
            fail(f"{path}: `{struct}` is no longer {{ start: Option<{ty}>, end: Option<{ty}> }}")
        if "Ord, PartialOrd)]\npub struct " + struct not in src:
            fail(f"{path}: `{struct}` no longer derives its order")
        hdr, (dt,) = _sig(src, path, r"pub fn match_datetime\(&self, (\w+): &DateTime<Utc>\) -> bool \{", fail)
        cfg = {
            "name": lean_name, "params": [], "args": {},
            "arg_types": [("start", "Option Nat"), ("stop", "Option Nat"), (absname, "Nat")],
            "self_fields": {"start": "start", "end": "stop"},
            "self_field_types": {"start": "Option Nat", "end": "Option Nat"},
            "abstract": {dt + chain: (absname, "Nat")},
            "result_type": "Bool", "return": lambda tr, v: v,
        }
        parser, stmts, tail = _translate(read, fail, path, hdr, cfg)
        out.append("")
        out += _emit(cfg, parser, stmts, tail, fail,
                     f"`{struct}::match_datetime` (bounds and `datetime{chain}` as `Nat`: their order is the order of the "
                     f"chrono values); translated from {path}.")
    # week days
    path = "src/router/route_weekday.rs"
    src = read(path)
    if not re.search(r"pub struct Weekdays\(pub Vec<Weekday>\);", src) or \
            not re.search(r"pub struct RouteWeekday \{\s*pub weekdays: Weekdays,\s*\}", src):
        fail(f"{path}: `RouteWeekday` is no longer {{ weekdays: Weekdays(Vec<Weekday>) }}")
    hdr, (dt,) = _sig(src, path, r"pub fn match_datetime\(&self, (\w+): &DateTime<Utc>\) -> bool \{", fail)
    cfg = {
        "name": "genRouteWeekdayMatch", "tparams": "{α : Type} [BEq α]", "params": [], "args": {},
        "arg_types": [("weekdays", "List α"), ("weekday", "α")],
        "self_fields": {},
        "abstract": {"self.weekdays.0": ("weekdays", "List α"), dt + ".weekday()": ("weekday", "α")},
        "result_type": "Bool", "return": lambda tr, v: v,
    }
    parser, stmts, tail = _translate(read, fail, path, hdr, cfg)
    out.append("")
    out += _emit(cfg, parser, stmts, tail, fail,
                 f"`RouteWeekday::match_datetime` (`weekday` = `datetime.weekday()`); translated from {path}.")
    # ip ranges
    path = "src/router/route_ip.rs"
    src = read(path)
    if not re.search(r"pub enum RouteIp \{\s*InRange\(AnyIpCidr\),\s*NotInRange\(AnyIpCidr\),\s*\}", src):
        fail(f"{path}: `RouteIp` is no longer {{InRange(AnyIpCidr), NotInRange(AnyIpCidr)}}")
    hdr, (ip,) = _sig(src, path, r"pub fn match_ip\(&self, (\w+): &IpAddr\) -> bool \{", fail)
    base = {"params": [("contains", "κ → β → Bool")], "tparams": "{κ β : Type}", "args": {ip: "ip"},
            "arg_types": [("range", "κ"), ("ip", "β")], "self_fields": {}, "arg_rust_types": {ip: "β"},
            "extern_calls": {"contains": ("contains", ["Bool"], "κ")},
            "result_type": "Bool", "return": lambda tr, v: v}
    parser, stmts, tail = _translate(read, fail, path, hdr, dict(base, name="genRouteIpMatch"))
    if stmts or tail is None or tail[0] != "match" or tail[1][0] != "var" or tail[1][1] != "self":
        fail(f"{path}: `match_ip` is no longer a single `match self`")
    arms = {a[0].split("::")[-1]: a for a in tail[2]}
    if sorted(arms) != ["InRange", "NotInRange"] or len(tail[2]) != 2 or any(a[3] is None for a in tail[2]) or \
            any(a[0].split("::")[0] not in ("Self", "RouteIp") for a in tail[2]):
        fail(f"{path}:{tail[3]}: arms of `match self` are {[a[0] for a in tail[2]]}")
    for variant in ["InRange", "NotInRange"]:
        arm = arms[variant]
        cfg = dict(base, name="genRouteIpMatch" + variant, pre_scope={arm[3]: ("range", "κ")})
        out.append("")
        out += _emit(cfg, parser, arm[1][0], arm[1][1], fail,
                     f"`RouteIp::match_ip`, arm `{variant}` (`contains` = `AnyIpCidr::contains`); translated from {path}.")
    return out


def extract_action(read, fail):
    out = ["-- Rust -> Lean translation: the use-time decision functions of `Action` "
           "(tools/consts.d/w4_translate_action.py, translator in w4_translate.py)"]
    path = "src/action/mod.rs"
    src = read(path)
    want = (r"pub struct Action \{\s*status_code_update: Option<StatusCodeUpdate>,.*?"
            r"pub rules_applied: LinkedHashSet<String>,\s*log_override: Option<LogOverride>,\s*\}")
    if not re.search(want, src, re.S):
        fail(f"{path}: `Action` no longer has the modelled fields status_code_update / rules_applied / log_override")
    if not re.search(r"pub fn get_status_code\(&self, \w+: u16\) -> \(u16, Option<&String>\) \{", read("src/action/status_code_update.rs")):
        fail("src/action/status_code_update.rs: the signature of `get_status_code` changed")
    if not re.search(r"pub fn get_log_override\(&self, \w+: u16\) -> \(Option<bool>, Option<String>, bool\) \{", read("src/action/log_override.rs")):
        fail("src/action/log_override.rs: the signature of `get_log_override` changed")
    if len(re.findall(r"fn get_status_code\(", src)) != 1:
        fail(f"{path}: expected exactly one `get_status_code` in this file")

    # Action::get_status_code
    hdr, (c, ut) = _sig(src, path, r"pub fn get_status_code\(&mut self, (\w+): u16, (\w+): Option<&mut UnitTrace>\) -> u16 \{", fail)
    cfg = {
        "name": "genActionGetStatusCode", "tparams": "{σ ι : Type}",
        "params": [("subGet", "σ → Nat → Nat × Option ι"), ("insert", "List ι → ι → List ι")],
        "args": {c: "c"}, "arg_rust_types": {c: "Nat"}, "trace_arg": ut,
        "arg_types": [("statusCodeUpdate", "Option σ"), ("rulesApplied", "List ι"), ("c", "Nat")],
        "self_fields": {"status_code_update": "statusCodeUpdate", "rules_applied": "rulesApplied"},
        "self_field_types": {"status_code_update": "Option σ", "rules_applied": "List ι"},
        "self_out": ["rules_applied"], "set_insert": "insert",
        "extern_calls": {"get_status_code": ("subGet", ["Nat", "Option ι"], "σ")},
        "result_type": "Nat × List ι", "return": lambda tr, v: f"({v}, rulesApplied)",
    }
    parser, stmts, tail = _translate(read, fail, path, hdr, cfg)
    out.append("")
    out += _emit(cfg, parser, stmts, tail, fail,
                 "`Action::get_status_code`: (returned code, new `rules_applied`); `subGet` = `StatusCodeUpdate::get_status_code`, "
                 f"`insert` = `LinkedHashSet::insert`; the unit-trace block is skipped; translated from {path}.")

    # Action::get_final_status_code_with_fallback
    hdr, (c, fb, ut) = _sig(src, path, r"pub fn get_final_status_code_with_fallback\(\s*&mut self,\s*(\w+): u16,\s*(\w+): u16,\s*"
                                       r"(\w+): &mut UnitTrace,?\s*\) -> \(u16, u16\) \{", fail)
    cfg = {
        "name": "genActionGetFinalStatusCode", "tparams": "{α : Type}",
        "params": [("getStatusCode", "α → Nat → Nat × α")],
        "args": {c: "c", fb: "fallback"}, "arg_rust_types": {c: "Nat", fb: "Nat"}, "trace_arg": ut,
        "arg_types": [("st", "α"), ("c", "Nat"), ("fallback", "Nat")],
        "self_fields": {}, "self_calls": {"get_status_code": ("getStatusCode", "Nat", 1)},
        "result_type": "(Nat × Nat) × α", "return": lambda tr, v: f"({v}, st)",
    }
    parser, stmts, tail = _translate(read, fail, path, hdr, cfg)
    out.append("")
    out += _emit(cfg, parser, stmts, tail, fail,
                 "`Action::get_final_status_code_with_fallback`: ((final code, response code used), new `self`); `getStatusCode` = "
                 f"`Action::get_status_code` on the `&mut self` state `st`; translated from {path}.")

    # Action::should_log_request
    hdr, (allow, c, ut) = _sig(src, path, r"pub fn should_log_request\(&mut self, (\w+): bool, (\w+): u16, (\w+): Option<&mut UnitTrace>\) -> bool \{", fail)
    cfg = {
        "name": "genActionShouldLogRequest", "tparams": "{σ ι : Type}",
        "params": [("subGet", "σ → Nat → Option Bool × Option ι × Bool"), ("insert", "List ι → ι → List ι")],
        "args": {allow: "allowLogConfig", c: "c"}, "arg_rust_types": {allow: "Bool", c: "Nat"}, "trace_arg": ut,
        "arg_types": [("logOverride", "Option σ"), ("rulesApplied", "List ι"), ("allowLogConfig", "Bool"), ("c", "Nat")],
        "self_fields": {"log_override": "logOverride", "rules_applied": "rulesApplied"},
        "self_field_types": {"log_override": "Option σ", "rules_applied": "List ι"},
        "self_out": ["rules_applied"], "set_insert": "insert",
        "extern_calls": {"get_log_override": ("subGet", ["Option Bool", "Option ι", "Bool"], "σ")},
        "result_type": "Bool × List ι", "return": lambda tr, v: f"({v}, rulesApplied)",
    }
    parser, stmts, tail = _translate(read, fail, path, hdr, cfg)
    out.append("")
    out += _emit(cfg, parser, stmts, tail, fail,
                 "`Action::should_log_request`: (decision, new `rules_applied`); `subGet` = `LogOverride::get_log_override`; "
                 f"the unit-trace block is skipped; translated from {path}.")
    return out


_RUST_TYPES = {"u16": "Nat", "bool": "Bool", "Vec<u16>": "List Nat", "Option<bool>": "Option Bool"}


def _gen_struct(read, fail, path, rust, lean, tparams, string_types, extra_types=None):
    """a Lean structure generated from a Rust struct (fields in declaration order); `String` fields get the type variable /
    type named by `string_types[field]`.  -> (Lean lines, struct table for the translator)"""
    src = read(path)
    m = re.search(r"(?:pub )?struct " + rust + r" \{\n(.*?)\n\}", src, re.S)
    if not m:
        fail(f"{path}: `pub struct {rust}` not found")
    fields, lines = {}, []
    for ln in m.group(1).split("\n"):
        ln = ln.strip()
        if not ln or ln.startswith("//") or ln.startswith("#["):
            continue
        fm = re.fullmatch(r"(?:pub )?(\w+): (.+),", ln)
        if not fm:
            fail(f"{path}: field line of `{rust}` not understood: `{ln}`")
        f, ty = fm.group(1), fm.group(2)
        if ty in _RUST_TYPES:
            lty = _RUST_TYPES[ty]
        elif ty in ("Option<String>", "String") and f in string_types:
            lty = ("Option " if ty.startswith("Option") else "") + string_types[f]
        elif extra_types and ty in extra_types:
            lty = extra_types[ty]
        else:
            fail(f"{path}: field `{f}: {ty}` of `{rust}` has no modelled type")
        fields[f] = (_camel(f), lty)
        lines.append(f"  {_camel(f)} : {lty}")
    head = lean.split(" ")[0]
    out = [f"/-- `{rust}` ({path}), fields in declaration order. -/", f"structure {head} {tparams} where"] + lines
    return out, {"lean": lean, "fields": fields}


def extract_merge(read, fail):
    out = ["-- Rust -> Lean translation: `Action::merge` and the loop of `Action::from_routes_rule` "
           "(tools/consts.d/w4_translate_merge.py, translator in w4_translate.py)"]
    path = "src/action/mod.rs"
    src = read(path)
    want = (r"pub struct Action \{\s*status_code_update: Option<StatusCodeUpdate>,\s*header_filters: Vec<HeaderFilterAction>,\s*"
            r"body_filters: Vec<BodyFilterAction>,\s*(//[^\n]*\s*)*pub rule_ids: LinkedHashSet<String>,\s*(#\[[^\n]*\s*)*"
            r"rule_traces: Vec<RuleTrace>,\s*(#\[[^\n]*\s*)*pub rules_applied: LinkedHashSet<String>,\s*log_override: Option<LogOverride>,\s*\}")
    if not re.search(want, src):
        fail(f"{path}: `Action` no longer has exactly the seven modelled fields")
    ids = {"rule_id": "ι", "fallback_rule_id": "ι", "unit_id": "String", "target_hash": "String"}
    l1, scu = _gen_struct(read, fail, "src/action/status_code_update.rs", "StatusCodeUpdate", "GenStatusCodeUpdate ι", "(ι : Type)", ids)
    l2, lo = _gen_struct(read, fail, "src/action/log_override.rs", "LogOverride", "GenLogOverride ι", "(ι : Type)", ids)
    out += [""] + l1 + [""] + l2
    structs = {"StatusCodeUpdate": scu, "LogOverride": lo}

    # Action::merge
    hdr, (other,) = _sig(src, path, r"pub fn merge\(&mut self, (\w+): Self\) \{", fail)
    ftypes = {"status_code_update": "Option (GenStatusCodeUpdate ι)", "header_filters": "List φ", "body_filters": "List β",
              "rule_ids": "List ι", "rule_traces": "List τ", "log_override": "Option (GenLogOverride ι)"}
    fields = list(ftypes)
    cfg = {
        "name": "genActionMerge", "tparams": "{ι φ β τ : Type}",
        "params": [("insert", "List ι → ι → List ι")], "args": {},
        "arg_types": [(_camel(f), t) for f, t in ftypes.items()] + [("o" + _camel(f)[0].upper() + _camel(f)[1:], t) for f, t in ftypes.items()],
        "self_fields": {f: _camel(f) for f in fields}, "self_field_types": ftypes, "self_out": fields,
        "abstract": {f"{other}.{f}": ("o" + _camel(f)[0].upper() + _camel(f)[1:], t) for f, t in ftypes.items()},
        "structs": structs, "set_insert": "insert", "extend_as_loop": True,
        "result_type": "Option (GenStatusCodeUpdate ι) × List φ × List β × List ι × List τ × Option (GenLogOverride ι)",
        "return": lambda tr, v: "(" + ", ".join(_camel(f) for f in fields) + ")",
    }
    parser, stmts, tail = _translate(read, fail, path, hdr, cfg)
    out.append("")
    out += _emit(cfg, parser, stmts, tail, fail,
                 "`Action::merge`: the six fields of `self` it may change, from those of `self` and of `other` (`o..`); "
                 f"`insert` = `LinkedHashSet::insert`; translated from {path}.")

    # the loop of Action::from_routes_rule
    hdr, (routes, request, ut) = _sig(src, path, r"pub fn from_routes_rule\(mut (\w+): Vec<Arc<Route<Rule>>>, (\w+): &Request, "
                                                 r"(?:mut )?(\w+): Option<&mut UnitTrace>\) -> Action \{", fail)
    cfg = {
        "name": "genFromRoutesRule", "tparams": "{ρ α υ : Type}",
        "params": [("fromRouteRule", "ρ → Option α × Bool × Bool × Option υ"), ("merge", "α → α → α")],
        "args": {routes: "routes"}, "mutable_args": {routes: "List ρ"}, "trace_arg": ut,
        "arg_types": [("default", "α"), ("sort", "List ρ → List ρ"), ("routes", "List ρ")],
        "self_fields": {}, "path_consts": {"Action::default": ("default", "α")},
        "path_calls": {"Action::from_route_rule": ("fromRouteRule", ["Option α", "Bool", "Bool", "Option υ"], 1)},
        "dropped_args": (request,), "sort_fn": "sort", "mut_calls": {"merge": "merge"},
        "loop_params": [],
        "result_type": "α", "return": lambda tr, v: v,
    }
    parser, stmts, tail = _translate(read, fail, path, hdr, cfg)
    out.append("")
    out += _emit(cfg, parser, stmts, tail, fail,
                 "`Action::from_routes_rule`: `sort` = `routes.sort()`, `fromRouteRule r` = `Action::from_route_rule(r, request)`, "
                 f"`merge` = `Action::merge`, `default` = `Action::default()`; the unit-trace blocks are skipped; translated from {path}.")
    return out


def _translate_prefix(read, fail, path, header_re, n_for):
    """parse only the statements of the body up to and including the `n_for`-th `for` (the rest is not translated)"""
    src = read(path)
    body, first_line, lines = _function(src, path, header_re, fail)
    try:
        toks = _lex(body, first_line, path)
        parser = _Parser(toks, path, lines)
        parser.eat("{")
        stmts, seen = [], 0
        while seen < n_for:
            if parser.at("}"):
                parser.fail(f"fewer than {n_for} `for` loops at the top level of the function")
            st = parser.statement()
            if st[0] == "tail":
                parser.fail("the function ends before the expected loops")
            stmts.append(st)
            if st[0] == "for":
                seen += 1
        return parser, stmts
    except _Fail as e:
        fail(str(e))


def extract_select(read, fail):
    out = ["-- Rust -> Lean translation: the selection loops of `Action::filter_headers` and `Action::create_filter_body` "
           "(tools/consts.d/w4_translate_select.py, translator in w4_translate.py)"]
    path = "src/action/mod.rs"
    src = read(path)
    ids = {"rule_id": "ι", "id": "ι"}
    l1, rt = _gen_struct(read, fail, path, "RuleTrace", "GenRuleTrace ι", "(ι : Type)", ids)
    l2, hfa = _gen_struct(read, fail, path, "HeaderFilterAction", "GenHeaderFilterAction φ ι", "(φ ι : Type)", ids, {"HeaderFilter": "φ"})
    l3, bfa = _gen_struct(read, fail, path, "BodyFilterAction", "GenBodyFilterAction β ι", "(β ι : Type)", ids, {"BodyFilter": "β"})
    out += [""] + l1 + [""] + l2 + [""] + l3
    if not re.search(r"rule_traces: Vec<RuleTrace>,", src) or not re.search(r"header_filters: Vec<HeaderFilterAction>,", src) \
            or not re.search(r"body_filters: Vec<BodyFilterAction>,", src) or not re.search(r"pub rules_applied: LinkedHashSet<String>,", src):
        fail(f"{path}: `Action` no longer has the modelled list fields")

    # Action::create_filter_body (whole function)
    hdr, (c, headers) = _sig(src, path, r"pub fn create_filter_body\(&mut self, (\w+): u16, (\w+): &\[Header\]\) -> Option<FilterBodyAction> \{", fail)
    cfg = {
        "name": "genActionCreateFilterBody", "tparams": "{β ι κ : Type}",
        "params": [("insert", "List ι → ι → List ι"), ("c", "Nat")], "loop_params": [],
        "args": {c: "c"}, "arg_rust_types": {c: "Nat"},
        "arg_types": [("newBody", "List β → κ"), ("isEmptyBody", "κ → Bool"),
                      ("bodyFilters", "List (GenBodyFilterAction β ι)"), ("rulesApplied", "List ι")],
        "self_fields": {"body_filters": "bodyFilters", "rules_applied": "rulesApplied"},
        "self_field_types": {"body_filters": "List (GenBodyFilterAction β ι)", "rules_applied": "List ι"},
        "self_out": ["rules_applied"], "set_insert": "insert", "vec_type": "List β",
        "structs": {"BodyFilterAction": bfa},
        "path_calls": {"FilterBodyAction::new": ("newBody", ["κ"], 1)}, "dropped_args": (headers,),
        "extern_calls": {"is_empty": ("isEmptyBody", ["Bool"], "κ")},
        "result_type": "Option κ × List ι", "return": lambda tr, v: f"({v}, rulesApplied)",
    }
    parser, stmts, tail = _translate(read, fail, path, hdr, cfg)
    out.append("")
    out += _emit(cfg, parser, stmts, tail, fail,
                 "`Action::create_filter_body`: (result, new `rules_applied`); `newBody fs` = `FilterBodyAction::new(fs, headers)`, "
                 f"`isEmptyBody` = `FilterBodyAction::is_empty`; translated from {path}.")

    # Action::filter_headers: the two selection loops (the application of the selected filters and the rule-ids header are not translated)
    hdr, (headers, c, add, ut) = _sig(src, path, r"pub fn filter_headers\(\s*&mut self,\s*(\w+): Vec<Header>,\s*(\w+): u16,\s*(\w+): bool,\s*"
                                               r"(?:mut )?(\w+): Option<&mut UnitTrace>,?\s*\) -> Vec<Header> \{", fail)
    parser, stmts = _translate_prefix(read, fail, path, hdr, 2)
    lets = [st for st in stmts if st[0] == "let" and st[3][0] == "pathcall" and st[3][1] == "Vec::new"]
    if len(lets) != 1 or [st[0] for st in stmts] != ["let", "for", "for"]:
        fail(f"{path}: `filter_headers` no longer starts with `let mut filters = Vec::new();` and the two selection loops")
    # the TAIL is not translated, but its shape is checked (fail closed), so that "the filters handed to `FilterHeaderAction::new`"
    # and "the new `rules_applied`" are what the two loops computed: (a) the next statement is
    # `let [mut] x = match FilterHeaderAction::new(filters) {`, (b) `filters` does not occur again, (c) the only use of `self` in the
    # tail is `self.get_applied_rule_ids()` and the identifier `rules_applied` does not occur, (d) that getter still returns the field
    try:
        _check_filter_headers_tail(parser, lets[0][1])
    except _Fail as e:
        fail(str(e))
    if not re.search(r"pub fn get_applied_rule_ids\(&self\) -> &LinkedHashSet<String> \{\s*&self\.rules_applied\s*\}", src):
        fail(f"{path}: `get_applied_rule_ids` no longer returns `&self.rules_applied`")
    cfg = _select_headers_cfg(c, ut, rt, hfa)
    out.append("")
    out += _emit(cfg, parser, stmts, ("var", lets[0][1], lets[0][4]), fail, _SELECT_DOC + f"translated from {path}.")
    return out


def _check_filter_headers_tail(parser, fvar):
    if True:
        rest = parser.t[parser.i:]
        texts = [t.text for t in rest]
        k = 2 if len(texts) > 1 and texts[1] == "mut" else 1
        want = ["=", "match", "FilterHeaderAction", "::", "new", "(", fvar, ")", "{"]
        if not texts or texts[0] != "let" or len(texts) < k + 1 + len(want) or rest[k].kind != "id" or texts[k + 1:k + 1 + len(want)] != want:
            parser.i = min(parser.i, len(parser.t) - 1)
            parser.fail(f"the statement after the selection loops is no longer `let x = match FilterHeaderAction::new({fvar}) {{`")
        for j, t in enumerate(rest):
            if t.kind == "id" and t.text == fvar and j != k + 7:
                parser.fail(f"`{fvar}` is used again after it was handed to `FilterHeaderAction::new`", t)
            if t.kind == "id" and t.text == "rules_applied":
                parser.fail("`rules_applied` is touched after the selection loops", t)
            if t.kind == "id" and t.text == "self" and texts[j + 1:j + 5] != [".", "get_applied_rule_ids", "(", ")"]:
                parser.fail("`self` is used after the selection loops other than through `self.get_applied_rule_ids()`", t)


_SELECT_DOC = (
    "`Action::filter_headers`, the two selection loops: (the vector `filters`, `rules_applied`) AFTER THE TWO LOOPS.  The rest of the "
    "function is not translated; its shape is checked when this text is generated (the next statement hands exactly `filters` to "
    "`FilterHeaderAction::new`, neither `filters` nor `rules_applied` is touched again, `self` is only read through "
    "`get_applied_rule_ids()` = `&self.rules_applied`); "
)


def _select_headers_cfg(c, ut, rt, hfa):
    return {
        "name": "genActionSelectHeaderFilters", "tparams": "{φ ι : Type}",
        "params": [("insert", "List ι → ι → List ι"), ("c", "Nat")], "loop_params": [],
        "args": {c: "c"}, "arg_rust_types": {c: "Nat"}, "trace_arg": ut,
        "arg_types": [("ruleTraces", "List (GenRuleTrace ι)"), ("headerFilters", "List (GenHeaderFilterAction φ ι)"),
                      ("rulesApplied", "List ι")],
        "self_fields": {"rule_traces": "ruleTraces", "header_filters": "headerFilters", "rules_applied": "rulesApplied"},
        "self_field_types": {"rule_traces": "List (GenRuleTrace ι)", "header_filters": "List (GenHeaderFilterAction φ ι)",
                             "rules_applied": "List ι"},
        "self_out": ["rules_applied"], "set_insert": "insert", "vec_type": "List φ",
        "structs": {"RuleTrace": rt, "HeaderFilterAction": hfa},
        "result_type": "List φ × List ι", "return": lambda tr, v: f"({v}, rulesApplied)",
    }


def extract_visitor(read, fail):
    out = ["-- Rust -> Lean translation: `enter` / `first` of the three HTML body visitors "
           "(tools/consts.d/w4_translate_visitor.py, translator in w4_translate.py)"]
    B = "List Nat"
    for mod, struct, lean, has_buf in [("append", "BodyAppend", "genBodyAppend", False), ("prepend", "BodyPrepend", "genBodyPrepend", True),
                                       ("replace", "BodyReplace", "genBodyReplace", True)]:
        path = f"src/filter/html_body_action/body_{mod}.rs"
        src = read(path)
        want = (r"pub struct " + struct + r" \{\s*element_tree: Vec<String>,\s*position: usize,\s*css_selector: Option<String>,\s*"
                r"content: String,\s*inner_content: String,\s*" + (r"is_buffering: bool,\s*" if has_buf else "") +
                r"id: Option<String>,\s*target_hash: Option<String>,\s*\}")
        if not re.search(want, src):
            fail(f"{path}: `{struct}` no longer has the modelled fields")
        if not re.search(r"position: 0,", src) or (has_buf and not re.search(r"is_buffering: false,", src)):
            fail(f"{path}: `new` no longer starts at position 0" + (" / is_buffering false" if has_buf else ""))
        hdr, names = _sig(src, path, r"pub fn enter\(&mut self, (?:mut )?(\w+): String(?:, (?:mut )?(\w+): Option<&mut UnitTrace>)?\) "
                                    r"-> \(Option<String>, Option<String>, bool, String\) \{", fail)
        data, ut = names[0], names[1]
        sf = {"element_tree": "elementTree", "position": "position", "css_selector": "cssSelector", "content": "content"}
        sft = {"element_tree": f"List ({B})", "position": "Nat", "css_selector": f"Option ({B})", "content": B}
        outs = ["position"]
        if has_buf:
            sf["is_buffering"], sft["is_buffering"] = "isBuffering", "Bool"
            outs.append("is_buffering")
        cfg = {
            "name": lean + "Enter", "params": [], "args": {data: "data"}, "mutable_args": {data: B}, "trace_arg": ut,
            "arg_types": [(sf[f], sft[f]) for f in sf] + [("data", B)],
            "self_fields": sf, "self_field_types": sft, "self_out": outs,
            "none_type": f"Option ({B})", "unwrap_default": {f"Option ({B})": "[]"}, "index_default": {f"List ({B})": "[]"},
            "result_type": f"(Option ({B}) × Option ({B}) × Bool × {B}) × " + ("Nat × Bool" if has_buf else "Nat"),
            "return": (lambda tr, v: f"({v}, position, isBuffering)") if has_buf else (lambda tr, v: f"({v}, position)"),
        }
        parser, stmts, tail = _translate(read, fail, path, hdr, cfg)
        out.append("")
        out += _emit(cfg, parser, stmts, tail, fail,
                     f"`{struct}::enter`: ((next_enter, next_leave, start buffering, data), new `position`" +
                     (", new `is_buffering`" if has_buf else "") + f"); strings as bytes; `v[i]` is rendered `(v[i]?).getD []` and `opt.as_ref().unwrap()` `opt.getD []`: the Rust PANICS (index out of "
                     f"range, `unwrap` of `None`) are totalised here - Proofs/VisitorGen.lean shows that under the representation invariant the defaults are never used; translated from {path}.")
        hdr, _ = _sig(src, path, r"pub fn first\(&self\) -> String \{", fail)
        cfg = {"name": lean + "First", "params": [], "args": {}, "arg_types": [("elementTree", f"List ({B})")],
               "self_fields": {"element_tree": "elementTree"}, "self_field_types": {"element_tree": f"List ({B})"},
               "index_default": {f"List ({B})": "[]"}, "result_type": B, "return": lambda tr, v: v}
        parser, stmts, tail = _translate(read, fail, path, hdr, cfg)
        out.append("")
        out += _emit(cfg, parser, stmts, tail, fail, f"`{struct}::first`; translated from {path}.")
    return out


def extract_router(read, fail):
    out = ["-- Rust -> Lean translation: `match_request` of the host / scheme / method / ip layers of the router "
           "(tools/consts.d/w4_translate_router.py, translator in w4_translate.py).  `next m` = the next layer's "
           "`m.match_request(request)`; map / tree lookups are parameters; a `HashMap` iterated by the code is the list of its entries."]
    d = "src/router/request_matcher/"
    sig = r"pub fn match_request\(&self, (\w+): &Request\) -> Vec<Arc<Route<T>>> \{"
    nxt = {"match_request": ("next", ["List ρ"], "μ")}

    # HostMatcher
    path = d + "host.rs"
    src = read(path)
    if not re.search(r"pub struct HostMatcher<T> \{\s*static_hosts: HashMap<String, IpMatcher<T>>,\s*regex_tree_rule: UniqueRegexTreeMap<IpMatcher<T>>,\s*"
                     r"any_host: IpMatcher<T>,\s*always_match_any_host: bool,", src):
        fail(f"{path}: `HostMatcher` no longer has the modelled fields")
    hdr, (req,) = _sig(src, path, sig, fail)
    cfg = {
        "name": "genHostMatchRequest", "tparams": "{ρ μ η : Type}", "params": [("next", "μ → List ρ")], "args": {},
        "arg_types": [("treeFind", "η → List μ"), ("staticGet", "η → Option μ"), ("anyHost", "μ"), ("alwaysMatchAnyHost", "Bool"),
                      ("host", "Option η")],
        "self_fields": {"any_host": "anyHost", "always_match_any_host": "alwaysMatchAnyHost"},
        "self_field_types": {"any_host": "μ", "always_match_any_host": "Bool"},
        "abstract": {f"{req}.host()": ("host", "Option η")},
        "abstract_calls": {"self.regex_tree_rule.find": ("treeFind", "List μ"), "self.static_hosts.get": ("staticGet", "Option μ")},
        "extern_calls": nxt, "dropped_args": (req,), "vec_type": "List ρ",
        "result_type": "List ρ", "return": lambda tr, v: v,
    }
    parser, stmts, tail = _translate(read, fail, path, hdr, cfg)
    out.append("")
    out += _emit(cfg, parser, stmts, tail, fail,
                 "`HostMatcher::match_request`: `treeFind h` = `regex_tree_rule.find(h)`, `staticGet h` = `static_hosts.get(h)`; "
                 f"translated from {path}.")

    # SchemeMatcher
    path = d + "scheme.rs"
    src = read(path)
    if not re.search(r"pub struct SchemeMatcher<T> \{\s*schemes: HashMap<String, HostMatcher<T>>,\s*any_scheme: HostMatcher<T>,", src):
        fail(f"{path}: `SchemeMatcher` no longer has the modelled fields")
    hdr, (req,) = _sig(src, path, sig, fail)
    cfg = {
        "name": "genSchemeMatchRequest", "tparams": "{ρ μ η : Type}", "params": [("next", "μ → List ρ")], "args": {},
        "arg_types": [("schemesGet", "η → Option μ"), ("anyScheme", "μ"), ("scheme", "Option η")],
        "self_fields": {"any_scheme": "anyScheme"}, "self_field_types": {"any_scheme": "μ"},
        "abstract": {f"{req}.scheme()": ("scheme", "Option η")},
        "abstract_calls": {"self.schemes.get": ("schemesGet", "Option μ")},
        "extern_calls": nxt, "dropped_args": (req,), "vec_type": "List ρ",
        "result_type": "List ρ", "return": lambda tr, v: v,
    }
    parser, stmts, tail = _translate(read, fail, path, hdr, cfg)
    out.append("")
    out += _emit(cfg, parser, stmts, tail, fail, f"`SchemeMatcher::match_request`: `schemesGet s` = `schemes.get(s)`; translated from {path}.")

    # MethodMatcher
    path = d + "method.rs"
    src = read(path)
    if not re.search(r"pub struct MethodMatcher<T> \{\s*methods: HashMap<String, HeaderMatcher<T>>,\s*exclude_methods: HashMap<Vec<String>, HeaderMatcher<T>>,\s*"
                     r"any_method: HeaderMatcher<T>,", src):
        fail(f"{path}: `MethodMatcher` no longer has the modelled fields")
    hdr, (req,) = _sig(src, path, sig, fail)
    cfg = {
        "name": "genMethodMatchRequest", "tparams": "{ρ μ η ε : Type}", "params": [("next", "μ → List ρ"), ("listed", "ε → η → Bool")], "args": {},
        "arg_types": [("methodsGet", "η → Option μ"), ("excludeMethods", "List (ε × μ)"), ("anyMethod", "μ"), ("method", "η")],
        "self_fields": {"any_method": "anyMethod", "exclude_methods": "excludeMethods"},
        "self_field_types": {"any_method": "μ", "exclude_methods": "List (ε × μ)"},
        "abstract": {f"{req}.method()": ("method", "η")},
        "abstract_calls": {"self.methods.get": ("methodsGet", "Option μ")},
        "extern_calls": dict(nxt, contains=("listed", ["Bool"], "ε")), "dropped_args": (req,), "vec_type": "List ρ",
        "result_type": "List ρ", "return": lambda tr, v: v,
    }
    parser, stmts, tail = _translate(read, fail, path, hdr, cfg)
    out.append("")
    out += _emit(cfg, parser, stmts, tail, fail,
                 "`MethodMatcher::match_request`: `methodsGet m` = `methods.get(m)`, `excludeMethods` = the entries of `exclude_methods`, "
                 f"`listed ms m` = `ms.contains(m)`; translated from {path}.")

    # IpMatcher
    path = d + "ip.rs"
    src = read(path)
    if not re.search(r"pub struct IpMatcher<T> \{\s*matchers: HashMap<RouteIp, MethodMatcher<T>>,\s*no_matcher: MethodMatcher<T>,", src):
        fail(f"{path}: `IpMatcher` no longer has the modelled fields")
    hdr, (req,) = _sig(src, path, sig, fail)
    cfg = {
        "name": "genIpMatchRequest", "tparams": "{ρ μ κ α ι : Type} [BEq ι]",
        "params": [("next", "μ → List ρ"), ("matchIp", "κ → α → Bool"), ("idOf", "ρ → ι")], "args": {},
        "arg_types": [("matchers", "List (κ × μ)"), ("noMatcher", "μ"), ("remoteAddr", "Option α")],
        "self_fields": {"no_matcher": "noMatcher", "matchers": "matchers"},
        "self_field_types": {"no_matcher": "μ", "matchers": "List (κ × μ)"},
        "abstract": {f"{req}.remote_addr": ("remoteAddr", "Option α")},
        "extern_calls": dict(nxt, match_ip=("matchIp", ["Bool"], "κ"), id=("idOf", ["ι"], "ρ")), "dropped_args": (req,),
        "vec_type": "List ρ", "result_type": "List ρ", "return": lambda tr, v: v,
    }
    parser, stmts, tail = _translate(read, fail, path, hdr, cfg)
    out.append("")
    out += _emit(cfg, parser, stmts, tail, fail,
                 "`IpMatcher::match_request` incl. the report-once loop: `matchers` = the entries of the map, `matchIp` = `RouteIp::match_ip`, "
                 f"`idOf` = `Route::id`; translated from {path}.")
    return out


def extract(read, fail, lean_str, lean_list):
    return extract_headers(read, fail)
