"""W3d: guards for Model/IntoRoute.lean (no constants emitted, fails closed).

Checks that `impl IntoRoute<Rule> for Rule` still passes the modelled arguments in the modelled order, that
`Rule::headers` still dispatches on exactly the nine modelled `type` strings, that `route_ips` / `route_weekdays`
still return `None` for an empty result and that `from_range` still leaves an unparsable bound open.
"""
import re


def _norm(s):
    return re.sub(r"\s+", " ", s)


def extract(read, fail, lean_str, lean_list):
    rule = read("src/api/rule.rs")
    n = _norm(rule)
    want = ("fn into_route(self, config: &RouterConfig) -> Route<Rule> { Route::new( self.source.methods.clone(), "
            "self.source.exclude_methods, self.source.scheme.clone(), self.host(config.ignore_host_case), "
            "self.path_and_query(config.ignore_path_and_query_case), self.headers(config.ignore_header_case), "
            "self.route_ips(), self.route_datetimes(), self.route_times(), self.route_weekdays(), self.id.clone(), "
            "0 - self.rank as i64, self, ) }")
    if want not in n:
        fail("api/rule.rs: `IntoRoute for Rule::into_route` no longer has the modelled shape")
    m = re.search(r"fn headers\(&self, ignore_case: bool\) -> Vec<RouteHeader> \{(.*?)\n    \}\n", rule, re.S)
    if not m:
        fail("api/rule.rs: `Rule::headers` not found")
    kinds = re.findall(r'^\s*"([a-z_]+)" => ', m.group(1), re.M)
    expected = ["is_defined", "is_not_defined", "is_equals", "is_not_equal_to", "contains", "does_not_contain",
                "ends_with", "starts_with", "match_regex"]
    if kinds != expected:
        fail(f"api/rule.rs: `Rule::headers` dispatches on {kinds}, the model on {expected}")
    if m.group(1).count("if ignore_case { str.to_lowercase() } else { str.clone() }") != 6:
        fail("api/rule.rs: `Rule::headers` no longer lower-cases exactly the six value kinds under ignore_case")
    if "if route_ips.is_empty() { None } else { Some(route_ips) }" not in n:
        fail("api/rule.rs: `route_ips` no longer returns None for an empty list")
    if n.count("if route_datetimes.is_empty() { None } else { Some(route_datetimes) }") != 1 or \
            n.count("if route_times.is_empty() { None } else { Some(route_times) }") != 1:
        fail("api/rule.rs: `route_datetimes` / `route_times` no longer return None for an empty list")
    wd = _norm(read("src/router/route_weekday.rs"))
    if "if route_weekdays.is_empty() { return None; }" not in wd:
        fail("router/route_weekday.rs: `from_weekdays` no longer returns None for an empty list")
    for f, ty in [("src/router/route_datetime.rs", "DateTime<Utc>"), ("src/router/route_time.rs", "NaiveTime")]:
        t = _norm(read(f))
        if t.count(f".parse::<{ty}>()") != 2 or "let mut route_start = None; let mut route_end = None;" not in t:
            fail(f"{f}: `from_range` no longer parses each bound on its own, leaving it None on error")
    return ["-- IntoRoute for Rule (src/api/rule.rs): shape checked by tools/consts.d/into_route.py"]
