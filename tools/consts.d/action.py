"""C05/C11: the sort key of `impl Ord for Rule` (src/api/rule.rs), regenerated on every run.

Emits `ruleCmpRankDescending` / `ruleCmpIdDescending` (is the key compared as `other.k.cmp(&self.k)`?).
Fails closed when `Rule::cmp` is no longer "rank, then id", when `Route::cmp` no longer delegates to
the handler, or when `from_routes_rule` no longer sorts with the natural order.
"""
import re


def _norm(s):
    return re.sub(r"\s+", " ", s)


def extract(read, fail, lean_str, lean_list):
    rule = read("src/api/rule.rs")
    m = re.search(r"impl Ord for Rule \{(.*?)\n\}", rule, re.S)
    if not m:
        fail("api/rule.rs: `impl Ord for Rule` not found")
    body = _norm(m.group(1))
    pat = (r"fn cmp\(&self, other: &Self\) -> Ordering \{ "
           r"let order_on_rank = (self|other)\.rank\.cmp\(&(self|other)\.rank\); "
           r"if order_on_rank != Ordering::Equal \{ return order_on_rank; \} "
           r"(self|other)\.id\.cmp\(&(self|other)\.id\) \}")
    k = re.fullmatch(pat, body.strip())
    if not k:
        fail("api/rule.rs: `Rule::cmp` is no longer `rank.cmp` then `id.cmp` in the expected shape: " + body[:300])
    a, b, c, d = k.groups()
    if a == b or c == d:
        fail("api/rule.rs: `Rule::cmp` compares a value with itself")
    # PartialOrd must delegate to cmp, PartialEq must be (rank, id)
    if not re.search(r"impl PartialOrd for Rule \{\s*fn partial_cmp\(&self, other: &Self\) -> Option<Ordering> \{\s*Some\(self\.cmp\(other\)\)\s*\}\s*\}", rule):
        fail("api/rule.rs: `PartialOrd for Rule` no longer delegates to `cmp`")
    route = _norm(read("src/router/route.rs"))
    if "fn cmp(&self, other: &Self) -> Ordering { self.handler.cmp(&other.handler) }" not in route:
        fail("router/route.rs: `Route::cmp` no longer delegates to the handler")
    if "fn partial_cmp(&self, other: &Self) -> Option<Ordering> { self.handler.partial_cmp(&other.handler) }" not in route:
        fail("router/route.rs: `Route::partial_cmp` no longer delegates to the handler")
    action = read("src/action/mod.rs")
    fr = re.search(r"pub fn from_routes_rule\(mut routes: Vec<Arc<Route<Rule>>>.*?\n    \}\n", action, re.S)
    if not fr or not re.search(r"let mut action = Action::default\(\);\s*routes\.sort\(\);\s*for route in routes \{", fr.group(0)):
        fail("action/mod.rs: `from_routes_rule` no longer starts with `routes.sort()` before the loop")
    return [
        "-- `impl Ord for Rule` (src/api/rule.rs): `other.k.cmp(&self.k)` = descending",
        f"def ruleCmpRankDescending : Bool := {'true' if a == 'other' else 'false'}",
        f"def ruleCmpIdDescending : Bool := {'true' if c == 'other' else 'false'}",
    ]
