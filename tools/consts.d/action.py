"""C05/C11: the sort key of `impl Ord for Rule` (src/api/rule.rs), regenerated on every run.

Emits `ruleCmpRankDescending` / `ruleCmpIdDescending` (is the key compared as `other.k.cmp(&self.k)`?).
Fails closed when `Rule::cmp` is no longer "rank, then id", when `Route::cmp` no longer delegates to
the handler, or when `from_routes_rule` no longer sorts with the natural order.
"""
import re


def _norm(s):
    return re.sub(r"\s+", " ", s)


def extract(read, fail, lean_str, lean_list):
    rule = read("src/api/rule.rs")
    m = re.search(r"impl Ord for Rule \{(.*?)\n\}", rule, re.S)
    if not m:
        fail("api/rule.rs: `impl Ord for Rule` not found")
    body = _norm(m.group(1))
    pat = (r"fn cmp\(&self, other: &Self\) -> Ordering \{ "
           r"let order_on_rank = (self|other)\.rank\.cmp\(&(self|other)\.rank\); "
           r"if order_on_rank != Ordering::Equal \{ return order_on_rank; \} "
           r"(self|other)\.id\.cmp\(&(self|other)\.id\) \}")
    k = re.fullmatch(pat, body.strip())
    if not k:
        fail("api/rule.rs: `Rule::cmp` is no longer `rank.cmp` then `id.cmp` in the expected shape: " + body[:300])
    a, b, c, d = k.groups()
    if a == b or c == d:
        fail("api/rule.rs: `Rule::cmp` compares a value with itself")
    # PartialOrd must delegate to cmp, PartialEq must be (rank, id)
    if not re.search(r"impl PartialOrd for Rule \{\s*fn partial_cmp\(&self, other: &Self\) -> Option<Ordering> \{\s*Some\(self\.cmp\(other\)\)\s*\}\s*\}", rule):
        fail("api/rule.rs: `PartialOrd for Rule` no longer delegates to `cmp`")
    route = _norm(read("src/router/route.rs"))
    if "fn cmp(&self, other: &Self) -> Ordering { self.handler.cmp(&other.handler) }" not in route:
        fail("router/route.rs: `Route::cmp` no longer delegates to the handler")
    if "fn partial_cmp(&self, other: &Self) -> Option<Ordering> { self.handler.partial_cmp(&other.handler) }" not in route:
        fail("router/route.rs: `Route::partial_cmp` no longer delegates to the handler")
    action = read("src/action/mod.rs")
    fr = re.search(r"pub fn from_routes_rule\(mut routes: Vec<Arc<Route<Rule>>>.*?\n    \}\n", action, re.S)
    if not fr or not re.search(r"let mut action = Action::default\(\);\s*routes\.sort\(\);\s*for route in routes \{", fr.group(0)):
        fail("action/mod.rs: `from_routes_rule` no longer starts with `routes.sort()` before the loop")
    # C17 clause 3 (Model/ActionTrace.lean): the action trace sorts by priority = 0 - rank only, then runs the same loop
    if "0 - self.rank as i64," not in rule:
        fail("api/rule.rs: `IntoRoute for Rule` no longer sets priority to `0 - self.rank as i64`")
    tr = _norm(read("src/action/trace.rs"))
    want = ("let mut routes = Trace::<Rule>::get_routes_from_traces(traces); // Reverse order of sort "
            "routes.sort_by_key(|a| a.priority()); for route in routes { "
            "let (action_rule_opt, reset, stop, _) = Action::from_route_rule(route.clone(), request); "
            "if let Some(action_rule) = action_rule_opt { if reset { current_action = action_rule; } else { current_action.merge(action_rule); } } "
            "traces_action.push(TraceAction { action: current_action.clone(), rule: route.handler().clone(), }); "
            "if stop { return traces_action; } }")
    if want not in tr:
        fail("action/trace.rs: `TraceAction::from_trace_rules` no longer has the modelled shape (sort_by_key(priority), step per rule, stop)")
    return [
        "-- `impl Ord for Rule` (src/api/rule.rs): `other.k.cmp(&self.k)` = descending",
        f"def ruleCmpRankDescending : Bool := {'true' if a == 'other' else 'false'}",
        f"def ruleCmpIdDescending : Bool := {'true' if c == 'other' else 'false'}",
    ]


# --------------------------------------------------------------------------------------------
# The two straight-line decision functions StatusCodeUpdate::get_status_code and
# LogOverride::get_log_override are TRANSLATED from the source (whitelisted expression forms only;
# anything else fails closed), so that C05's closed-form theorems are re-proved against what the
# code says now.

_ATOMS = {
    "response_status_code == 0": "c == 0",
    "response_status_code != 0": "c != 0",
    "self.on_response_status_codes.is_empty()": "codes.isEmpty",
    "!self.on_response_status_codes.is_empty()": "!codes.isEmpty",
    "self.exclude_response_status_codes": "excl",
    "!self.exclude_response_status_codes": "!excl",
    "self.on_response_status_codes.contains(&response_status_code)": "codes.contains c",
    "!self.on_response_status_codes.contains(&response_status_code)": "!codes.contains c",
    "self.on_response_status_codes.iter().any(|v| *v == response_status_code)": "codes.any (fun v => v == c)",
    "!self.on_response_status_codes.iter().any(|v| *v == response_status_code)": "!codes.any (fun v => v == c)",
}

_STATUS_EXPRS = {
    "self.status_code": "statusCode",
    "self.fallback_status_code": "fallbackStatusCode",
    "self.rule_id.as_ref()": "ruleId",
    "self.fallback_rule_id.as_ref()": "fallbackRuleId",
    "0": "0",
    "None": "none",
}

_LOG_EXPRS = {
    "Some(self.log_override)": "some logOverride",
    "self.fallback_log_override": "fallbackLogOverride",
    "self.rule_id.clone()": "ruleId",
    "self.fallback_rule_id.clone()": "fallbackRuleId",
    "None": "none",
    "true": "true",
    "false": "false",
}


def _split_top(s, sep):
    """split on `sep` outside parentheses"""
    out, depth, cur, i = [], 0, "", 0
    while i < len(s):
        ch = s[i]
        if ch in "([":
            depth += 1
        elif ch in ")]":
            depth -= 1
        if depth == 0 and s.startswith(sep, i):
            out.append(cur.strip())
            cur = ""
            i += len(sep)
            continue
        cur += ch
        i += 1
    out.append(cur.strip())
    return out


def _cond(src, fail, where):
    if "||" in src:
        fail(f"{where}: `||` is not in the whitelisted condition forms: {src}")
    parts = _split_top(src, "&&")
    out = []
    for p in parts:
        if p not in _ATOMS:
            fail(f"{where}: condition atom not in the whitelist: `{p}`")
        out.append(_ATOMS[p])
    return " && ".join(out)


def _tuple(src, table, arity, fail, where):
    src = src.strip()
    if not (src.startswith("(") and src.endswith(")")):
        fail(f"{where}: expected a tuple, found `{src}`")
    parts = _split_top(src[1:-1], ",")
    if len(parts) != arity:
        fail(f"{where}: expected a {arity}-tuple, found `{src}`")
    out = []
    for p in parts:
        if p not in table:
            fail(f"{where}: tuple component not in the whitelist: `{p}`")
        out.append(table[p])
    return "(" + ", ".join(out) + ")"


def _decision(body, table, arity, fail, where):
    """body = (`if COND { return TUPLE; }`)* TUPLE  ->  Lean if-chain"""
    rest = _norm(body).strip()
    lines = []
    pat = re.compile(r"^if (.*?) \{ return (\(.*?\)); \} ")
    while rest.startswith("if "):
        m = pat.match(rest)
        if not m:
            fail(f"{where}: statement is not `if COND {{ return TUPLE; }}`: {rest[:120]}")
        lines.append((_cond(m.group(1), fail, where), _tuple(m.group(2), table, arity, fail, where)))
        rest = rest[m.end():]
    final = _tuple(rest, table, arity, fail, where)
    if not lines:
        fail(f"{where}: no conditional return found")
    out = []
    for i, (c, t) in enumerate(lines):
        out.append(("  if " if i == 0 else "  else if ") + c + " then " + t)
    out.append("  else " + final)
    return out


def _fn_body(src, signature_re, fail, where):
    m = re.search(signature_re + r" \{\n(.*?)\n    \}\n", src, re.S)
    if not m:
        fail(f"{where}: function not found")
    return m.group(1)


_extract_order = extract


def extract(read, fail, lean_str, lean_list):  # noqa: F811  (wraps the order extraction above)
    out = _extract_order(read, fail, lean_str, lean_list)
    st = read("src/action/status_code_update.rs")
    body = _fn_body(st, r"pub fn get_status_code\(&self, response_status_code: u16\) -> \(u16, Option<&String>\)", fail,
                    "status_code_update.rs get_status_code")
    out += [
        "",
        "/-- `StatusCodeUpdate::get_status_code`, translated from src/action/status_code_update.rs. -/",
        "def statusGetStatusCode (statusCode : Nat) (codes : List Nat) (excl : Bool) (fallbackStatusCode : Nat)",
        "    (ruleId fallbackRuleId : Option (List Nat)) (c : Nat) : Nat × Option (List Nat) :=",
    ] + _decision(body, _STATUS_EXPRS, 2, fail, "status_code_update.rs get_status_code")
    lg = read("src/action/log_override.rs")
    body = _fn_body(lg, r"pub fn get_log_override\(&self, response_status_code: u16\) -> \(Option<bool>, Option<String>, bool\)", fail,
                    "log_override.rs get_log_override")
    out += [
        "",
        "/-- `LogOverride::get_log_override`, translated from src/action/log_override.rs. -/",
        "def logGetLogOverride (logOverride : Bool) (codes : List Nat) (excl : Bool) (fallbackLogOverride : Option Bool)",
        "    (ruleId fallbackRuleId : Option (List Nat)) (c : Nat) : Option Bool × Option (List Nat) × Bool :=",
    ] + _decision(body, _LOG_EXPRS, 3, fail, "log_override.rs get_log_override")
    # the struct fields the translation refers to must still have the modelled types
    for fld in ["pub status_code: u16", "pub on_response_status_codes: Vec<u16>", "pub exclude_response_status_codes: bool",
                "pub fallback_status_code: u16", "pub rule_id: Option<String>", "pub fallback_rule_id: Option<String>"]:
        if fld not in st:
            fail(f"status_code_update.rs: field `{fld}` not found")
    for fld in ["pub log_override: bool", "pub on_response_status_codes: Vec<u16>", "pub exclude_response_status_codes: bool",
                "pub fallback_log_override: Option<bool>", "pub rule_id: Option<String>", "pub fallback_rule_id: Option<String>"]:
        if fld not in lg:
            fail(f"log_override.rs: field `{fld}` not found")
    return out
