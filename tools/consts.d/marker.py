"""C10: literal pieces of the marker code the model depends on (src/marker/mod.rs, src/api/transformer.rs,
src/api/rule.rs).

* the two `format!` strings of `MarkerString::new` (`(?:{})`, `(?P<{}>{})`) are emitted (the model builds the groups from
  them, so `regex_is_tokens` is re-proved against what the source says now);
* `Marker::format` = `@{}`, the two sorts (markers: descending name.len(); variables: descending key.len() then ascending key), the guarded replace and the `replacen(.., 1)` of the capture
  string, and the one-pass scan of `StaticOrDynamic::replace` (compared token for token, comments stripped) must still have the shapes the model mirrors: anything else fails closed;
* the percent-encode sets applied by `Rule::markers()` to a marker expression and by `Rule::path_and_query` to the source
  path are resolved from the call sites to the bytes they add to CONTROLS and emitted (`markerRegexEncodeSet`,
  `markerPathEncodeSet`): the model encodes with them;
* the transformer kinds dispatched by `Transformer::to_transform` and the option keys of replace / slice are emitted
  (Props/C10 `transformer_kinds_tie` checks that the model recognises exactly these).
"""
import re


def extract(read, fail, lean_str, lean_list):
    m = read("src/marker/mod.rs")
    fr = re.findall(r'let marker_regex = format!\("([^"]*)", marker\.regex\);', m)
    fc = re.findall(r'let marker_capture = format!\("([^"]*)", marker\.name, marker\.regex\);', m)
    if len(fr) != 1 or fr[0].count("{}") != 1:
        fail(f"marker/mod.rs: marker_regex format not found or not of the form prefix{{}}suffix: {fr}")
    if len(fc) != 1 or fc[0].count("{}") != 2:
        fail(f"marker/mod.rs: marker_capture format not found or not of the form a{{}}b{{}}c: {fc}")
    rp, rs = fr[0].split("{}")
    ca, cb, cc = fc[0].split("{}")
    for piece in (rp, rs, ca, cb, cc):
        if "\\" in piece or "{" in piece or "}" in piece:
            fail(f"marker/mod.rs: unexpected escape in a group format string: {piece!r}")
    if not re.search(r'format!\("@\{\}", self\.name\)', m):
        fail("marker/mod.rs: Marker::format is no longer format!(\"@{}\", self.name)")
    if not re.search(r"markers\.sort_by\(\|a, b\| b\.name\.len\(\)\.cmp\(&a\.name\.len\(\)\)\);", m):
        fail("marker/mod.rs: the markers are no longer sorted by descending name.len()")
    if not re.search(r"let mut regex = regex::escape\(str\);\s*let mut capture = regex\.clone\(\);", m):
        fail("marker/mod.rs: regex / capture no longer start as regex::escape(str)")
    if not re.search(r"if regex\.contains\(marker\.format\(\)\.as_str\(\)\) \{\s*regex = regex\.replace\(marker\.format\(\)\.as_str\(\), marker_regex\.as_str\(\)\);", m):
        fail("marker/mod.rs: the guarded replace of the matching regex changed shape")
    if not re.search(r"capture = capture\s*\.replacen\(marker\.format\(\)\.as_str\(\), marker_capture\.as_str\(\), 1\)\s*\.replace\(marker\.format\(\)\.as_str\(\), marker_regex\.as_str\(\)\);", m):
        fail("marker/mod.rs: the capture string is no longer replacen(@name, capture group, 1).replace(@name, plain group)")
    rep = re.search(r"pub fn replace\(str: String, variables: &\[\(String, String\)\]\) -> String \{(.*?)\n    \}\n", m, re.S)
    if not rep:
        fail("marker/mod.rs: StaticOrDynamic::replace(str, variables) not found")
    body = re.sub(r"\s*//[^\n]*", "", rep.group(1))
    body = re.sub(r"\s+", " ", body).strip()
    want = ("let mut result = String::with_capacity(str.len()); let mut rest = str.as_str(); "
            "'template: while let Some(at) = rest.find('@') { result.push_str(&rest[..at]); let after = &rest[at + 1..]; "
            "for (name, value) in variables { if after.starts_with(name.as_str()) { result.push_str(value.as_str()); "
            "rest = &after[name.len()..]; continue 'template; } } result.push('@'); rest = after; } "
            "result.push_str(rest); result")
    if body != want:
        fail("marker/mod.rs: StaticOrDynamic::replace is no longer the one-pass scan the model mirrors: " + body[:200])
    r = read("src/api/rule.rs")
    # which percent-encode set Rule::markers() applies to a marker expression, and Rule::path_and_query to the source path:
    # the set is resolved to the bytes it adds to CONTROLS (a marker expression must reach the regex engine verbatim except
    # for control and non-ASCII bytes)
    def set_bytes(name):
        mm = re.search(r"const\s+" + name + r"\s*:\s*&AsciiSet\s*=\s*([^;]*);", r)
        if not mm:
            fail(f"api/rule.rs: encode set {name} not found")
        body = mm.group(1).strip()
        if body == "CONTROLS":
            return []
        if not re.fullmatch(r"&CONTROLS((?:\s*\.add\(b'(?:\\.|[^'\\])'\))*)", body):
            fail(f"api/rule.rs: unexpected definition of {name}: {body}")
        out = []
        for lit in re.findall(r"\.add\(b'((?:\\.|[^'\\]))'\)", body):
            if lit.startswith("\\"):
                esc = {"\\\\": 0x5C, "\\'": 0x27, "\\n": 0x0A, "\\r": 0x0D, "\\t": 0x09, "\\0": 0x00}
                if lit not in esc:
                    fail(f"api/rule.rs: cannot read byte literal b'{lit}' in {name}")
                out.append(esc[lit])
            else:
                out.append(ord(lit))
        return out
    mk = re.findall(r"let regex = utf8_percent_encode\(marker\.regex\.as_str\(\), (\w+)\)\.to_string\(\);", r)
    if len(mk) != 1:
        fail(f"api/rule.rs: Rule::markers() no longer encodes marker.regex with one named set: {mk}")
    pk = re.findall(r"let mut path = utf8_percent_encode\(self\.source\.path\.as_str\(\), (\w+)\)\.to_string\(\);", r)
    if len(pk) != 1:
        fail(f"api/rule.rs: Rule::path_and_query no longer encodes source.path with one named set: {pk}")
    marker_set, path_set = set_bytes(mk[0]), set_bytes(pk[0])
    if not re.search(r"variables\.sort_by\(\|\(key_a, _\), \(key_b, _\)\| key_b\.len\(\)\.cmp\(&key_a\.len\(\)\)\.then_with\(\|\| key_a\.cmp\(key_b\)\)\);", r):
        fail("api/rule.rs: the variables are no longer sorted by (descending key.len(), ascending key)")
    t = read("src/api/transformer.rs")
    body = re.search(r"Some\(kind\) => match kind\.as_str\(\) \{(.*)\n\s*_ => None,", t, re.S)
    if not body:
        fail("api/transformer.rs: the dispatch `match kind.as_str()` was not found")
    kinds = re.findall(r'^\s{16}"(\w+)" =>', body.group(1), re.M)
    if len(kinds) < 1 or len(set(kinds)) != len(kinds):
        fail(f"api/transformer.rs: cannot read the transformer kinds: {kinds}")
    opts = {}
    for kind in kinds:
        seg = re.search(r'"' + kind + r'" => (.*?)(?=\n\s{16}"\w+" =>|\Z)', body.group(1), re.S).group(1)
        opts[kind] = sorted(set(re.findall(r'options\.contains_key\("(\w+)"\)', seg)))
    out = ["-- src/marker/mod.rs: format strings of the marker groups; src/api/transformer.rs: dispatched kinds and their option keys"]
    out.append(f"def markerRegexEncodeSet : List Nat := [{', '.join(str(b) for b in marker_set)}]  -- {mk[0]}")
    out.append(f"def markerPathEncodeSet : List Nat := [{', '.join(str(b) for b in path_set)}]  -- {pk[0]}")
    out.append(f"def markerGroupRegexFormat : String × String := ({lean_str(rp)}, {lean_str(rs)})")
    out.append(f"def markerGroupCaptureFormat : String × String × String := ({lean_str(ca)}, {lean_str(cb)}, {lean_str(cc)})")
    out.append(f"def markerTransformerKinds : List String := {lean_list(kinds)}")
    out.append("def markerTransformerOptions : List (String × List String) := ["
               + ", ".join(f"({lean_str(k)}, {lean_list(opts[k])})" for k in kinds) + "]")
    return out
