"""W22: section `tr_w22_capture` - `Route::capture` (src/router/route.rs) and `Rule::variables` (src/api/rule.rs) translated from the
source on every run (property C10).

Self-contained (own lexer / parser / typed translator for the small statement subset the function uses); everything outside
the subset FAILS CLOSED naming the source line.

    genRouteCapture {σ δ η κ} [BEq σ]
        (lower : σ → σ) (sodCapture : δ → σ → κ) (headerName : η → σ) (headerCapture : η → σ → κ) (extend : κ → κ → κ)
        (selfPathAndQuery : δ) (selfHost : Option δ) (selfHeaders : List η)
        (requestPath : σ) (requestHost : Option σ) (requestHeaders : List (σ × σ)) : κ

ABSTRACT PARAMETERS (callees that are not translated; the equivalence theorem instantiates them with the hand model):
  lower         : `str::to_lowercase`
  sodCapture    : `StaticOrDynamic::capture(&self, &str) -> HashMap<String, String>` (marker/mod.rs; regex engine behind it)
  headerName    : the field `name` of a `RouteHeader`
  headerCapture : `RouteHeader::capture(&self, &str) -> HashMap<String, String>` (route_header.rs -> MarkerString::capture)
  extend        : `HashMap::extend(&mut self, other)` as a function old map -> other map -> new map
DATA PARAMETERS: selfPathAndQuery / selfHost / selfHeaders are `self.path_and_query()` / `self.host()` / `self.headers()` (the
three accessors are checked textually to return the field of the same name); requestPath is
`request.path_and_query_skipped.path_and_query`, requestHost `request.host`, requestHeaders `request.headers` with a request
header as the pair (name, value).  σ = String / &str (`as_str()`, `as_ref()`, `&` are identities on values), κ = the HashMap.

    genRuleVariables {σ μ ν ι ρ}      -- `Rule::variables` (src/api/rule.rs)
        (getMarker : σ → Option μ) (transform : μ → σ → σ) (varName : ν → σ) (getValue : ν → ι → ρ → σ)
        (emptyMap : ι) (insert : ι → σ → σ → ι) (iter : ι → List (σ × σ))
        (sortByKey : (σ → σ → Ordering) → List (σ × σ) → List (σ × σ)) (len : σ → Nat) (cmp : σ → σ → Ordering)
        (selfVariables : List ν) (markers_captured : List (σ × σ)) (request : ρ) : List (σ × σ)

ABSTRACT PARAMETERS of genRuleVariables:
  getMarker  : `Rule::get_marker(&self, &str) -> Option<&Marker>` (checked textually to be `find` on `m.name.as_str() == name`)
  transform  : `Marker::transform(&self, String) -> String`
  varName    : the field `name` of a `Variable`;   getValue : `Variable::get_value(&self, &input, request) -> String`
  emptyMap / insert / iter : `HashMap::new()`, `HashMap::insert` (old map -> key -> value -> new map), the iteration sequence of
               the map `input` (`for (name, value) in &input`)
  sortByKey  : `slice::sort_by` with a comparator that only looks at the first components (closure `|(a, _), (b, _)| ..`)
  len / cmp  : `str::len`, `String::cmp`  (`usize::cmp` is `compare` on Nat, `then_with(|| E)` is `Ordering.then _ E`)
DATA PARAMETERS: selfVariables = `self.variables`; markers_captured = the iteration sequence of the HashMap argument (a list of
pairs); request is passed through to `getValue` only.  `.clone()` is the identity on values.

Subset:  let [mut] x = E;   (`let mut` only at the start of the function, only the expected variables: `parameters` : map with
                             a `capture(..)` initialiser; `variables` = `Vec::new()`, `input` = `HashMap::new()`.  With two
                             mutable variables the state of every fold / branch is the pair, in a canonical order.)
         m.extend(E);  m.insert(A, B);  v.push((A, B));  v.sort_by(|(a, _), (b, _)| E);     (m / v mutable variables)
         if let Some(x) = E { .. }            (no else; no `continue` inside)
         match E { None => { .. } Some(x) => { .. } }     (E an Option; block arms, either order)
         if C { .. } else { .. }
         for x in E { .. }   for (a, b) in E { .. }     (-> List.foldl over the iterated list, state = the mutable variables)
         if C { continue; }                   (only directly in a `for` body: the rest of the body is the else branch)
         tail expression
expressions: variables (a local named like a Lean keyword is written «name»), `&E`, `E != E`, `E == E` (on strings), `(E, E)`,
the field / method table in `_Tr.expr`.
"""
import re

_HEADER = r"pub fn capture\(&self, request: &Request\) -> HashMap<String, String> \{"
_HEADER_VARS = (r"pub fn variables\(&self, markers_captured: &HashMap<String, String>, request: &Request\) -> "
                r"Vec<\(String, String\)> \{")
_GET_MARKER = (r"fn get_marker\(&self, name: &str\) -> Option<&Marker> \{\s*"
               r"self\.markers\.iter\(\)\.find\(\|m\| m\.name\.as_str\(\) == name\)\s*\}")
_ACCESSORS = [
    (r"pub fn host\(&self\) -> Option<&StaticOrDynamic> \{\s*self\.host\.as_ref\(\)\s*\}", "host"),
    (r"pub fn headers\(&self\) -> &Vec<RouteHeader> \{\s*self\.headers\.as_ref\(\)\s*\}", "headers"),
    (r"pub fn path_and_query\(&self\) -> &StaticOrDynamic \{\s*&self\.path_and_query\s*\}", "path_and_query"),
]
_TOKEN = re.compile(r"(?P<ws>\s+)|(?P<com>//[^\n]*)|(?P<id>[A-Za-z_][A-Za-z_0-9]*)|(?P<op>!=|==|=>|::|\|\||[.(){};&=,|])|(?P<bad>.)")
_LEAN_KEYWORDS = {"variable", "universe", "section", "namespace", "instance", "structure", "class", "example", "axiom"}
_LEAN_RESERVED = {"from", "at", "end", "fun", "then", "else", "have", "show", "do", "in", "with", "match", "let", "if", "open",
                  "def", "theorem", "by", "where", "extend", "lower", "sodCapture", "headerName", "headerCapture", "selfHost",
                  "selfHeaders", "selfPathAndQuery", "requestPath", "requestHost", "requestHeaders", "some", "none", "List",
                  "getMarker", "transform", "varName", "getValue", "emptyMap", "insert", "iter", "sortByKey", "len", "cmp",
                  "selfVariables", "compare", "Ordering", "_"}

STR, SOD, HDR, RH, MAP, BOOL = "Str", "SoD", "Header", "ReqHeader", "Map", "Bool"


class _Stop(Exception):
    pass


def _lex(text, line0, fail, where):
    toks, line = [], line0
    for m in _TOKEN.finditer(text):
        k = m.lastgroup
        if k == "bad":
            fail("%s:%d: %s: character %r outside the translated subset" % (where[0], line, where[1], m.group()))
        if k in ("id", "op"):
            toks.append((k, m.group(), line))
        line += m.group().count("\n")
    toks.append(("eof", "", line))
    return toks


class _Parser:
    def __init__(self, toks, lines, fail, where):
        self.t, self.i, self.lines, self._fail, self.where = toks, 0, lines, fail, where

    def fail(self, msg, line=None):
        line = self.t[self.i][2] if line is None else line
        self._fail("%s:%d: %s: %s: `%s`" % (self.where[0], line, self.where[1], msg, self.lines[line - 1].strip()))

    def at(self, text, k=0):
        return self.t[self.i + k][1] == text and self.t[self.i + k][0] != "eof"

    def eat(self, text):
        if not self.at(text):
            self.fail("expected `%s`, found `%s`" % (text, self.t[self.i][1]))
        self.i += 1

    def ident(self):
        k, s, _ = self.t[self.i]
        if k != "id":
            self.fail("expected an identifier, found `%s`" % s)
        self.i += 1
        return s

    def block(self):
        """-> (statements, tail expression or None)"""
        self.eat("{")
        stmts, tail = [], None
        while not self.at("}"):
            if tail is not None:
                self.fail("expression without `;` in the middle of a block")
            line = self.t[self.i][2]
            if self.at("let"):
                self.eat("let")
                mut = self.at("mut")
                if mut:
                    self.eat("mut")
                name = self.ident()
                self.eat("=")
                e = self.expr()
                self.eat(";")
                stmts.append(("let", name, mut, e, line))
            elif self.at("if") and self.at("let", 1):
                self.eat("if"); self.eat("let"); self.eat("Some"); self.eat("(")
                name = self.ident()
                self.eat(")"); self.eat("=")
                e = self.expr()
                b = self.block()
                if self.at("else"):
                    self.fail("`if let .. else` is not translated")
                if b[1] is not None:
                    self.fail("`if let` block with a value is not translated", line)
                stmts.append(("iflet", name, e, b[0], line))
            elif self.at("if"):
                self.eat("if")
                c = self.expr()
                b = self.block()
                if self.at("else"):
                    self.eat("else")
                    if self.at("if"):
                        self.fail("`else if` is not translated")
                    b2 = self.block()
                    if b[1] is not None or b2[1] is not None:
                        self.fail("`if .. else` with a value is not translated", line)
                    stmts.append(("if", c, b[0], b2[0], line))
                elif b[1] is not None or len(b[0]) != 1 or b[0][0][0] != "continue":
                    self.fail("without `else` only `if C { continue; }` is translated", line)
                else:
                    stmts.append(("ifcont", c, line))
            elif self.at("for"):
                self.eat("for")
                name = self.pattern()
                self.eat("in")
                e = self.expr()
                b = self.block()
                if b[1] is not None:
                    self.fail("`for` body with a value", line)
                stmts.append(("for", name, e, b[0], line))
            elif self.at("continue"):
                self.eat("continue"); self.eat(";")
                stmts.append(("continue", line))
            elif self.at("match"):
                self.eat("match")
                e = self.expr()
                self.eat("{")
                arms = {}
                while not self.at("}"):
                    if self.at("None"):
                        self.eat("None")
                        key, binder = "none", None
                    else:
                        self.eat("Some"); self.eat("(")
                        key, binder = "some", self.ident()
                        self.eat(")")
                    self.eat("=>")
                    if not self.at("{"):
                        self.fail("a `match` arm that is not a block is not translated")
                    b = self.block()
                    if b[1] is not None or key in arms:
                        self.fail("`match` arm with a value / repeated arm", line)
                    arms[key] = (binder, b[0])
                    if self.at(","):
                        self.eat(",")
                self.eat("}")
                if set(arms) != {"none", "some"}:
                    self.fail("`match` must have exactly the arms `None` and `Some(x)`", line)
                stmts.append(("match", e, arms, line))
            elif self.t[self.i][1] in ("return", "break", "while", "loop"):
                self.fail("statement form `%s` is not translated" % self.t[self.i][1])
            else:
                e = self.expr()
                if self.at(";"):
                    self.eat(";")
                    stmts.append(("expr", e, line))
                else:
                    tail = e
        self.eat("}")
        return stmts, tail

    def pattern(self):
        """x  or  (x, y)  (y may be `_`)"""
        if self.at("("):
            self.eat("(")
            a = self.ident()
            self.eat(",")
            b = self.ident()
            self.eat(")")
            return (a, b)
        return self.ident()

    def arg(self):
        line = self.t[self.i][2]
        if self.at("||"):
            self.eat("||")
            return ("closure", [], self.expr(), line)
        if self.at("|"):
            self.eat("|")
            pats = []
            while not self.at("|"):
                pats.append(self.pattern())
                if not self.at("|"):
                    self.eat(",")
            self.eat("|")
            return ("closure", pats, self.expr(), line)
        return self.expr()

    def expr(self):
        a = self.postfix()
        if self.at("!=") or self.at("=="):
            op, line = self.t[self.i][1], self.t[self.i][2]
            self.i += 1
            b = self.postfix()
            return ("cmp", op, a, b, line)
        return a

    def postfix(self):
        line = self.t[self.i][2]
        if self.at("&"):
            self.eat("&")
            if self.at("mut"):
                self.fail("`&mut` is not translated")
            return ("ref", self.postfix(), line)
        if self.at("("):
            self.eat("(")
            e = self.expr()
            if self.at(","):
                self.eat(",")
                e = ("tuple", e, self.expr(), line)
            self.eat(")")
        elif self.t[self.i][0] == "id" and self.at("::", 1):
            a = self.ident(); self.eat("::"); b = self.ident(); self.eat("("); self.eat(")")
            e = ("path", a + "::" + b, line)
        else:
            e = ("var", self.ident(), line)
        while self.at("."):
            self.eat(".")
            name = self.ident()
            if self.at("("):
                self.eat("(")
                args = []
                while not self.at(")"):
                    args.append(self.arg())
                    if not self.at(")"):
                        self.eat(",")
                self.eat(")")
                e = ("call", e, name, args, line)
            else:
                e = ("field", e, name, line)
        return e


PAIR, NAT, ORD, VAR, MARKER, IMAP, REQ2 = "Pair", "Nat", "Ordering", "Variable", "Marker", "InputMap", "RequestOpaque"


def _q(name):
    """a Rust local whose name is a Lean keyword is written «name»"""
    return "«%s»" % name if name in _LEAN_KEYWORDS else name


class _Tr:
    """typed translation of one function body; `cfg`: where (for messages), fields / calls tables are below, `mut_types`
    the declared types of the `let mut` variables (name -> type), `paths` the constructor calls `A::b()`"""

    def __init__(self, lines, fail, where, mut_types):
        self.lines, self._fail, self.where, self.mut_types = lines, fail, where, mut_types
        self.muts, self.control = [], False

    def fail(self, msg, line):
        self._fail("%s:%d: %s: `%s`" % (self.where[0], line, self.where[1] + ": " + msg, self.lines[line - 1].strip()))

    def state(self):
        muts = [m for m in self.mut_types if m in self.muts]   # canonical order, not the order of declaration
        return muts[0] if len(muts) == 1 else "(" + ", ".join(muts) + ")"

    def expr(self, e, env):
        """-> (lean text, type)"""
        k, line = e[0], e[-1]
        if k == "var":
            if e[1] not in env:
                self.fail("unknown variable `%s`" % e[1], line)
            return _q(e[1]), env[e[1]]
        if k == "ref":
            return self.expr(e[1], env)
        if k == "cmp":
            (a, ta), (b, tb) = self.expr(e[2], env), self.expr(e[3], env)
            if ta != STR or tb != STR:
                self.fail("`%s` on operands other than strings" % e[1], line)
            return "(%s %s %s)" % (a, e[1], b), BOOL
        if k == "tuple":
            (a, ta), (b, tb) = self.expr(e[1], env), self.expr(e[2], env)
            if ta != STR or tb != STR:
                self.fail("a tuple other than (string, string)", line)
            return "(%s, %s)" % (a, b), PAIR
        if k == "field":
            r, t = self.expr(e[1], env)
            table = {("Request", "host"): ("requestHost", ("opt", STR)),
                     ("Request", "headers"): ("requestHeaders", ("list", RH)),
                     ("Request", "path_and_query_skipped"): ("<pqs>", "PQS"),
                     ("PQS", "path_and_query"): ("requestPath", STR),
                     (RH, "name"): ("%s.1" % r, STR), (RH, "value"): ("%s.2" % r, STR),
                     (HDR, "name"): ("(headerName %s)" % r, STR),
                     ("SelfRule", "variables"): ("selfVariables", ("list", VAR)),
                     (VAR, "name"): ("(varName %s)" % r, STR)}
            if (t, e[2]) not in table:
                self.fail("field `.%s` of a value of type %s is not translated" % (e[2], t), line)
            return table[(t, e[2])]
        if k == "call":
            r, t = self.expr(e[1], env)
            name, n = e[2], len(e[3])
            if t == ORD and n == 1 and name == "then_with" and e[3][0][0] == "closure" and e[3][0][1] == []:
                b, tb = self.expr(e[3][0][2], env)
                if tb != ORD:
                    self.fail("`then_with` closure that does not return an Ordering", line)
                return "(Ordering.then %s %s)" % (r, b), ORD
            if any(a[0] == "closure" for a in e[3]):
                self.fail("a closure argument is not translated here", line)
            args = [self.expr(a, env) for a in e[3]]
            if t == "Self" and n == 0 and name in ("path_and_query", "host", "headers"):
                return {"path_and_query": ("selfPathAndQuery", SOD), "host": ("selfHost", ("opt", SOD)),
                        "headers": ("selfHeaders", ("list", HDR))}[name]
            if t == STR and n == 0 and name == "as_str":
                return r, STR
            if t == STR and n == 0 and name == "to_lowercase":
                return "(lower %s)" % r, STR
            if isinstance(t, tuple) and t[0] == "opt" and n == 0 and name == "as_ref":
                return r, t
            if t in (SOD, HDR) and n == 1 and name == "capture" and args[0][1] == STR:
                return "(%s %s %s)" % ("sodCapture" if t == SOD else "headerCapture", r, args[0][0]), MAP
            # ---- Rule::variables
            if t == STR and n == 0 and name == "clone":
                return r, STR
            if t == STR and n == 0 and name == "len":
                return "(len %s)" % r, NAT
            if t in (STR, NAT) and n == 1 and name == "cmp" and args[0][1] == t:
                return ("(cmp %s %s)" if t == STR else "(compare %s %s)") % (r, args[0][0]), ORD
            if t == "SelfRule" and n == 1 and name == "get_marker" and args[0][1] == STR:
                return "(getMarker %s)" % args[0][0], ("opt", MARKER)
            if t == MARKER and n == 1 and name == "transform" and args[0][1] == STR:
                return "(transform %s %s)" % (r, args[0][0]), STR
            if t == ("list", VAR) and n == 0 and name == "is_empty":
                return "(List.isEmpty %s)" % r, BOOL
            if t == VAR and n == 2 and name == "get_value" and args[0][1] == IMAP and args[1][1] == REQ2:
                return "(getValue %s %s %s)" % (r, args[0][0], args[1][0]), STR
            self.fail("call `.%s(..)` with %d argument(s) on a value of type %s is not translated" % (name, n, t), line)
        self.fail("expression form is not translated", line)

    def bind(self, name, line, env, kw=False):
        if name in _LEAN_KEYWORDS and not kw:
            self.fail("binder name `%s` is a Lean keyword and cannot be used here" % name, line)
        if name in _LEAN_RESERVED or name in self.muts or name in ("self", "request"):
            self.fail("binder name `%s` cannot be used" % name, line)

    def bind_pattern(self, pat, ty, line, env):
        """-> lean binder text; extends env"""
        if isinstance(pat, tuple):
            if ty != PAIR:
                self.fail("tuple pattern on a value that is not a (string, string) pair", line)
            for x in pat:
                self.bind(x, line, env)
                env[x] = STR
            if pat[0] == pat[1]:
                self.fail("repeated binder", line)
            return "(%s, %s)" % pat
        self.bind(pat, line, env, kw=True)
        env[pat] = ty
        return _q(pat)

    def seq(self, stmts, final, env, ind, in_loop):
        """Lean term (lines) for the statement list; `final` is the value at the end of the block"""
        if not stmts:
            return [ind + final]
        st, rest = stmts[0], stmts[1:]
        k, line = st[0], st[-1]
        env = dict(env)
        if k == "let":
            _, name, mut, e, _ = st
            self.bind(name, line, env)
            if mut:
                if self.control or in_loop is not None or name not in self.mut_types or e[0] not in ("path", "call"):
                    self.fail("`let mut` other than the expected ones at the start of the function", line)
                ty = self.mut_types[name]
                if e[0] == "path":
                    want = {("list", PAIR): ("Vec::new", "[]"), IMAP: ("HashMap::new", "emptyMap")}.get(ty)
                    if want is None or e[1] != want[0]:
                        self.fail("initialiser of `%s` is not the expected constructor" % name, line)
                    lean = want[1]
                else:
                    lean, ty2 = self.expr(e, env)
                    if ty2 != ty:
                        self.fail("initialiser of `%s` has an unexpected type" % name, line)
                self.muts.append(name)
            else:
                lean, ty = self.expr(e, env)
                if ty in (MAP, IMAP) or isinstance(ty, tuple):
                    self.fail("an immutable binding of this type is not translated", line)
            env[name] = ty
            return [ind + "let %s := %s" % (name, lean)] + self.seq(rest, final, env, ind, in_loop)
        if k == "expr":
            e = st[1]
            if not (e[0] == "call" and e[1][0] == "var" and e[1][1] in self.muts):
                self.fail("expression statement other than a method call on a mutable variable", line)
            m, meth, args = e[1][1], e[2], e[3]
            ty = env[m]
            if meth == "extend" and ty == MAP and len(args) == 1:
                lean, t = self.expr(args[0], env)
                if t != MAP:
                    self.fail("argument of `extend` is not a map", line)
                new = "extend %s %s" % (m, lean)
            elif meth == "insert" and ty == IMAP and len(args) == 2:
                (a, ta), (b, tb) = self.expr(args[0], env), self.expr(args[1], env)
                if ta != STR or tb != STR:
                    self.fail("arguments of `insert` are not strings", line)
                new = "insert %s %s %s" % (m, a, b)
            elif meth == "push" and ty == ("list", PAIR) and len(args) == 1:
                lean, t = self.expr(args[0], env)
                if t != PAIR:
                    self.fail("argument of `push` is not a pair", line)
                new = "%s ++ [%s]" % (m, lean)
            elif meth == "sort_by" and ty == ("list", PAIR) and len(args) == 1 and args[0][0] == "closure":
                pats = args[0][1]
                if not (len(pats) == 2 and all(isinstance(q, tuple) and q[1] == "_" and q[0] != "_" for q in pats)
                        and pats[0][0] != pats[1][0]):
                    self.fail("`sort_by` closure must have the parameters `|(a, _), (b, _)|`", line)
                inner = dict(env)
                for q in pats:
                    self.bind(q[0], line, inner)
                    inner[q[0]] = STR
                body, t = self.expr(args[0][2], inner)
                if t != ORD:
                    self.fail("`sort_by` closure does not return an Ordering", line)
                new = "sortByKey (fun %s %s => %s) %s" % (pats[0][0], pats[1][0], body, m)
            else:
                self.fail("method `.%s(..)` on the mutable variable `%s` is not translated" % (meth, m), line)
            return [ind + "let %s := %s" % (m, new)] + self.seq(rest, final, env, ind, in_loop)
        if not self.muts:
            self.fail("control flow before a mutable variable is declared", line)
        self.control = True
        S = self.state()
        more = lambda: self.seq(rest, final, env, ind, in_loop)
        if k == "iflet":
            _, name, e, block, _ = st
            lean, ty = self.expr(e, env)
            if not (isinstance(ty, tuple) and ty[0] == "opt"):
                self.fail("`if let Some(..) =` on a value that is not an Option", line)
            inner = dict(env)
            self.bind(name, line, inner)
            inner[name] = ty[1]
            body = self.seq(block, S, inner, ind + "    ", False if in_loop is not None else None)
            return ([ind + "let %s := (match %s with" % (S, lean), ind + "  | some %s =>" % name] + body +
                    [ind + "  | none => %s)" % S] + more())
        if k == "match":
            _, e, arms, _ = st
            lean, ty = self.expr(e, env)
            if not (isinstance(ty, tuple) and ty[0] == "opt"):
                self.fail("`match` on a value that is not an Option", line)
            nested = False if in_loop is not None else None
            inner = dict(env)
            self.bind(arms["some"][0], line, inner)
            inner[arms["some"][0]] = ty[1]
            return ([ind + "let %s := (match %s with" % (S, lean), ind + "  | none =>"] +
                    self.seq(arms["none"][1], S, env, ind + "    ", nested) +
                    [ind + "  | some %s =>" % arms["some"][0]] + self.seq(arms["some"][1], S, inner, ind + "    ", nested) +
                    [ind + "  )"] + more())
        if k == "if":
            c, ty = self.expr(st[1], env)
            if ty != BOOL:
                self.fail("condition is not a boolean", line)
            nested = False if in_loop is not None else None
            return ([ind + "let %s := (if %s then" % (S, c)] + self.seq(st[2], S, env, ind + "    ", nested) +
                    [ind + "  else"] + self.seq(st[3], S, env, ind + "    ", nested) + [ind + "  )"] + more())
        if k == "ifcont":
            if in_loop is not True:
                self.fail("`continue` outside the top level of a `for` body is not translated", line)
            c, ty = self.expr(st[1], env)
            if ty != BOOL:
                self.fail("condition is not a boolean", line)
            return [ind + "if %s then %s else" % (c, S)] + more()
        if k == "for":
            _, pat, e, block, _ = st
            lean, ty = self.expr(e, env)
            if ty == IMAP:
                lean, ty = "(iter %s)" % lean, ("list", PAIR)
            if not (isinstance(ty, tuple) and ty[0] == "list"):
                self.fail("`for` over a value that is not a list", line)
            inner = dict(env)
            binder = self.bind_pattern(pat, ty[1], line, inner)
            body = self.seq(block, S, inner, ind + "    ", True)
            return ([ind + "let %s := List.foldl (fun %s %s =>" % (S, S, binder)] + body + [ind + "    ) %s %s" % (S, lean)] +
                    more())
        if k == "continue":
            self.fail("`continue` outside `if C { continue; }`", line)
        self.fail("statement form is not translated", line)


def _translate(src, path, fname, header, env, mut_types, fail):
    m = list(re.finditer(header, src))
    if len(m) != 1:
        fail("%s: expected exactly one `%s` with the known signature" % (path, fname))
    start = m[0].end()
    depth, i = 1, start
    while depth:
        if i >= len(src):
            fail("%s: unbalanced braces in %s" % (path, fname))
        depth += {"{": 1, "}": -1}.get(src[i], 0)
        i += 1
    body, line0 = src[start:i - 1], src.count("\n", 0, start) + 1
    lines = src.split("\n")
    where = (path, fname)
    toks = _lex("{" + body + "}", line0, fail, where)
    p = _Parser(toks, lines, fail, where)
    stmts, tail = p.block()
    if p.t[p.i][0] != "eof":
        p.fail("text after the function body")
    if tail is None:
        fail("%s:%d: %s: no tail expression" % (path, line0, fname))
    # top-level lets are the only scope-extending statements: replay them for the environment of the tail expression
    tenv = dict(env)
    tr2 = _Tr(lines, fail, where, mut_types)
    for st in stmts:
        if st[0] == "let":
            tenv[st[1]] = mut_types[st[1]] if st[2] and st[1] in mut_types else tr2.expr(st[3], tenv)[1]
    tl, tty = tr2.expr(tail, tenv)
    tr = _Tr(lines, fail, where, mut_types)
    body_lines = tr.seq(stmts, tl, env, "  ", None)
    if sorted(tr.muts) != sorted(mut_types):
        fail("%s:%d: %s: the mutable variables are not the expected ones" % (path, line0, fname))
    return body_lines, tty


def extract(read, fail, lean_str, lean_list):
    src = read("src/router/route.rs")
    for pat, name in _ACCESSORS:
        if len(re.findall(pat, src)) != 1:
            fail("route.rs: accessor `%s()` of Route is not the plain field accessor any more" % name)
    cap, ty = _translate(src, "src/router/route.rs", "Route::capture", _HEADER, {"self": "Self", "request": "Request"},
                         {"parameters": MAP}, fail)
    if ty != MAP:
        fail("route.rs: Route::capture: the tail expression is not the map")
    rule = read("src/api/rule.rs")
    if len(re.findall(_GET_MARKER, rule)) != 1:
        fail("rule.rs: `Rule::get_marker` does not have the known signature any more")
    var, ty = _translate(rule, "src/api/rule.rs", "Rule::variables", _HEADER_VARS,
                         {"self": "SelfRule", "request": REQ2, "markers_captured": ("list", PAIR)},
                         {"variables": ("list", PAIR), "input": IMAP}, fail)
    if ty != ("list", PAIR):
        fail("rule.rs: Rule::variables: the tail expression is not the vector")
    return (["/-- `Route::capture` (src/router/route.rs), translated by tools/consts.d/tr_w22_capture.py -/",
             "def genRouteCapture {σ δ η κ : Type} [BEq σ]",
             "    (lower : σ → σ) (sodCapture : δ → σ → κ) (headerName : η → σ) (headerCapture : η → σ → κ) (extend : κ → κ → κ)",
             "    (selfPathAndQuery : δ) (selfHost : Option δ) (selfHeaders : List η)",
             "    (requestPath : σ) (requestHost : Option σ) (requestHeaders : List (σ × σ)) : κ :="] + cap +
            ["", "set_option linter.unusedVariables false in", "/-- `Rule::variables` (src/api/rule.rs), translated by tools/consts.d/tr_w22_capture.py -/",
             "def genRuleVariables {σ μ ν ι ρ : Type}",
             "    (getMarker : σ → Option μ) (transform : μ → σ → σ) (varName : ν → σ) (getValue : ν → ι → ρ → σ)",
             "    (emptyMap : ι) (insert : ι → σ → σ → ι) (iter : ι → List (σ × σ))",
             "    (sortByKey : (σ → σ → Ordering) → List (σ × σ) → List (σ × σ)) (len : σ → Nat) (cmp : σ → σ → Ordering)",
             "    (selfVariables : List ν) (markers_captured : List (σ × σ)) (request : ρ) : List (σ × σ) :="] + var)
