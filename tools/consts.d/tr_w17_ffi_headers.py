"""W17: section `w17_ffi_headers` - the C header LIST walk (C18 / C07), translated from the source on every run:

  src/ffi_helpers.rs   c_char_to_str, string_to_c_char                       -> genCCharToStr, genStringToCChar
  src/http/ffi.rs      struct HeaderMap                                      -> structure GenHeaderMap
                       http_headers_to_header_map                            -> genHttpHeadersToHeaderMap (+ ..For1 / ..For1Body)
                       header_map_to_http_headers                            -> genHeaderMapToHttpHeaders (+ ..While1 / ..While1Body)

Self-contained (own lexer / parser / translator for a small whitelisted subset; w4_translate.py is not used: raw pointers,
`while`, `unsafe`, `Box::into_raw` are outside its typed subset).  Anything outside the subset FAILS CLOSED naming the line.

REPRESENTATION (the preamble of the section, fixed text; part of the trusted reading of the std / pointer operations)
  String / &str / CStr / CString        List Nat                 the bytes (for a C string: the bytes BEFORE the terminating NUL)
  *const c_char / *mut c_char           Option (List Nat)        none = NULL
  *const HeaderMap / *mut HeaderMap     Option Nat               none = NULL, some i = address i of the node store
  the memory holding HeaderMap nodes    store : List GenHeaderMap (address = index); every node has its own `next` POINTER, so
                                        cyclic / dangling lists are representable; nothing here makes a walk terminate
  Header { name, value }                List Nat × List Nat      (checked against `pub struct Header` in src/http/header.rs)
  Vec<Header>                           List (List Nat × List Nat)
  every generated function returns      Except GenFfiErr T       nullDeref (a NULL pointer was dereferenced), dangling (an address
                                        outside the store), outOfFuel (a `while` loop was cut after `fuel` executions of its body)
  `unsafe { &*p }`  (p a node pointer)  genDerefHeaderMap store p            none -> nullDeref, outside the store -> dangling
  `unsafe { CStr::from_ptr(p) }`        genCStrFromPtr p                     none -> nullDeref (NOT totalised: the guard is proved)
  `Box::into_raw(Box::new(HeaderMap{..}))`  genBoxIntoRawHeaderMap store n = (store ++ [n], some store.length)   a FRESH address
  `CString::new(s)`                     genCStringNew s : Except Unit (List Nat)   Err iff s contains a 0 byte (std contract)
  `cstring.into_raw()`                  some cstring
  `cstr.to_str()`                       genCStrToStr utf8 cstr : Except Unit (List Nat)   Ok iff `utf8 cstr`
  `.clone()`, `.as_str()`, `.to_string()`, `p as *mut HeaderMap`, `&coll` in `for x in &coll`     identity on the value
  `log::error!(..);`                    skipped (logging only; the macro arguments must be plain names / method calls on names)

ABSTRACT PARAMETERS of the generated definitions
  utf8 : List Nat -> Bool               UTF-8 validity of a byte string (`CStr::to_str`); the theorems hold for every `utf8`
  fuel : Nat                            bound on the number of body executions of the `while` loop (outOfFuel beyond); Props/C18gen
                                        proves that `length of the list` is enough and necessary
  store : List GenHeaderMap             the node memory (read by the walk, extended by http_headers_to_header_map, which returns
                                        the new store together with the pointer)

LOOPS.  `while C { B }` becomes  <fn>WhileK fuel state : if C then (fuel = 0 -> outOfFuel | run <fn>WhileKBody, recurse with fuel-1)
else state;  `for x in &v { B }` structural recursion over v running <fn>ForKBody.  The body is a function state -> Except err state
where state = ALL `let mut` variables in scope (declaration order; plus `store` when the function allocates); `continue` returns
the state AS IT IS AT THAT POINT (assignments are `let` shadowings in source order), so moving `current = header.next` behind a
`continue` makes the generated walk keep `current` and run out of fuel.  `return` inside a loop, `break`, `else`, `if let`,
`loop`, nested loops: not in the subset (fail closed).
"""
import re

_TOKEN = re.compile(r"""
    (?P<ws>\s+) |
    (?P<comment>//[^\n]*) |
    (?P<str>"(?:\\.|[^"\\])*") |
    (?P<life>'[a-z_]+) |
    (?P<num>\d+) |
    (?P<macro>[A-Za-z_][A-Za-z0-9_]*(?:::[A-Za-z_][A-Za-z0-9_]*)*!) |
    (?P<id>[A-Za-z_][A-Za-z0-9_]*) |
    (?P<op>::|->|=>|==|!=|&&|\|\||[!.,;:(){}&=<>*])
""", re.X)

BYTES = "List Nat"
T_LEAN = {"cptr": "Option (List Nat)", "nptr": "Option Nat", "str": BYTES, "cstr": BYTES, "cstring": BYTES,
          "hdr": "(List Nat × List Nat)", "vec_hdr": "List (List Nat × List Nat)", "node": "GenHeaderMap",
          "opt_str": "Option (List Nat)", "bool": "Bool"}
RUST_TY = {"*const c_char": "cptr", "*mut c_char": "cptr", "*const HeaderMap": "nptr", "*mut HeaderMap": "nptr",
           "String": "str", "Vec<Header>": "vec_hdr", "Option<&'static str>": "opt_str"}
LEAN_KEYWORDS = {"at", "from", "end", "then", "else", "do", "fun", "match", "with", "let", "if", "in", "open", "by", "have",
                 "show", "store", "fuel", "utf8", "e", "Type", "Prop", "Sort"}

RUST_KEYWORDS = {"if", "else", "match", "while", "for", "loop", "break", "continue", "return", "let", "mut", "unsafe", "as", "in",
                 "fn", "pub", "ref", "move", "const", "static", "struct", "impl", "use", "where", "dyn", "true", "false", "self"}
NOLINT = "set_option linter.unusedVariables false in"

PREAMBLE = """/-- outcome of an operation the Rust code performs through a raw pointer / of a cut loop (section w17_ffi_headers) -/
inductive GenFfiErr where
  | nullDeref | dangling | outOfFuel
deriving DecidableEq, Repr

/-- the raw dereference `&*p` of a node pointer: NULL and addresses outside the store are failures, not defaults -/
def genDerefHeaderMap (store : List GenHeaderMap) : Option Nat → Except GenFfiErr GenHeaderMap
  | none => .error .nullDeref
  | some i =>
    match store[i]? with
    | none => .error .dangling
    | some n => .ok n

/-- `CStr::from_ptr(p)`: the bytes before the terminator; NULL is a failure -/
def genCStrFromPtr : Option (List Nat) → Except GenFfiErr (List Nat)
  | none => .error .nullDeref
  | some b => .ok b

/-- `CString::new(s)`: `Err(NulError)` iff `s` contains a 0 byte -/
def genCStringNew (s : List Nat) : Except Unit (List Nat) := if 0 ∈ s then .error () else .ok s

/-- `CStr::to_str`: `Ok` iff the bytes are valid UTF-8 -/
def genCStrToStr (utf8 : List Nat → Bool) (b : List Nat) : Except Unit (List Nat) := if utf8 b then .ok b else .error ()

/-- `Box::into_raw(Box::new(node))`: a fresh address of the node store -/
def genBoxIntoRawHeaderMap (store : List GenHeaderMap) (n : GenHeaderMap) : List GenHeaderMap × Option Nat :=
  (store ++ [n], some store.length)
"""


class _Tok:
    def __init__(self, kind, text, line):
        self.kind, self.text, self.line = kind, text, line


class _Stop(Exception):
    pass


def _camel(name):
    parts = name.split("_")
    return parts[0] + "".join(p[:1].upper() + p[1:] for p in parts[1:])


def _lv(name):
    c = _camel(name)
    return c + "'" if c in LEAN_KEYWORDS else c


class _Parser:
    def __init__(self, src, first_line, where):
        self.where = where
        self.lines = {first_line + k: l for k, l in enumerate(src.split("\n"))}
        self.t, self.i = [], 0
        pos, line = 0, first_line
        while pos < len(src):
            m = _TOKEN.match(src, pos)
            if not m:
                raise _Stop(f"{where}:{line}: character not in the subset: `{self.lines.get(line, '').strip()}`")
            if m.lastgroup not in ("ws", "comment"):
                self.t.append(_Tok(m.lastgroup, m.group(0), line))
            line += m.group(0).count("\n")
            pos = m.end()
        self.t.append(_Tok("eof", "<eof>", line))

    def fail(self, msg, line=None):
        line = line if line is not None else self.t[min(self.i, len(self.t) - 1)].line
        raise _Stop(f"{self.where}:{line}: {msg}: `{self.lines.get(line, '').strip()}`")

    def peek(self, k=0):
        return self.t[min(self.i + k, len(self.t) - 1)]

    def at(self, text, k=0):
        tk = self.peek(k)
        return tk.text == text and tk.kind != "str"

    def eat(self, text):
        if not self.at(text):
            self.fail(f"expected `{text}`, found `{self.peek().text}`")
        self.i += 1

    def ident(self):
        tk = self.peek()
        if tk.kind != "id":
            self.fail(f"expected a name, found `{tk.text}`")
        if tk.text in RUST_KEYWORDS:
            self.fail(f"`{tk.text}` is not in the subset at this place")
        self.i += 1
        return tk.text

    def type_text(self, stops):
        """the tokens of a type up to one of `stops` at angle depth 0, normalised"""
        out, depth = [], 0
        while True:
            tk = self.peek()
            if tk.kind == "eof":
                self.fail("unterminated type")
            if depth == 0 and tk.text in stops:
                break
            if tk.text == "<":
                depth += 1
            if tk.text == ">":
                depth -= 1
            out.append(tk.text)
            self.i += 1
        s = ""
        for x in out:
            if s and (s[-1].isalnum() or s[-1] == "_") and (x[0].isalnum() or x[0] == "_"):
                s += " "
            s += x
        return s

    # ---- statements
    def block(self):
        self.eat("{")
        stmts, tail = [], None
        while not self.at("}"):
            if tail is not None:
                self.fail("expression without `;` in the middle of a block")
            st = self.statement()
            if st[0] == "tail":
                tail = st[1]
            else:
                stmts.append(st)
        self.eat("}")
        return stmts, tail

    def log_macro(self):
        """`log::error!( "fmt", args.. );` - arguments restricted to names and method / path calls on names (no effects on the
        translated state: no assignment, no `push`, no macro inside)"""
        line = self.peek().line
        self.i += 1
        self.eat("(")
        depth = 1
        while depth:
            tk = self.peek()
            if tk.kind == "eof":
                self.fail("unterminated macro", line)
            if tk.kind == "macro" or tk.text in ("=", "{", "}", ";", "push", "into_raw", "unsafe"):
                self.fail("logging macro argument outside the subset", tk.line)
            if tk.text == "(":
                depth += 1
            if tk.text == ")":
                depth -= 1
            self.i += 1
        self.eat(";")
        return ("log", line)

    def statement(self):
        tk = self.peek()
        line = tk.line
        if tk.kind == "macro":
            if tk.text not in ("log::error!", "log::warn!", "log::debug!", "log::info!", "log::trace!"):
                self.fail(f"macro `{tk.text}` is not in the subset")
            return self.log_macro()
        if self.at("let"):
            self.i += 1
            mut = False
            if self.at("mut"):
                self.i += 1
                mut = True
            name = self.ident()
            ann = None
            if self.at(":"):
                self.i += 1
                ann = self.type_text(("=",))
            self.eat("=")
            e = self.expr()
            self.eat(";")
            return ("let", name, mut, ann, e, line)
        if self.at("while"):
            self.i += 1
            cond = self.expr(no_struct=True)
            body = self.block()
            return ("while", cond, body, line)
        if self.at("for"):
            self.i += 1
            var = self.ident()
            self.eat("in")
            self.eat("&")
            coll = self.ident()
            body = self.block()
            return ("for", var, coll, body, line)
        if self.at("if"):
            self.i += 1
            cond = self.expr(no_struct=True)
            body = self.block()
            if self.at("else"):
                self.fail("`else` is not in the subset")
            return ("if", cond, body, line)
        if self.at("return"):
            self.i += 1
            e = self.expr()
            self.eat(";")
            return ("return", e, line)
        if self.at("continue"):
            self.i += 1
            self.eat(";")
            return ("continue", line)
        for kw in ("break", "loop", "match"):
            if self.at(kw) and kw != "match":
                self.fail(f"`{kw}` is not in the subset")
        if tk.kind == "id" and self.at("=", 1):
            name = self.ident()
            self.eat("=")
            e = self.expr()
            self.eat(";")
            return ("assign", name, e, line)
        e = self.expr()
        if self.at(";"):
            self.i += 1
            return ("expr", e, line)
        if self.at("}"):
            return ("tail", e)
        self.fail("statement form not in the subset")

    # ---- expressions
    def expr(self, no_struct=False):
        line = self.peek().line
        if self.at("!"):
            self.i += 1
            return ("not", self.expr(no_struct), line)
        e = self.postfix(no_struct)
        while self.at("as"):
            self.i += 1
            ty = self.type_text((";", ",", ")", "}", "{"))
            e = ("cast", e, ty, line)
        for op in ("==", "!=", "&&", "||", "<", ">", "*", "&"):
            if self.at(op):
                self.fail(f"operator `{op}` is not in the subset")
        return e

    def postfix(self, ns):
        e = self.primary(ns)
        while self.at("."):
            line = self.peek().line
            self.i += 1
            name = self.ident()
            if self.at("("):
                e = ("method", e, name, self.args(), line)
            else:
                e = ("field", e, name, line)
        return e

    def args(self):
        self.eat("(")
        out = []
        while not self.at(")"):
            out.append(self.expr())
            if not self.at(")"):
                self.eat(",")
        self.eat(")")
        return out

    def primary(self, ns):
        tk = self.peek()
        line = tk.line
        if self.at("unsafe"):
            self.i += 1
            self.eat("{")
            if self.at("&") and self.at("*", 1):
                self.i += 2
                e = ("deref", ("var", self.ident(), line), line)
            else:
                e = self.expr()
            self.eat("}")
            return ("unsafe", e, line)
        if self.at("match"):
            self.i += 1
            scrut = self.expr(no_struct=True)
            self.eat("{")
            arms = []
            while not self.at("}"):
                aline = self.peek().line
                ctor = self.ident()
                binder = None
                if self.at("("):
                    self.i += 1
                    binder = self.ident()
                    self.eat(")")
                self.eat("=>")
                if self.at("{"):
                    body = ("block",) + self.block()
                    if self.at(","):
                        self.i += 1
                elif self.at("continue"):
                    self.i += 1
                    body = ("continue", aline)
                    self.eat(",")
                elif self.at("return"):
                    self.i += 1
                    body = ("block", [("return", self.expr(), aline)], None)
                    self.eat(",")
                else:
                    body = ("block", [], self.expr())
                    self.eat(",")
                arms.append((ctor, binder, body, aline))
            self.eat("}")
            return ("match", scrut, arms, line)
        if tk.kind == "id":
            path = [self.ident()]
            while self.at("::"):
                self.i += 1
                path.append(self.ident())
            name = "::".join(path)
            if self.at("("):
                return ("call", name, self.args(), line)
            if self.at("{") and not ns and name[:1].isupper():
                self.i += 1
                fields = []
                while not self.at("}"):
                    f = self.ident()
                    self.eat(":")
                    fields.append((f, self.expr()))
                    if not self.at("}"):
                        self.eat(",")
                self.eat("}")
                return ("struct", name, fields, line)
            if len(path) > 1:
                self.fail("path expression outside a call")
            return ("var", name, line)
        self.fail(f"expression form not in the subset (`{tk.text}`)")


def _find_fn(src, path, name, fail):
    m = re.search(r"^pub fn " + re.escape(name) + r"\(([^)]*)\)\s*(?:->\s*([^{]+?))?\s*\{", src, re.M)
    if not m:
        fail(f"{path}: `pub fn {name}(..)` not found")
    if len(re.findall(r"\bfn " + re.escape(name) + r"\b", src)) != 1:
        fail(f"{path}: more than one `fn {name}`")
    start = m.end() - 1
    depth, pos = 0, start
    while True:
        c = src[pos]
        if c == "{":
            depth += 1
        elif c == "}":
            depth -= 1
            if depth == 0:
                break
        elif c == '"':
            pos = re.compile(r'"(?:\\.|[^"\\])*"').match(src, pos).end() - 1
        elif src.startswith("//", pos):
            pos = src.index("\n", pos)
        pos += 1
    params = []
    for p in [x.strip() for x in m.group(1).split(",") if x.strip()]:
        pm = re.fullmatch(r"(?:mut\s+)?([a-z_][a-z0-9_]*)\s*:\s*(.+)", p)
        if not pm:
            fail(f"{path}: parameter `{p}` of `{name}` not in the subset")
        params.append((pm.group(1), re.sub(r"\s+", " ", pm.group(2).strip())))
    ret = re.sub(r"\s+", " ", (m.group(2) or "()").strip())
    return params, ret, src[start:pos + 1], src.count("\n", 0, start) + 1


class _Tr:
    """translation of one function"""

    def __init__(self, name, params, ret, parser, fail, allocates):
        self.name, self.parser, self._fail, self.allocates = name, parser, fail, allocates
        self.lean = "gen" + _camel("x_" + name)[1:]
        self.params = []
        for p, ty in params:
            if ty not in RUST_TY:
                fail(f"{parser.where}: parameter type `{ty}` of `{name}` is not modelled")
            self.params.append((p, RUST_TY[ty]))
        if ret not in RUST_TY:
            fail(f"{parser.where}: return type `{ret}` of `{name}` is not modelled")
        self.ret = RUST_TY[ret]
        self.tmp = 0
        self.nloop = 0
        self.aux = []          # auxiliary definitions (loop bodies, loops), in order
        self.uses_utf8 = name in ("c_char_to_str", "header_map_to_http_headers")
        self.has_while = False

    def fail(self, msg, line):
        self.parser.fail(msg, line)

    def fresh(self):
        self.tmp += 1
        return f"t{self.tmp}"

    # fixed leading binders of every definition of this function
    def lead(self):
        out = []
        if self.uses_utf8:
            out.append(("utf8", "List Nat → Bool"))
        if not self.allocates and self.name == "header_map_to_http_headers":
            out.append(("store", "List GenHeaderMap"))
        return out

    def wrap(self, value, in_loop_state=None):
        if self.allocates:
            return f".ok (store, {value})"
        return f".ok {value}"

    # ---- expressions: returns (prefix lines, lean atom, type); `env` maps rust variable -> type
    def ex(self, e, env, ind):
        k = e[0]
        line = e[-1]
        if k == "var":
            n = e[1]
            if n == "None":
                return [], "none", "opt_str"
            if n not in env:
                self.fail(f"unknown variable `{n}`", line)
            return [], _lv(n), env[n]
        if k == "not":
            p, a, t = self.ex(e[1], env, ind)
            if t != "bool":
                self.fail("`!` on a non-boolean", line)
            return p, f"(!{a})", "bool"
        if k == "cast":
            p, a, t = self.ex(e[1], env, ind)
            if t == "nptr" and e[2] in ("*mut HeaderMap", "*const HeaderMap"):
                return p, a, t
            self.fail(f"cast `as {e[2]}` is not in the subset", line)
        if k == "field":
            p, a, t = self.ex(e[1], env, ind)
            if t == "node" and e[2] in self.node_fields:
                return p, f"{a}.{_camel(e[2])}", self.node_fields[e[2]]
            if t == "hdr" and e[2] in ("name", "value"):
                return p, f"{a}.{1 if e[2] == 'name' else 2}", "str"
            self.fail(f"field `.{e[2]}` is not in the subset here", line)
        if k == "method":
            _, recv, m, args, _ = e
            p, a, t = self.ex(recv, env, ind)
            if m == "is_null" and not args and t in ("cptr", "nptr"):
                return p, f"{a}.isNone", "bool"
            if m in ("clone", "to_string", "as_str") and not args and t == "str":
                return p, a, "str"
            if m == "to_str" and not args and t == "cstr":
                return p, f"(genCStrToStr utf8 {a})", "res_str"
            if m == "into_raw" and not args and t == "cstring":
                return p, f"(some {a})", "cptr"
            self.fail(f"method `.{m}(..)` is not in the subset here", line)
        if k == "unsafe":
            inner = e[1]
            if inner[0] == "deref":
                p, a, t = self.ex(inner[1], env, ind)
                if t != "nptr":
                    self.fail("`&*p`: p is not a node pointer", line)
                if self.allocates:
                    self.fail("dereference in an allocating function is not in the subset", line)
                v = self.fresh()
                return p + [f"{ind}match genDerefHeaderMap store {a} with", f"{ind}| .error e => .error e", f"{ind}| .ok {v} =>"], v, "node"
            if inner[0] == "call" and inner[1] == "CStr::from_ptr" and len(inner[2]) == 1:
                p, a, t = self.ex(inner[2][0], env, ind)
                if t != "cptr":
                    self.fail("`CStr::from_ptr(p)`: p is not a C string pointer", line)
                v = self.fresh()
                return p + [f"{ind}match genCStrFromPtr {a} with", f"{ind}| .error e => .error e", f"{ind}| .ok {v} =>"], v, "cstr"
            self.fail("`unsafe { .. }` form not in the subset", line)
        if k == "call":
            _, f, args, _ = e
            if f == "null" and not args:
                return [], "none", "null"
            if f == "Vec::new" and not args:
                return [], "[]", "vec"
            if f == "Some" and len(args) == 1:
                p, a, t = self.ex(args[0], env, ind)
                if t != "str":
                    self.fail("`Some(..)` of something else than a string", line)
                return p, f"(some {a})", "opt_str"
            if f == "CString::new" and len(args) == 1:
                p, a, t = self.ex(args[0], env, ind)
                if t != "str":
                    self.fail("`CString::new(..)` of something else than a string", line)
                return p, f"(genCStringNew {a})", "res_cstring"
            if f in ("c_char_to_str", "string_to_c_char") and len(args) == 1:
                p, a, t = self.ex(args[0], env, ind)
                want, got, call = {"c_char_to_str": ("cptr", "opt_str", "genCCharToStr utf8"),
                                   "string_to_c_char": ("str", "cptr", "genStringToCChar")}[f]
                if t != want:
                    self.fail(f"`{f}(..)`: argument of the wrong kind", line)
                if f == "c_char_to_str" and not self.uses_utf8:
                    self.fail("`c_char_to_str` in a function without the utf8 parameter", line)
                v = self.fresh()
                return p + [f"{ind}match {call} {a} with", f"{ind}| .error e => .error e", f"{ind}| .ok {v} =>"], v, got
            if f == "Box::into_raw" and len(args) == 1 and args[0][0] == "call" and args[0][1] == "Box::new" \
                    and len(args[0][2]) == 1 and args[0][2][0][0] == "struct" and args[0][2][0][1] == "HeaderMap":
                if not self.allocates:
                    self.fail("allocation in a function that does not thread the store", line)
                p, a, t = self.ex(args[0][2][0], env, ind)
                v = self.fresh()
                return p + [f"{ind}let (store, {v}) := genBoxIntoRawHeaderMap store {a}"], v, "nptr"
            self.fail(f"call `{f}(..)` is not in the subset", line)
        if k == "struct":
            _, sname, fields, _ = e
            if sname == "HeaderMap":
                if [f for f, _ in fields] != list(self.node_fields):
                    self.fail("`HeaderMap { .. }`: fields must be given in declaration order, all of them", line)
                p, parts = [], []
                for f, fe in fields:
                    pp, a, t = self.ex(fe, env, ind)
                    if t != self.node_fields[f] and not (t == "null" and self.node_fields[f] in ("cptr", "nptr")):
                        self.fail(f"`HeaderMap {{ {f}: .. }}`: value of the wrong kind", line)
                    p += pp
                    parts.append(f"{_camel(f)} := {a}")
                return p, "{ " + ", ".join(parts) + " : GenHeaderMap }", "node"
            if sname == "Header":
                if [f for f, _ in fields] != ["name", "value"]:
                    self.fail("`Header { .. }`: fields must be `name`, `value` in this order", line)
                p, parts = [], []
                for f, fe in fields:
                    pp, a, t = self.ex(fe, env, ind)
                    if t != "str":
                        self.fail(f"`Header {{ {f}: .. }}`: not a string", line)
                    p += pp
                    parts.append(a)
                return p, "(" + ", ".join(parts) + ")", "hdr"
            self.fail(f"struct `{sname}` is not in the subset", line)
        self.fail(f"expression form `{k}` is not in the subset here", line)

    # ---- match
    PATS = {frozenset(("None", "Some")): {"None": "none", "Some": "some"}, frozenset(("Err", "Ok")): {"Err": ".error", "Ok": ".ok"}}

    def match(self, e, env, ind, k_continue, let_name):
        """`match S { arms }` used as the value of `let let_name = ..;` (let_name given) or as the TAIL value of the function
        (let_name None).  Returns (lines, type of the value, open?) - open = the last emitted line is the value arm and the
        following statements continue inside it."""
        _, scrut, arms, line = e
        p, a, t = self.ex(scrut, env, ind)
        ctors = frozenset(c for c, _, _, _ in arms)
        if len(arms) != 2 or ctors not in self.PATS:
            self.fail("`match` must have exactly the two arms None / Some(x) or Err(x) / Ok(x)", line)
        pay = {"opt_str": ("None", "Some", "str"), "res_str": ("Err", "Ok", "str"), "res_cstring": ("Err", "Ok", "cstring")}.get(t)
        if pay is None or frozenset(pay[:2]) != ctors:
            self.fail("`match` scrutinee of a kind that is not in the subset / arms of the wrong kind", line)
        lines = p + [f"{ind}match {a} with"]
        escaping, valued = [], []
        for ctor, binder, body, aline in arms:
            if (ctor == pay[0]) != (binder is None or ctor == "Err"):
                self.fail("pattern binder not in the subset", aline)
            if ctor in ("None",) and binder is not None:
                self.fail("`None(..)`", aline)
            if ctor in ("Some", "Ok") and (binder is None or binder == "_"):
                self.fail("payload pattern must bind a name", aline)
            env2 = dict(env)
            if ctor in ("Some", "Ok"):
                env2[binder] = pay[2]
                pat = f"{self.PATS[ctors][ctor]} {_lv(binder)}"
            elif ctor == "Err":
                pat = ".error _"
            else:
                pat = "none"
            if body[0] == "continue":
                if k_continue is None:
                    self.fail("`continue` outside a loop", aline)
                escaping.append([f"{ind}| {pat} => {k_continue(env)}"])
                continue
            stmts, tail = body[1], body[2]
            stmts = [s for s in stmts if s[0] != "log"]
            if tail is None:
                if len(stmts) != 1 or stmts[0][0] != "return":
                    self.fail("arm block must be `{ log..; return E; }` or `{ log..; E }`", aline)
                if k_continue is not None:
                    self.fail("`return` inside a loop is not in the subset", aline)
                pp, ra, rt = self.ex(stmts[0][1], env2, ind + "  ")
                self.check_ret(rt, stmts[0][2])
                escaping.append([f"{ind}| {pat} =>"] + pp + [f"{ind}  {self.wrap(ra)}"])
            else:
                if stmts:
                    self.fail("arm block must be `{ log..; return E; }` or `{ log..; E }`", aline)
                valued.append((pat, tail, env2, aline))
        if let_name is not None:
            if len(valued) != 1:
                self.fail("`let x = match ..`: exactly one arm must give the value, the other must `continue` / `return`", line)
            pat, tail, env2, aline = valued[0]
            for es in escaping:
                lines += es
            lines.append(f"{ind}| {pat} =>")
            pp, va, vt = self.ex(tail, env2, ind)
            lines += pp
            lines.append(f"{ind}let {_lv(let_name)} := {va}")
            return lines, vt
        if escaping:
            self.fail("tail `match` with a `continue` / `return` arm is not in the subset", line)
        vt = None
        for pat, tail, env2, aline in valued:
            pp, va, t2 = self.ex(tail, env2, ind + "  ")
            self.check_ret(t2, aline)
            lines += [f"{ind}| {pat} =>"] + pp + [f"{ind}  {self.wrap(va)}"]
        return lines, self.ret

    def check_ret(self, t, line):
        if t != self.ret and not (t == "null" and self.ret in ("cptr", "nptr")):
            self.fail("returned value of the wrong kind", line)

    # ---- statements.  `muts` = list of (rust name) of `let mut` variables in scope, declaration order
    def seq(self, stmts, tail, env, muts, ind, k_end, k_continue, in_loop):
        lines = []
        env = dict(env)
        muts = list(muts)
        for idx, st in enumerate(stmts):
            k = st[0]
            line = st[-1]
            if k == "log":
                continue
            if k == "let":
                _, name, mut, ann, e, _ = st
                if name in env:
                    self.fail(f"`let {name}` shadows a variable (not in the subset)", line)
                if e[0] == "match":
                    if mut or ann:
                        self.fail("`let mut x = match ..` is not in the subset", line)
                    ls, t = self.match(e, env, ind, k_continue, name)
                    lines += ls
                else:
                    p, a, t = self.ex(e, env, ind)
                    if ann is not None:
                        if ann not in RUST_TY:
                            self.fail(f"type annotation `{ann}` is not modelled", line)
                        want = RUST_TY[ann]
                        if t == "null" and want in ("cptr", "nptr"):
                            t = want
                        if t != want:
                            self.fail("annotation and value disagree", line)
                    if t == "vec":
                        t = self.vec_type(name, stmts[idx + 1:], line)
                    if t == "null":
                        self.fail("`null()` without a pointer type annotation", line)
                    lines += p + [f"{ind}let {_lv(name)} : {T_LEAN[t]} := {a}" if t in T_LEAN else self.fail("value kind cannot be bound", line)]
                env[name] = t
                if mut:
                    if in_loop:
                        self.fail("`let mut` inside a loop body is not in the subset", line)
                    muts.append(name)
                continue
            if k == "assign":
                _, name, e, _ = st
                if name not in muts:
                    self.fail(f"assignment to `{name}`, which is not a `let mut` variable", line)
                p, a, t = self.ex(e, env, ind)
                if t != env[name]:
                    self.fail("assignment of a value of another kind", line)
                lines += p + [f"{ind}let {_lv(name)} : {T_LEAN[t]} := {a}"]
                continue
            if k == "expr":
                e = st[1]
                if e[0] == "method" and e[2] == "push" and e[1][0] == "var" and len(e[3]) == 1:
                    name = e[1][1]
                    if name not in muts or env.get(name) != "vec_hdr":
                        self.fail("`.push(..)` on something else than a `let mut` vector of headers", line)
                    p, a, t = self.ex(e[3][0], env, ind)
                    if t != "hdr":
                        self.fail("`.push(..)` of something else than a header", line)
                    lines += p + [f"{ind}let {_lv(name)} : {T_LEAN['vec_hdr']} := {_lv(name)} ++ [{a}]"]
                    continue
                self.fail("expression statement not in the subset", line)
            if k == "if":
                _, cond, (bst, btail), _ = st
                p, a, t = self.ex(cond, env, ind)
                if t != "bool":
                    self.fail("`if` condition is not boolean", line)
                bst = [s for s in bst if s[0] != "log"]
                if btail is not None or len(bst) != 1 or bst[0][0] != "return" or in_loop:
                    self.fail("`if C { .. }` must be `if C { log..; return E; }` outside a loop", line)
                pp, ra, rt = self.ex(bst[0][1], env, ind + "  ")
                self.check_ret(rt, line)
                if pp:
                    self.fail("effectful expression in `return` of an `if`", line)
                lines += p + [f"{ind}if {a} then {self.wrap(ra)} else"]
                continue
            if k in ("while", "for"):
                if in_loop:
                    self.fail("nested loops are not in the subset", line)
                lines += self.loop(st, env, muts, ind)
                continue
            if k == "return":
                if in_loop:
                    self.fail("`return` inside a loop is not in the subset", line)
                if idx != len(stmts) - 1 or tail is not None:
                    self.fail("statements after `return`", line)
                p, a, t = self.ex(st[1], env, ind)
                self.check_ret(t, line)
                return lines + p + [f"{ind}{self.wrap(a)}"]
            if k == "continue":
                self.fail("`continue` as a statement is only translated as a `match` arm", line)
            self.fail(f"statement `{k}` is not in the subset", line)
        if tail is not None:
            if in_loop:
                self.fail("loop body with a value", tail[-1])
            if tail[0] == "match":
                ls, _ = self.match(tail, env, ind, None, None)
                return lines + ls
            p, a, t = self.ex(tail, env, ind)
            self.check_ret(t, tail[-1])
            return lines + p + [f"{ind}{self.wrap(a)}"]
        if k_end is None:
            self.fail("function body without a value", self.parser.peek().line)
        return lines + [f"{ind}{k_end(env)}"]

    def vec_type(self, name, rest, line):
        def walk(sts):
            for s in sts:
                if s[0] == "expr" and s[1][0] == "method" and s[1][2] == "push" and s[1][1][:2] == ("var", name):
                    a = s[1][3]
                    if len(a) == 1 and a[0][0] == "struct" and a[0][1] == "Header":
                        return "vec_hdr"
                    self.fail("element kind of the vector cannot be determined", s[-1])
                if s[0] in ("while", "for", "if"):
                    r = walk(s[-2][0])
                    if r:
                        return r
            return None
        r = walk(rest)
        if not r:
            self.fail(f"`Vec::new()`: no `{name}.push(Header {{ .. }})` found to fix the element kind", line)
        return r

    def loop(self, st, env, muts, ind):
        self.nloop += 1
        kind = st[0]
        line = st[-1]
        base = f"{self.lean}{'While' if kind == 'while' else 'For'}{self.nloop}"
        state = (["store"] if self.allocates else []) + [_lv(m) for m in muts]
        state_ty = (["List GenHeaderMap"] if self.allocates else []) + [T_LEAN[env[m]] for m in muts]
        if not state:
            self.fail("loop without mutable state", line)
        tup = "(" + ", ".join(state) + ")" if len(state) > 1 else state[0]
        tup_ty = " × ".join(state_ty)
        lead = self.lead() + [(_lv(p), T_LEAN[t]) for p, t in self.params]
        lead_b = " ".join(f"({n} : {t})" for n, t in lead)
        lead_a = " ".join(n for n, _ in lead)
        st_b = " ".join(f"({n} : {t})" for n, t in zip(state, state_ty))
        k_state = lambda _env: f".ok {tup}"
        if kind == "while":
            self.has_while = True
            _, cond, (bst, btail), _ = st
            p, ca, ct = self.ex(cond, env, "    ")
            if p or ct != "bool":
                self.fail("`while` condition must be an effect-free boolean", line)
            body = self.seq(bst, btail, env, muts, "  ", k_state, k_state, True)
            self.aux.append([NOLINT, f"/-- body of the `while` loop of `{self.name}` (src line {line}): one execution, on the state `{tup}` -/",
                             f"def {base}Body {lead_b} {st_b} : Except GenFfiErr ({tup_ty}) :="] + body)
            self.aux.append([NOLINT, f"/-- the `while` loop of `{self.name}`: at most `fuel` executions of the body, `outOfFuel` beyond -/",
                             f"def {base} {lead_b} : Nat → {' → '.join(state_ty)} → Except GenFfiErr ({tup_ty})",
                             f"  | fuel, {', '.join(state)} =>",
                             f"    if {ca} then",
                             f"      match fuel with",
                             f"      | 0 => .error .outOfFuel",
                             f"      | fuel + 1 =>",
                             f"        match {base}Body {lead_a} {' '.join(state)} with",
                             f"        | .error e => .error e",
                             f"        | .ok {tup} => {base} {lead_a} fuel {' '.join(state)}",
                             f"    else .ok {tup}"])
            call = f"{base} {lead_a} fuel {' '.join(state)}"
        else:
            _, var, coll, (bst, btail), _ = st
            if env.get(coll) != "vec_hdr" or coll in muts:
                self.fail("`for x in &v`: v must be an immutable vector of headers", line)
            if var in env:
                self.fail(f"loop variable `{var}` shadows a variable", line)
            env2 = dict(env)
            env2[var] = "hdr"
            body = self.seq(bst, btail, env2, muts, "  ", k_state, k_state, True)
            self.aux.append([NOLINT, f"/-- body of the `for` loop of `{self.name}` (src line {line}): one element, on the state `{tup}` -/",
                             f"def {base}Body {lead_b} {st_b} ({_lv(var)} : {T_LEAN['hdr']}) : Except GenFfiErr ({tup_ty}) :="] + body)
            self.aux.append([NOLINT, f"/-- the `for` loop of `{self.name}` over `{coll}`, in order -/",
                             f"def {base} {lead_b} : {T_LEAN['vec_hdr']} → {' → '.join(state_ty)} → Except GenFfiErr ({tup_ty})",
                             f"  | [], {', '.join(state)} => .ok {tup}",
                             f"  | {_lv(var)} :: rest, {', '.join(state)} =>",
                             f"    match {base}Body {lead_a} {' '.join(state)} {_lv(var)} with",
                             f"    | .error e => .error e",
                             f"    | .ok {tup} => {base} {lead_a} rest {' '.join(state)}"])
            call = f"{base} {lead_a} {_lv(coll)} {' '.join(state)}"
        return [f"{ind}match {call} with", f"{ind}| .error e => .error e", f"{ind}| .ok {tup} =>"]

    def function(self, stmts, tail, doc):
        env = {p: t for p, t in self.params}
        body = self.seq(stmts, tail, env, [], "  ", None, None, False)
        binders = self.lead()
        if self.has_while:
            binders.append(("fuel", "Nat"))
        if self.allocates:
            binders.append(("store", "List GenHeaderMap"))
        binders += [(_lv(p), T_LEAN[t]) for p, t in self.params]
        rt = T_LEAN[self.ret]
        if self.allocates:
            rt = f"List GenHeaderMap × {rt}"
        out = []
        for a in self.aux:
            out += a + [""]
        out += [NOLINT, f"/-- {doc} -/",
                f"def {self.lean} {' '.join(f'({n} : {t})' for n, t in binders)} : Except GenFfiErr ({rt}) :="] + body
        return out


def _node_fields(src, path, fail):
    m = re.search(r"^pub struct HeaderMap \{\n((?:\s+[a-z_]+: [^\n]+,\n)+)\}", src, re.M)
    if not m:
        fail(f"{path}: `pub struct HeaderMap {{ .. }}` not found in the expected form")
    fields = {}
    for l in m.group(1).strip().split("\n"):
        fm = re.fullmatch(r"\s*([a-z_]+): (.+),", l)
        if not fm or fm.group(2) not in RUST_TY or RUST_TY[fm.group(2)] not in ("cptr", "nptr"):
            fail(f"{path}: field of HeaderMap not modelled: `{l.strip()}`")
        fields[fm.group(1)] = RUST_TY[fm.group(2)]
    if list(fields) != ["name", "value", "next"] or fields["next"] != "nptr":
        fail(f"{path}: HeaderMap is expected to have the fields name, value, next (next a node pointer)")
    return fields


def extract(read, fail, lean_str, lean_list):
    def stop(msg):
        fail("w17_ffi_headers: " + msg)

    hsrc = read("src/http/header.rs")
    if not re.search(r"^pub struct Header \{\n\s+pub name: String,\n\s+pub value: String,\n\}", hsrc, re.M):
        stop("src/http/header.rs: `pub struct Header { pub name: String, pub value: String }` not found")
    ffi = read("src/http/ffi.rs")
    helpers = read("src/ffi_helpers.rs")
    if not re.search(r"^use crate::ffi_helpers::\{c_char_to_str, string_to_c_char\};", ffi, re.M):
        stop("src/http/ffi.rs does not import c_char_to_str / string_to_c_char from crate::ffi_helpers")
    fields = _node_fields(ffi, "src/http/ffi.rs", stop)
    out = ["/-- `#[repr(C)] pub struct HeaderMap` (src/http/ffi.rs): two C strings and the pointer to the next node -/",
           "structure GenHeaderMap where"]
    out += [f"  {_camel(f)} : {T_LEAN[t]}" for f, t in fields.items()]
    out += ["deriving DecidableEq, Repr", ""] + PREAMBLE.split("\n")
    jobs = [("src/ffi_helpers.rs", helpers, "c_char_to_str", False),
            ("src/ffi_helpers.rs", helpers, "string_to_c_char", False),
            ("src/http/ffi.rs", ffi, "http_headers_to_header_map", True),
            ("src/http/ffi.rs", ffi, "header_map_to_http_headers", False)]
    for path, src, name, allocates in jobs:
        params, ret, text, first = _find_fn(src, path, name, stop)
        try:
            parser = _Parser(text, first, path)
            stmts, tail = parser.block()
            if parser.peek().kind != "eof":
                parser.fail("text after the function body")
            tr = _Tr(name, params, ret, parser, stop, allocates)
            tr.node_fields = fields
            if ("Box::into_raw" in text) != allocates:
                stop(f"{path}: `{name}`: allocation (Box::into_raw) {'expected' if allocates else 'not expected'} here")
            out += tr.function(stmts, tail, f"`{name}` ({path}), translated statement by statement") + [""]
        except _Stop as e:
            stop(str(e))
    return out
