"""C09: percent-encode sets of query.rs / request.rs / rule.rs and the default marketing parameters.

Every `const NAME: &AsciiSet = ...;` of the three files must have the shape
`CONTROLS` or `&CONTROLS.add(b'x').add(b'y')...`; anything else fails closed.  The Lean side gets,
per set, the list of bytes ADDED to `percent_encoding::CONTROLS` (CONTROLS itself = 0x00..0x1F, 0x7F
is part of the hand-written model of the crate).  The default marketing parameters are written twice
in router_config.rs (serde default and `impl Default`); both copies must agree.
"""
import re

FILES = [
    ("src/http/query.rs", "QueryRs", ["URL_ENCODE_SET", "QUERY_ENCODE_SET"]),
    ("src/http/request.rs", "RequestRs", ["QUERY_ENCODE_SET"]),
    ("src/api/rule.rs", "RuleRs", ["SIMPLE_ENCODE_SET", "URL_ENCODE_SET", "QUERY_ENCODE_SET"]),
]

ESC = {"\\\\": 0x5C, "\\'": 0x27, "\\n": 0x0A, "\\r": 0x0D, "\\t": 0x09, "\\0": 0x00}


def _byte(lit, fail, where):
    if lit in ESC:
        return ESC[lit]
    m = re.fullmatch(r"\\x([0-9a-fA-F]{2})", lit)
    if m:
        return int(m.group(1), 16)
    if len(lit) == 1 and 0x20 <= ord(lit) < 0x7F:
        return ord(lit)
    fail(f"{where}: cannot read byte literal b'{lit}'")


def _camel(name):
    return "".join(p.capitalize() for p in name.lower().split("_"))


def extract(read, fail, lean_str, lean_list):
    out = ["-- src/http/query.rs, src/http/request.rs, src/api/rule.rs: bytes added to percent_encoding::CONTROLS"]
    for rel, tag, wanted in FILES:
        src = read(rel)
        found = re.findall(r"const\s+(\w+)\s*:\s*&AsciiSet\s*=\s*([^;]*);", src)
        names = [n for n, _ in found]
        if sorted(names) != sorted(wanted):
            fail(f"{rel}: expected AsciiSet constants {wanted}, found {names}")
        for name, body in found:
            body = body.strip()
            where = f"{rel}:{name}"
            if body == "CONTROLS":
                adds = []
            else:
                m = re.fullmatch(r"&CONTROLS((?:\s*\.add\(b'(?:\\.|\\x[0-9a-fA-F]{2}|[^'\\])'\))*)", body)
                if not m:
                    fail(f"{where}: unexpected definition `{body}`")
                adds = [_byte(x, fail, where) for x in re.findall(r"\.add\(b'((?:\\.|\\x[0-9a-fA-F]{2}|[^'\\]))'\)", m.group(1))]
            out.append(f"def encSet{tag}{_camel(name)} : List Nat := [{', '.join(str(b) for b in adds)}]")
        # the sets must be used with utf8_percent_encode only through these names
    # which set is used where (the model mirrors these call sites; a changed call site fails closed)
    q = read("src/http/query.rs")
    if len(re.findall(r"utf8_percent_encode\(path_and_query_str,\s*URL_ENCODE_SET\)", q)) != 1:
        fail("query.rs: sanitize_url no longer encodes with URL_ENCODE_SET")
    if len(re.findall(r"utf8_percent_encode\((?:key|value),\s*QUERY_ENCODE_SET\)", q)) != 2:
        fail("query.rs: from_config no longer encodes key and value with QUERY_ENCODE_SET")
    r = read("src/http/request.rs")
    if len(re.findall(r"utf8_percent_encode\((?:key|value),\s*QUERY_ENCODE_SET\)", r)) != 2:
        fail("request.rs: build_sorted_query no longer encodes key and value with QUERY_ENCODE_SET")
    ru = read("src/api/rule.rs")
    if len(re.findall(r"utf8_percent_encode\(self\.source\.path\.as_str\(\),\s*URL_ENCODE_SET\)", ru)) != 1:
        fail("rule.rs: path_and_query no longer encodes the path with URL_ENCODE_SET")
    if len(re.findall(r"utf8_percent_encode\(query_string\.as_str\(\),\s*QUERY_ENCODE_SET\)", ru)) != 1:
        fail("rule.rs: path_and_query no longer encodes the query with QUERY_ENCODE_SET")
    if len(re.findall(r"utf8_percent_encode\(marker\.regex\.as_str\(\),\s*SIMPLE_ENCODE_SET\)", ru)) != 1:
        fail("rule.rs: markers() no longer encodes the marker regex with SIMPLE_ENCODE_SET")

    # default marketing parameters
    rc = read("src/router_config.rs")
    m1 = re.search(r"fn default_marketing_parameters\(\)\s*->\s*HashSet<String>\s*\{(.*?)\n\}", rc, re.S)
    m2 = re.search(r"impl Default for RouterConfig\s*\{(.*?)\n\}", rc, re.S)
    if not m1 or not m2:
        fail("router_config.rs: default marketing parameter definitions not found")
    p1 = re.findall(r'parameters\.insert\("([^"\\]*)"\.to_string\(\)\);', m1.group(1))
    p2 = re.findall(r'parameters\.insert\("([^"\\]*)"\.to_string\(\)\);', m2.group(1))
    if not p1 or sorted(p1) != sorted(p2):
        fail(f"router_config.rs: the two default marketing parameter lists differ or are empty: {p1} vs {p2}")
    out.append("-- src/router_config.rs")
    out.append(f"def defaultMarketingParams : List String := {lean_list(sorted(p1))}")
    return out
