"""W20: section `w20_lazyregex` - the lazily compiled regex cell `LazyRegex` of src/regex.rs (the struct, `new_node`, `new_leaf`,
`is_match`, `regex`, `create_regex`, `compile`) and the budget arithmetic of `Leaf::cache` (src/regex_radix_tree/leaf.rs),
translated from the source on every run (properties C12 / C08 through Props/C12gen.lean).

Own small translator (lexer + recursive-descent parser + TYPED translation) for the expression-bodied functions of regex.rs; the
statement translator of w4_translate.py is not needed here (no loops, no mutable locals) and is not loaded.  Everything outside the
subset below FAILS CLOSED with the offending source line.

Generated (namespace Rio.Consts):
  structure GenLazyRegex (ρ : Type)                the fields of `pub struct LazyRegex` in DECLARATION order; `String` ↦ `List Char`,
                                                   `bool` ↦ `Bool`, `Option<Arc<Regex>>` ↦ `Option ρ` (ρ = the type of compiled regex VALUES)
  genLazyRegexNewNode {ρ} (a1 : List Char) (a2 : Bool) : GenLazyRegex ρ
  genLazyRegexNewLeaf {ρ} (a1 : List Char) (a2 : Bool) : GenLazyRegex ρ
  genLazyRegexCreateRegex {ρ} (build) (self : GenLazyRegex ρ) : Option ρ
  genLazyRegexIsMatch {ρ} (build) (run) (self : GenLazyRegex ρ) (a1 : List Char) : Bool
  genLazyRegexRegex {ρ} (build) (self : GenLazyRegex ρ) : Option ρ
  genLazyRegexCompile {ρ} (build) (self : GenLazyRegex ρ) : GenLazyRegex ρ
  genLeafCache {ρ} (build) (regex : GenLazyRegex ρ) (left : Nat) : Option (GenLazyRegex ρ × Nat)
                                                   `Leaf::cache(&mut self, left: u64) -> u64`: (new `self.regex`, returned budget);
                                                   `none` = the `u64` subtraction `left - 1` underflows (a panic with overflow checks)

ABSTRACT PARAMETERS (the `regex` crate; nothing of it is translated):
  build : List Char → Bool → Option ρ      `RegexBuilder::new(s).case_insensitive(ic).build()`: `Ok(r)` ↦ `some r`, `Err(_)` ↦ `none`.
                                           `RegexBuilder::new(s).build()` and `Regex::new(s)` are `build s false` (the crate's default
                                           for `case_insensitive`); ANY other builder method fails closed.
  run : ρ → List Char → Bool               `Regex::is_match(&self, haystack)`
`Arc::new(x)`, `x.clone()`, `&x`, `x.as_str()`, `x.to_string()` are the identity (values, not addresses).
  childCache / nodeCache / leafCache       the recursive / delegated `cache` calls of `Node::cache` (`child.cache(..)` = `Item::cache`) and of the
                                           arms of `Item::cache` (`node.cache(..)`, `leaf.cache(..)`): parameters returning `Option (new callee ×
                                           budget)`; Props/C12gen.lean instantiates them with the translated `Node::cache` / `Leaf::cache` and with
                                           the model's `Item.cache` for the children.
Also generated: genNodeCacheLoop / genNodeCache (`Node::cache`), genItemCacheEmpty / Node / Leaf (`Item::cache`, one definition per arm of
`match self`, each with the guards in front), genLazyRegexCallSites (a table; the generator CHECKS that outside src/regex.rs no cell is
built by a struct literal, no field of a cell is written and `.compiled` is only tested - it fails closed otherwise).
u64: `left - 1` / `left -= 1` carry the explicit underflow outcome `none`; `current_level + 1` is rendered on `Nat` (a wrap needs 2^64 levels).

The subset:
  function body   [let x = E;]*  E          (immutable `let`s, then the tail expression)
  `Leaf::cache`   [if C { return E; }  |  self.regex = E;]*  E          (C, E as below; `self.regex` is the only state)
  expressions     x, self.f, true, false, None, Some(E), Arc::new(E), "literal" (printable ASCII), &E, !E, (E)
                  LazyRegex { f: E, f, .. }        every field of the struct exactly once; NO `..base` (fails closed)
                  if C { E } else { E }
                  match E { Some(x) => E, None => E }   (either order; arms `=> E,` or `=> { [log;] E }`)
                  match <build chain> { Ok(x) => E, Err(e) => E }   (`e` must not occur outside a log macro)
                  E.is_empty() E.as_str() E.to_string() E.clone() E.is_some() E.is_none() E.is_match(E)
                  [E, ..].join("")                  (strings; a non-empty separator fails closed)
                  self.create_regex()  self.regex.compile()   (the translated functions themselves)
                  left - 1                           (u64; only as `return left - 1;` - rendered with the explicit underflow outcome)
  skipped         `tracing::<level>!("literal", x, ..);` (a log line: string literal and plain identifiers only), `#[cfg(..)]`,
                  comments.
Types are checked (Str, Bool, Rx, Option Rx, the struct, u64): an initialiser of another type, arms of different types, a
condition that is not a `bool` fail closed; two fields of the SAME type swapped are translated as written (the proofs break).
"""
import re

_TOKEN = re.compile(r"""
    (?P<ws>\s+) |
    (?P<comment>//[^\n]*) |
    (?P<attr>\#\[[^\]\n]*\]) |
    (?P<str>"(?:\\.|[^"\\])*") |
    (?P<num>\d+) |
    (?P<id>[A-Za-z_][A-Za-z0-9_]*) |
    (?P<op>::|->|=>|==|!=|<=|>=|&&|\|\||\+=|-=|\.\.|[!.,;:(){}\[\]&=<>*|+?-])
""", re.X)

STR, BOOL, RX, ORX, LR, U64 = "List Char", "Bool", "ρ", "Option ρ", "GenLazyRegex ρ", "Nat"
_LOG_LEVELS = ("error", "warn", "info", "debug", "trace")
_LEAN_KW = {"at", "from", "have", "show", "end", "then", "else", "if", "fun", "let", "in", "do", "match", "with", "open", "def",
            "theorem", "instance", "structure", "where", "by", "some", "none", "true", "false", "build", "run", "self"}


class _Tok:
    def __init__(self, kind, text, line):
        self.kind, self.text, self.line = kind, text, line


class _Fail(Exception):
    pass


def _lex(src, first_line, where):
    toks, pos, line = [], 0, first_line
    while pos < len(src):
        m = _TOKEN.match(src, pos)
        if not m:
            raise _Fail(f"{where}:{line}: character not in the subset: {src[pos:pos + 20]!r}")
        kind, text = m.lastgroup, m.group(0)
        if kind not in ("ws", "comment", "attr"):
            toks.append(_Tok(kind, text, line))
        line += text.count("\n")
        pos = m.end()
    return toks


def _camel(name):
    parts = name.split("_")
    return parts[0] + "".join(p[:1].upper() + p[1:] for p in parts[1:])


def _chars(lit, fail_):
    """Rust string literal (with quotes) -> Lean `List Char` literal"""
    body = lit[1:-1]
    out = []
    for ch in body:
        if ch in "'\\\"" or not (32 <= ord(ch) < 127):
            fail_(f"string literal {lit} contains a character outside the plain printable ASCII subset")
        out.append(f"'{ch}'")
    return "[" + ", ".join(out) + "]" if out else "([] : List Char)"


class _P:
    """parser + typed translation in one pass: every `expr` returns (lean text, type)"""

    def __init__(self, toks, where, lines, fields, env, self_ty, fn_names):
        self.t, self.i, self.where, self.lines = toks, 0, where, lines
        self.fields = fields            # [(rust name, lean name, type)] of LazyRegex
        self.env = dict(env)            # rust variable -> (lean name, type)
        self.self_ty = self_ty          # None | LR | "leaf"
        self.fn = fn_names              # rust method of LazyRegex -> (lean def, needs build, needs run, result type)
        self.uses = set()               # abstract parameters used: "build", "run"

    def fail(self, msg, tok=None):
        tok = tok or (self.t[self.i] if self.i < len(self.t) else self.t[-1])
        text = self.lines.get(tok.line, "").strip()
        raise _Fail(f"{self.where}:{tok.line}: {msg}: `{text}`")

    def peek(self, k=0):
        return self.t[self.i + k] if self.i + k < len(self.t) else _Tok("eof", "", self.t[-1].line if self.t else 0)

    def at(self, text, k=0):
        return self.peek(k).text == text

    def eat(self, text):
        if not self.at(text):
            self.fail(f"expected `{text}`, found `{self.peek().text}`")
        self.i += 1
        return self.t[self.i - 1]

    def ident(self):
        tok = self.peek()
        if tok.kind != "id":
            self.fail(f"expected an identifier, found `{tok.text}`")
        self.i += 1
        return tok.text

    def bind(self, name, ty):
        lean = _camel(name)
        if lean in _LEAN_KW or lean in [f[1] for f in self.fields]:
            lean += "_"
        self.env[name] = (lean, ty)
        return lean

    # ---- blocks ------------------------------------------------------------------------------
    def log_stmt(self):
        """`tracing::<level>!("..", x, ..);` - a log line, skipped"""
        tok = self.peek()
        if not (self.at("tracing") and self.at("::", 1) and self.peek(2).text in _LOG_LEVELS and self.at("!", 3)):
            return False
        self.i += 4
        self.eat("(")
        if self.peek().kind != "str":
            self.fail("log macro: the first argument must be a string literal", tok)
        self.i += 1
        while self.at(","):
            self.eat(",")
            if self.peek().kind != "id" or not (self.at(",", 1) or self.at(")", 1)):
                self.fail("log macro: arguments must be plain identifiers", tok)
            self.i += 1
        self.eat(")")
        self.eat(";")
        return True

    def block_expr(self, banned=()):
        """`{ [log;]* [let x = E;]* E }` -> (lean, type); the block's own binders go out of scope afterwards"""
        self.eat("{")
        saved = dict(self.env)
        lets = []
        while True:
            if self.log_stmt():
                continue
            if self.at("let"):
                line = self.eat("let")
                if self.at("mut"):
                    self.fail("`let mut` is not in the subset", line)
                name = self.ident()
                if self.at(":"):
                    self.fail("typed `let` is not in the subset", line)
                self.eat("=")
                e, ty = self.expr()
                self.eat(";")
                lets.append((self.bind(name, ty), e))
                continue
            break
        for b in banned:
            self.env.pop(b, None)
        e, ty = self.expr()
        if not self.at("}"):
            self.fail("only `let`s and log lines followed by ONE tail expression are in the subset")
        self.eat("}")
        self.env = saved
        for lean, v in reversed(lets):
            e = f"(let {lean} := {v}; {e})"
        return e, ty

    # ---- expressions -------------------------------------------------------------------------
    def expr(self):
        e, ty = self.and_()
        while self.at("||"):
            tok = self.eat("||")
            b, bty = self.and_()
            if ty != BOOL or bty != BOOL:
                self.fail("`||` on values that are not bools", tok)
            e = f"({e} || {b})"
        return e, ty

    def and_(self):
        e, ty = self.cmp()
        while self.at("&&"):
            tok = self.eat("&&")
            b, bty = self.cmp()
            if ty != BOOL or bty != BOOL:
                self.fail("`&&` on values that are not bools", tok)
            e = f"({e} && {b})"
        return e, ty

    def cmp(self):
        e, ty = self.add()
        if self.peek().text in ("==", "!=", "<", ">", "<=", ">="):
            tok = self.peek()
            self.i += 1
            b, bty = self.add()
            if ty != U64 or bty != U64:
                self.fail(f"`{tok.text}` is in the subset only between u64 values", tok)
            if tok.text in ("==", "!="):
                return f"({e} {tok.text} {b})", BOOL
            return f"(decide ({e} {tok.text} {b}))", BOOL
        return e, ty

    def add(self):
        e, ty = self.unary()
        while self.at("+"):
            tok = self.eat("+")
            n = self.peek()
            if ty != U64 or n.kind != "num":
                self.fail("`+` is in the subset only as `<u64> + <integer literal>`", tok)
            self.i += 1
            e = f"({e} + {n.text})"
        return e, ty

    def unary(self):
        if self.at("&"):
            self.eat("&")
            if self.at("mut"):
                self.fail("`&mut` is not in the subset")
            return self.unary()
        if self.at("!"):
            tok = self.eat("!")
            e, ty = self.unary()
            if ty != BOOL:
                self.fail("`!` on a value that is not a bool", tok)
            return f"(!{e})", BOOL
        return self.postfix()

    def args(self):
        self.eat("(")
        out = []
        while not self.at(")"):
            out.append(self.expr())
            if not self.at(")"):
                self.eat(",")
        self.eat(")")
        return out

    def postfix(self):
        e, ty = self.primary()
        while self.at("."):
            tok = self.eat(".")
            name = self.ident()
            if not self.at("("):
                # field access
                if ty == LR:
                    for rn, ln, fty in self.fields:
                        if rn == name:
                            e, ty = f"{e}.{ln}", fty
                            break
                    else:
                        self.fail(f"`{name}` is not a field of `LazyRegex`", tok)
                    continue
                if ty in ("leaf", "node") and name == "regex":
                    e, ty = "regex", LR
                    continue
                self.fail(f"field access `.{name}` on a value of type {ty} is not in the subset", tok)
            a = self.args()
            sig = (name, ty, tuple(t for _, t in a))
            if sig in ((("as_str"), STR, ()), ("to_string", STR, ()), ("to_owned", STR, ())):
                continue
            if name == "clone" and not a and ty in (STR, BOOL, RX, ORX, LR):
                continue
            if sig == ("is_empty", STR, ()):
                e, ty = f"{e}.isEmpty", BOOL
            elif sig == ("is_some", ORX, ()):
                e, ty = f"{e}.isSome", BOOL
            elif sig == ("is_none", ORX, ()):
                e, ty = f"{e}.isNone", BOOL
            elif sig == ("is_match", RX, (STR,)):
                self.uses.add("run")
                e, ty = f"(run {e} {a[0][0]})", BOOL
            elif ty == LR and not a and name in self.fn:
                lean, nb, nr, rty = self.fn[name]
                if nb:
                    self.uses.add("build")
                if nr:
                    self.uses.add("run")
                e, ty = f"({lean}{' build' if nb else ''}{' run' if nr else ''} {e})", rty
            else:
                self.fail(f"method call `.{name}(..)` on a value of type {ty} with {len(a)} argument(s) is not in the subset", tok)
        return e, ty

    def build_chain(self):
        """`RegexBuilder::new(S)[.case_insensitive(B)].build()` / `Regex::new(S)` -> lean of type `Option ρ` (Ok ↦ some)"""
        tok = self.peek()
        head = self.ident()
        self.eat("::")
        if self.ident() != "new":
            self.fail(f"only `{head}::new(..)` is in the subset", tok)
        a = self.args()
        if len(a) != 1 or a[0][1] != STR:
            self.fail(f"`{head}::new(..)` takes one string", tok)
        self.uses.add("build")
        if head == "Regex":
            return f"(build {a[0][0]} false)"
        ic = "false"
        seen = False
        while True:
            self.eat(".")
            m = self.ident()
            b = self.args()
            if m == "build" and not b:
                return f"(build {a[0][0]} {ic})"
            if m == "case_insensitive" and len(b) == 1 and b[0][1] == BOOL and not seen:
                ic, seen = b[0][0], True
                continue
            self.fail(f"builder method `.{m}(..)` is not in the subset (only one `.case_insensitive(bool)` and `.build()`)", tok)

    def match_expr(self):
        tok = self.eat("match")
        is_result = False
        if self.peek().text in ("RegexBuilder", "Regex") and self.at("::", 1):
            scrut, is_result = self.build_chain(), True
        else:
            # the scrutinee is parsed without struct literals in mind: `match x {`
            scrut, sty = self.unary()
            if sty != ORX:
                self.fail("`match` only on an `Option<Arc<Regex>>` or on the result of the regex builder", tok)
        self.eat("{")
        arms = {}
        while not self.at("}"):
            atok = self.peek()
            con = self.ident()
            binder = None
            if self.at("("):
                self.eat("(")
                binder = self.ident()
                self.eat(")")
            want = ("Ok", "Err") if is_result else ("Some", "None")
            if con not in want or (binder is None) != (con == "None"):
                self.fail(f"arm pattern `{con}` is not in the subset here (expected {want[0]}(x) / {want[1]}{'(e)' if is_result else ''})", atok)
            key = "some" if con in ("Some", "Ok") else "none"
            if key in arms:
                self.fail(f"two `{con}` arms", atok)
            self.eat("=>")
            saved = dict(self.env)
            banned = ()
            lean_b = None
            if key == "some":
                lean_b = self.bind(binder, RX)
            elif binder is not None:
                banned = (binder,)
                self.env.pop(binder, None)   # the error value is not a value of the model: any use fails closed (unknown variable)
            if self.at("{"):
                e, ty = self.block_expr(banned)
                if self.at(","):
                    self.eat(",")
            else:
                e, ty = self.expr()
                if not self.at("}"):
                    self.eat(",")
            self.env = saved
            arms[key] = (lean_b, e, ty, atok)
        self.eat("}")
        if set(arms) != {"some", "none"}:
            self.fail("`match` must have exactly the two arms", tok)
        if arms["some"][2] != arms["none"][2]:
            self.fail(f"the arms have different types ({arms['some'][2]} / {arms['none'][2]})", tok)
        return f"(match {scrut} with | none => {arms['none'][1]} | some {arms['some'][0]} => {arms['some'][1]})", arms["some"][2]

    def if_expr(self):
        tok = self.eat("if")
        c, cty = self.expr()
        if cty != BOOL:
            self.fail("the condition is not a bool", tok)
        a, aty = self.block_expr()
        if not self.at("else"):
            self.fail("`if` used as a value needs an `else`", tok)
        self.eat("else")
        if self.at("if"):
            b, bty = self.if_expr()
        else:
            b, bty = self.block_expr()
        if aty != bty:
            self.fail(f"the branches have different types ({aty} / {bty})", tok)
        return f"(if {c} then {a} else {b})", aty

    def struct_lit(self):
        tok = self.eat("LazyRegex")
        self.eat("{")
        init = {}
        while not self.at("}"):
            ftok = self.peek()
            if self.at(".."):
                self.fail("struct update syntax `..base` is not in the subset", ftok)
            f = self.ident()
            if f in init:
                self.fail(f"field `{f}` initialised twice", ftok)
            if self.at(":"):
                self.eat(":")
                e, ty = self.expr()
            else:
                if f not in self.env:
                    self.fail(f"shorthand field `{f}`: no such variable", ftok)
                e, ty = self.env[f]
            want = [fty for rn, _, fty in self.fields if rn == f]
            if not want:
                self.fail(f"`{f}` is not a field of `LazyRegex`", ftok)
            if ty == "None":
                ty = want[0] if want[0] == ORX else ty
            if ty != want[0]:
                self.fail(f"field `{f}` initialised with a value of type {ty}, expected {want[0]}", ftok)
            init[f] = e
            if not self.at("}"):
                self.eat(",")
        self.eat("}")
        if sorted(init) != sorted(rn for rn, _, _ in self.fields):
            self.fail("the struct literal does not initialise exactly the fields of `LazyRegex`", tok)
        return "({ " + ", ".join(f"{ln} := {init[rn]}" for rn, ln, _ in self.fields) + f" }} : {LR})", LR

    def primary(self):
        tok = self.peek()
        if tok.kind == "num":
            self.i += 1
            return tok.text, U64
        if tok.kind == "str":
            self.i += 1
            return _chars(tok.text, lambda m: self.fail(m, tok)), STR
        if self.at("("):
            self.eat("(")
            e, ty = self.expr()
            self.eat(")")
            return e, ty
        if self.at("["):
            self.eat("[")
            parts = []
            while not self.at("]"):
                e, ty = self.expr()
                if ty != STR:
                    self.fail("array element that is not a string", tok)
                parts.append(e)
                if not self.at("]"):
                    self.eat(",")
            self.eat("]")
            if not (self.at(".") and self.at("join", 1) and self.at("(", 2) and self.peek(3).text == '""' and self.at(")", 4)):
                self.fail("an array of strings is only in the subset as `[..].join(\"\")`", tok)
            self.i += 5
            if not parts:
                return "([] : List Char)", STR
            return "(" + " ++ ".join(parts) + ")", STR
        if self.at("if"):
            return self.if_expr()
        if self.at("match"):
            return self.match_expr()
        if tok.kind != "id":
            self.fail(f"expression form `{tok.text}` is not in the subset")
        if tok.text == "LazyRegex" and self.at("{", 1):
            return self.struct_lit()
        if tok.text in ("true", "false"):
            self.i += 1
            return tok.text, BOOL
        if tok.text == "None":
            self.i += 1
            return "(none : Option ρ)", ORX
        if tok.text == "Some" and self.at("(", 1):
            self.i += 1
            a = self.args()
            if len(a) != 1 or a[0][1] != RX:
                self.fail("`Some(..)` only of a compiled regex value", tok)
            return f"(some {a[0][0]})", ORX
        if tok.text == "Arc" and self.at("::", 1) and self.at("new", 2):
            self.i += 3
            a = self.args()
            if len(a) != 1 or a[0][1] not in (RX, LR):
                self.fail("`Arc::new(..)` only of a compiled regex value or a `LazyRegex`", tok)
            return a[0]
        if tok.text == "self":
            if self.self_ty is None:
                self.fail("`self` in a function without receiver", tok)
            self.i += 1
            return "self", self.self_ty
        if self.at("::", 1) or self.at("(", 1) or self.at("!", 1):
            self.fail(f"call / path `{tok.text}..` is not in the subset", tok)
        if tok.text not in self.env:
            self.fail(f"unknown variable `{tok.text}` (not a parameter / binder of the subset)", tok)
        self.i += 1
        return self.env[tok.text]


# ------------------------------------------------------------------------------------------------
# functions
# ------------------------------------------------------------------------------------------------

_PTYPES = {"String": STR, "&str": STR, "bool": BOOL}


def _body(src, path, m, fail):
    """text of the `{ .. }` body starting at the `{` that ends the header match -> (text incl. braces, first line)"""
    start = m.end() - 1
    depth, i = 0, start
    while i < len(src):
        if src[i] == "{":
            depth += 1
        elif src[i] == "}":
            depth -= 1
            if depth == 0:
                return src[start:i + 1], src.count("\n", 0, start) + 1
        i += 1
    fail(f"{path}: unbalanced braces")


def _impl_slice(src, path, fail):
    m = re.search(r"^impl LazyRegex \{", src, re.M)
    if not m:
        fail(f"{path}: `impl LazyRegex` not found")
    body, _ = _body(src, path, m, fail)
    return src[:m.end() - 1] + body      # prefix kept so that line numbers stay right


def _function(src, path, fail, fields, rust, lean, recv, fn_names, doc):
    """translate one method of `impl LazyRegex` -> (lean lines, needs build, needs run, result type)"""
    hits = list(re.finditer(r"pub fn " + rust + r"\(([^)]*)\) -> ([\w<>&]+) \{", src))
    if len(hits) != 1:
        fail(f"{path}: expected exactly one `pub fn {rust}(..) -> T {{`, found {len(hits)}")
    m = hits[0]
    params = [p.strip() for p in m.group(1).split(",") if p.strip()]
    if recv:
        if not params or params[0] != "&self":
            fail(f"{path}: `{rust}` no longer takes `&self`")
        params = params[1:]
    env, sig = {}, []
    p = None
    for k, item in enumerate(params):
        pm = re.fullmatch(r"(\w+): ([\w&]+)", item)
        if not pm or pm.group(2) not in _PTYPES:
            fail(f"{path}: parameter `{item}` of `{rust}` is not of a modelled type")
        env[pm.group(1)] = (f"a{k + 1}", _PTYPES[pm.group(2)])     # parameter names are free
        sig.append((f"a{k + 1}", _PTYPES[pm.group(2)]))
    rty = {"LazyRegex": LR, "Self": LR, "bool": BOOL, "Option<Arc<Regex>>": ORX}.get(m.group(2))
    if rty is None:
        fail(f"{path}: result type `{m.group(2)}` of `{rust}` is not modelled")
    body, first = _body(src, path, m, fail)
    lines = {first + k: t for k, t in enumerate(body.split("\n"))}
    try:
        p = _P(_lex(body, first, path), path, lines, fields, env, LR if recv else None, fn_names)
        e, ty = p.block_expr()
        if p.i != len(p.t):
            p.fail("text after the function body")
    except _Fail as ex:
        fail(str(ex))
    if ty != rty:
        fail(f"{path}: the body of `{rust}` has type {ty}, the signature says {rty}")
    nb, nr = "build" in p.uses, "run" in p.uses
    par = "{ρ : Type}" + (" (build : List Char → Bool → Option ρ)" if nb else "") + (" (run : ρ → List Char → Bool)" if nr else "") \
        + (f" (self : {LR})" if recv else "") + "".join(f" ({n} : {t})" for n, t in sig)
    out = ["set_option linter.unusedVariables false in", f"/-- {doc}; translated from {path}. -/", f"def {lean} {par} : {rty} :=", f"  {e}"]
    return out, nb, nr, rty


def _struct(src, path, fail):
    m = re.search(r"pub struct LazyRegex \{(.*?)\n\}", src, re.S)
    if not m:
        fail(f"{path}: `pub struct LazyRegex` not found")
    fields = []
    for item in m.group(1).split(","):
        item = item.strip()
        if not item:
            continue
        fm = re.fullmatch(r"pub(?:\(crate\))? (\w+): ([\w<>]+)", item)
        ty = {"String": STR, "bool": BOOL, "Option<Arc<Regex>>": ORX}.get(fm.group(2)) if fm else None
        if ty is None:
            fail(f"{path}: field `{item}` of `LazyRegex` is not of a modelled type")
        fields.append((fm.group(1), _camel(fm.group(1)), ty))
    if sorted(f[0] for f in fields) != ["compiled", "ignore_case", "original", "regex"]:
        fail(f"{path}: `LazyRegex` no longer has exactly the modelled fields (original, regex, compiled, ignore_case)")
    return fields


def _leaf_cache(read, fail, fields, fn_names):
    """`Leaf::cache`: a sequence of `if C { return E; }` / `self.regex = E;` and the tail expression; state = `self.regex`"""
    path = "src/regex_radix_tree/leaf.rs"
    src = read(path)
    hits = list(re.finditer(r"pub fn cache\(&mut self, (\w+): u64\) -> u64 \{", src))
    if len(hits) != 1:
        fail(f"{path}: expected exactly one `pub fn cache(&mut self, left: u64) -> u64 {{`")
    m = hits[0]
    body, first = _body(src, path, m, fail)
    lines = {first + k: t for k, t in enumerate(body.split("\n"))}
    try:
        p = _P(_lex(body, first, path), path, lines, fields, {m.group(1): ("left", U64)}, "leaf", fn_names)

        def budget():
            """`left` | `left - 1` -> lean of type Option (LR × Nat) (the returned budget together with the state)"""
            tok = p.peek()
            e, ty = p.expr()
            if ty != U64:
                p.fail("the returned value is not the u64 budget", tok)
            if p.at("-"):
                p.eat("-")
                n = p.peek()
                if n.kind != "num":
                    p.fail("only `left - <integer literal>` is in the subset", n)
                p.i += 1
                return f"(if {e} < {n.text} then none else some (regex, {e} - {n.text}))"
            return f"some (regex, {e})"

        p.eat("{")
        steps = []
        while True:
            tok = p.peek()
            if p.at("if"):
                p.eat("if")
                c, cty = p.expr()
                if cty != BOOL:
                    p.fail("the condition is not a bool", tok)
                p.eat("{")
                p.eat("return")
                r = budget()
                p.eat(";")
                p.eat("}")
                if p.at("else"):
                    p.fail("`else` after an early return is not in the subset", tok)
                steps.append(("ifret", c, r))
            elif p.at("self") and p.at(".", 1) and p.at("regex", 2) and p.at("=", 3):
                p.i += 4
                e, ty = p.expr()
                if ty != LR:
                    p.fail("`self.regex = E`: E is not a `LazyRegex`", tok)
                p.eat(";")
                steps.append(("set", e))
            else:
                break
        tail = budget()
        p.eat("}")
        if p.i != len(p.t):
            p.fail("text after the function body")
    except _Fail as ex:
        fail(str(ex))
    e = tail
    for st in reversed(steps):
        if st[0] == "ifret":
            e = f"(if {st[1]} then {st[2]} else {e})"
        else:
            e = f"(let regex : {LR} := {st[1]}; {e})"
    nb = "build" in p.uses
    return ["set_option linter.unusedVariables false in",
            "/-- `Leaf::cache(&mut self, left: u64) -> u64`: (the new `self.regex`, the returned budget); `none` = the `u64` subtraction underflows "
            f"(a panic with overflow checks); translated from {path}. -/",
            "def genLeafCache {ρ : Type}" + (" (build : List Char → Bool → Option ρ)" if nb else "") + f" (regex : {LR}) (left : Nat) : Option ({LR} × Nat) :=",
            f"  {e}"]


# ------------------------------------------------------------------------------------------------
# `Node::cache` / `Item::cache`: statements over an explicit state, in the Option monad (`none` = u64 underflow)
# ------------------------------------------------------------------------------------------------

_U64_NAMES = ["left", "cacheLevel", "currentLevel"]


class _S:
    """statement translator for the `cache` functions.  `state` = lean names of the mutated `self` parts (result tuple, followed by
    the budget); `callees` = {rust variable: (lean parameter, arity)} for `x.cache(..)` in tail position."""

    def __init__(self, p, state, mut_vars, callees, loop=None):
        self.p, self.state, self.mut, self.callees, self.loop = p, state, mut_vars, callees, loop
        self.loop_args = None

    def ret(self, e):
        return "some (" + ", ".join(self.state + [e]) + ")"

    def budget(self):
        """`E` | `E - n` (u64) -> lean of the result type"""
        p = self.p
        tok = p.peek()
        e, ty = p.expr()
        if ty != U64:
            p.fail("the returned value is not the u64 budget", tok)
        if p.at("-"):
            p.eat("-")
            n = p.peek()
            if n.kind != "num":
                p.fail("only `<u64> - <integer literal>` is in the subset", n)
            p.i += 1
            return f"(if {e} < {n.text} then none else {self.ret(f'{e} - {n.text}')})"
        return self.ret(e)

    def u64_args(self, arity, tok):
        a = self.p.args()
        if len(a) != arity or any(t != U64 for _, t in a):
            self.p.fail(f"`.cache(..)` here takes {arity} u64 argument(s)", tok)
        return " ".join(x for x, _ in a)

    def tail(self):
        """tail expression of the result type: budget | `x.cache(args)` | `if C { T } else { T }` | `{ T }`"""
        p = self.p
        tok = p.peek()
        if p.at("{"):
            p.eat("{")
            t = self.tail()
            p.eat("}")
            return t
        if p.at("if"):
            p.eat("if")
            c, cty = p.expr()
            if cty != BOOL:
                p.fail("the condition is not a bool", tok)
            p.eat("{")
            a = self.tail()
            p.eat("}")
            if not p.at("else"):
                p.fail("`if` used as a value needs an `else`", tok)
            p.eat("else")
            if p.at("if"):
                b = self.tail()
            else:
                p.eat("{")
                b = self.tail()
                p.eat("}")
            return f"(if {c} then {a} else {b})"
        if tok.kind == "id" and tok.text in self.callees and p.at(".", 1) and p.at("cache", 2) and p.at("(", 3):
            lean, arity, var = self.callees[tok.text]
            p.i += 3
            return f"({lean} {var} {self.u64_args(arity, tok)})"
        return self.budget()

    def simple_block(self):
        """`{ ops }` without `return`: list of ops"""
        p = self.p
        p.eat("{")
        ops = []
        while not p.at("}"):
            ops.append(self.op())
        p.eat("}")
        return ops

    def op(self):
        p = self.p
        tok = p.peek()
        if p.at("if"):
            p.eat("if")
            c, cty = p.expr()
            if cty != BOOL:
                p.fail("the condition is not a bool", tok)
            if p.at("return", 1):
                p.eat("{")
                p.eat("return")
                r = self.budget()
                p.eat(";")
                p.eat("}")
                if p.at("else"):
                    p.fail("`else` after an early return is not in the subset", tok)
                return ("ifret", c, r)
            inner = self.simple_block()
            if p.at("else"):
                p.fail("`if .. else ..` as a statement is not in the subset", tok)
            return ("if", c, inner)
        if p.at("self") and p.at(".", 1) and p.at("regex", 2) and p.at("=", 3) and "regex" in self.state:
            p.i += 4
            e, ty = p.expr()
            if ty != LR:
                p.fail("`self.regex = E`: E is not a `LazyRegex`", tok)
            p.eat(";")
            return ("set", e)
        if tok.kind == "id" and tok.text in self.mut and p.at("-=", 1):
            p.i += 2
            n = p.peek()
            if n.kind != "num":
                p.fail("only `x -= <integer literal>` is in the subset", n)
            p.i += 1
            p.eat(";")
            return ("dec", p.env[tok.text][0], n.text)
        if p.at("for") and self.loop is not None and self.loop_args is None:
            # for child in &mut self.children { left = child.cache(args); }
            p.eat("for")
            child = p.ident()
            p.eat("in")
            for t in ("&", "mut", "self", ".", "children"):
                p.eat(t)
            p.eat("{")
            v = p.peek()
            if v.kind != "id" or v.text not in self.mut or p.env[v.text][0] != "left":
                p.fail("the loop body must be `left = child.cache(..);` (assigning the budget)", v)
            p.i += 1
            p.eat("=")
            if not (p.at(child) and p.at(".", 1) and p.at("cache", 2)):
                p.fail("the loop body must be `left = child.cache(..);`", v)
            p.i += 3
            self.loop_args = self.u64_args(3, v)
            p.eat(";")
            p.eat("}")
            return ("for",)
        p.fail("statement form is not in the subset")

    def render(self, ops, k):
        for o in reversed(ops):
            if o[0] == "ifret":
                k = f"(if {o[1]} then {o[2]} else {k})"
            elif o[0] == "if":
                k = f"(if {o[1]} then {self.render(o[2], k)} else {k})"
            elif o[0] == "set":
                k = f"(let regex : {LR} := {o[1]}; {k})"
            elif o[0] == "dec":
                k = f"(if {o[1]} < {o[2]} then none else (let {o[1]} := {o[1]} - {o[2]}; {k}))"
            elif o[0] == "for":
                k = (f"(match {self.loop} childCache children left cacheLevel currentLevel with | none => none "
                     f"| some r => (let children := r.1; let left := r.2; {k}))")
        return k

    def is_stmt_start(self):
        p = self.p
        if p.at("for"):
            return True
        if p.at("self") and p.at("=", 3):
            return True
        if p.peek().kind == "id" and p.at("-=", 1):
            return True
        if p.at("if"):
            # a statement `if` has no `else`: look ahead to the matching `}`
            depth, j = 0, p.i
            while j < len(p.t):
                if p.t[j].text == "{":
                    depth += 1
                elif p.t[j].text == "}":
                    depth -= 1
                    if depth == 0:
                        return not (j + 1 < len(p.t) and p.t[j + 1].text == "else")
                j += 1
        return False


def _cache_header(src, path, fail, nparams):
    hits = list(re.finditer(r"pub fn cache\(&mut self, ((?:mut )?\w+: u64(?:, (?:mut )?\w+: u64)*)\) -> u64 \{", src))
    if len(hits) != 1:
        fail(f"{path}: expected exactly one `pub fn cache(&mut self, ..: u64, ..) -> u64 {{`")
    m = hits[0]
    env, mut = {}, set()
    items = [x.strip() for x in m.group(1).split(",")]
    if len(items) != nparams:
        fail(f"{path}: `cache` no longer has {nparams} u64 parameter(s)")
    for k, item in enumerate(items):
        pm = re.fullmatch(r"(mut )?(\w+): u64", item)
        env[pm.group(2)] = (_U64_NAMES[k], U64)         # parameter names are free; POSITION decides
        if pm.group(1):
            mut.add(pm.group(2))
    if len(env) != nparams:
        fail(f"{path}: duplicate parameter names in `cache`")
    body, first = _body(src, path, m, fail)
    lines = {first + k: t for k, t in enumerate(body.split("\n"))}
    return env, mut, body, first, lines


def _node_cache(read, fail, fields, fn_names):
    path = "src/regex_radix_tree/node.rs"
    src = read(path)
    env, mut, body, first, lines = _cache_header(src, path, fail, 3)
    try:
        p = _P(_lex(body, first, path), path, lines, fields, env, "node", fn_names)
        s = _S(p, ["regex", "children"], mut, {}, loop="genNodeCacheLoop")
        p.eat("{")
        ops = []
        while s.is_stmt_start():
            ops.append(s.op())
        k = s.tail()
        p.eat("}")
        if p.i != len(p.t):
            p.fail("text after the function body")
        e = s.render(ops, k)
    except _Fail as ex:
        fail(str(ex))
    if s.loop_args is None:
        fail(f"{path}: `Node::cache` no longer has the loop over `self.children`")
    nb = "build" in p.uses
    bpar = " (build : List Char → Bool → Option ρ)" if nb else ""
    cty = "χ → Nat → Nat → Nat → Option (χ × Nat)"
    return ["set_option linter.unusedVariables false in",
            "/-- the loop `for child in &mut self.children { left = child.cache(..); }` of `Node::cache`: (the children afterwards, the budget); "
            f"`childCache` = `Item::cache` of a child (the recursive call, a parameter); translated from {path}. -/",
            f"def genNodeCacheLoop {{χ : Type}} (childCache : {cty}) : List χ → Nat → Nat → Nat → Option (List χ × Nat)",
            "  | [], left, cacheLevel, currentLevel => some ([], left)",
            "  | child :: rest, left, cacheLevel, currentLevel =>",
            f"    match childCache child {s.loop_args} with",
            "    | none => none",
            "    | some r =>",
            "      (let left := r.2;",
            "      match genNodeCacheLoop childCache rest left cacheLevel currentLevel with",
            "      | none => none",
            "      | some r' => some (r.1 :: r'.1, r'.2))",
            "",
            "set_option linter.unusedVariables false in",
            "/-- `Node::cache(&mut self, mut left: u64, cache_level: u64, current_level: u64) -> u64`: (new `self.regex`, new `self.children`, the "
            "returned budget); `none` = a `u64` subtraction underflows (a panic with overflow checks) here or in a child; `current_level + 1` is "
            f"rendered on `Nat` (no wrap below 2^64 levels); translated from {path}. -/",
            f"def genNodeCache {{ρ χ : Type}}{bpar} (childCache : {cty}) (regex : {LR}) (children : List χ) (left cacheLevel currentLevel : Nat) : "
            f"Option ({LR} × List χ × Nat) :=",
            f"  {e}"]


def _item_cache(read, fail, fields, fn_names):
    """`Item::cache`: the guards, then `match self { Item::Empty(_) => .., Item::Node(x) => .., Item::Leaf(x) => .. }`: one definition per arm"""
    path = "src/regex_radix_tree/item.rs"
    src = read(path)
    env, mut, body, first, lines = _cache_header(src, path, fail, 3)
    arms_spec = {"Empty": ("genItemCacheEmpty", [], None, "Option Nat", ""),
                 "Node": ("genItemCacheNode", ["node"], ("nodeCache", 3), "Option (ν × Nat)", "{ν : Type} (nodeCache : ν → Nat → Nat → Nat → Option (ν × Nat)) (node : ν) "),
                 "Leaf": ("genItemCacheLeaf", ["leaf"], ("leafCache", 1), "Option (κ × Nat)", "{κ : Type} (leafCache : κ → Nat → Option (κ × Nat)) (leaf : κ) ")}
    out = []
    try:
        toks = _lex(body, first, path)
        # the prelude (early returns) is translated once per arm, with that arm's result shape
        done = []
        for variant in ("Empty", "Node", "Leaf"):
            lean, state, callee, rty, par = arms_spec[variant]
            p = _P(toks, path, lines, fields, env, "item", fn_names)
            s = _S(p, state, mut, {})
            p.eat("{")
            ops = []
            while s.is_stmt_start():
                o = s.op()
                if o[0] != "ifret":
                    p.fail("only early returns are in the subset before `match self`")
                ops.append(o)
            mtok = p.eat("match")
            p.eat("self")
            p.eat("{")
            seen = {}
            while not p.at("}"):
                atok = p.peek()
                p.eat("Item")
                p.eat("::")
                v = p.ident()
                p.eat("(")
                b = p.ident()
                p.eat(")")
                p.eat("=>")
                if v not in arms_spec or v in seen or (v == "Empty") != (b == "_"):
                    p.fail("arm pattern is not one of `Item::Empty(_)`, `Item::Node(x)`, `Item::Leaf(x)` (each once)", atok)
                if v == variant:
                    s.callees = {b: (callee[0], callee[1], state[0])} if callee else {}
                    seen[v] = s.tail()
                else:
                    # another arm: skip its tokens (it is translated in its own pass)
                    depth = 0
                    while not (depth == 0 and (p.at(",") or p.at("}"))):
                        if p.peek().text in "{(":
                            depth += 1
                        elif p.peek().text in "})":
                            depth -= 1
                        p.i += 1
                        if depth == 0 and p.t[p.i - 1].text == "}":
                            break
                    seen[v] = None
                if p.at(","):
                    p.eat(",")
            p.eat("}")
            p.eat("}")
            if p.i != len(p.t):
                p.fail("text after the function body")
            if sorted(seen) != ["Empty", "Leaf", "Node"]:
                p.fail("`match self` must have exactly the three arms", mtok)
            e = s.render(ops, seen[variant])
            out += ["", "set_option linter.unusedVariables false in",
                    f"/-- `Item::cache(&mut self, left, cache_level, current_level)`, arm `Item::{variant}`: the guards, then the arm"
                    + (f"; `{callee[0]}` = `{variant}::cache` of the payload (a parameter)" if callee else "")
                    + f"; translated from {path}. -/",
                    f"def {lean} {par}(left cacheLevel currentLevel : Nat) : {rty} :=", f"  {e}"]
    except _Fail as ex:
        fail(str(ex))
    return out[1:]


# ------------------------------------------------------------------------------------------------
# where cells are built / written: only through the translated functions (checked, fails closed; nothing emitted but a table)
# ------------------------------------------------------------------------------------------------

_USERS = ["src/regex_radix_tree/item.rs", "src/regex_radix_tree/leaf.rs", "src/regex_radix_tree/node.rs", "src/regex_radix_tree/tree.rs",
          "src/regex_radix_tree/iter.rs", "src/regex_radix_tree/trace.rs", "src/regex_radix_tree/mod.rs", "src/marker/mod.rs"]


def _call_sites(read, fail):
    """every `LazyRegex` of the tree / of a marker is built by `LazyRegex::new_leaf(..)` / `new_node(..)` and replaced only by
    `.compile()`: no struct literal, no write to a field, no other associated function outside src/regex.rs.
    -> [(file, constructor, number of call sites)]"""
    table = []
    for path in _USERS:
        src = read(path)
        code = re.sub(r"//[^\n]*", "", src)
        for n, line in enumerate(code.split("\n"), 1):
            if re.search(r"\bLazyRegex\s*\{", line):
                fail(f"{path}:{n}: a `LazyRegex {{ .. }}` struct literal outside src/regex.rs: `{line.strip()}`")
            for m in re.finditer(r"\bLazyRegex::(\w+)", line):
                if m.group(1) not in ("new_leaf", "new_node"):
                    fail(f"{path}:{n}: `LazyRegex::{m.group(1)}` is not one of the translated constructors: `{line.strip()}`")
            if re.search(r"\.(compiled|original|ignore_case)\s*(=[^=]|\+=|-=)", line) or re.search(r"\.regex\.regex\s*(=[^=])", line):
                fail(f"{path}:{n}: a field of a `LazyRegex` is written outside src/regex.rs: `{line.strip()}`")
            for m in re.finditer(r"\.compiled\b(\.\w+\(\))?", line):
                if m.group(1) not in (".is_some()", ".is_none()"):
                    fail(f"{path}:{n}: `.compiled` is used other than through `.is_some()` / `.is_none()`: `{line.strip()}`")
        for c in ("new_leaf", "new_node"):
            k = len(re.findall(r"\bLazyRegex::" + c + r"\(", code))
            if k:
                table.append((path, c, k))
    return table


def extract(read, fail, lean_str, lean_list):
    path = "src/regex.rs"
    full = read(path)
    fields = _struct(full, path, fail)
    src = _impl_slice(full, path, fail)
    out = ["-- Rust -> Lean translation: the lazily compiled regex cell `LazyRegex` (src/regex.rs) and `Leaf::cache` "
           "(tools/consts.d/tr_w20_lazyregex.py; own typed mini-translator, fails closed outside its subset)",
           "",
           "/-- `pub struct LazyRegex` (src/regex.rs): the fields in declaration order; `ρ` = the type of compiled regex values (`Arc<Regex>`). -/",
           "structure GenLazyRegex (ρ : Type) where"]
    out += [f"  {ln} : {ty}" for _, ln, ty in fields]
    fn_names = {}
    plan = [
        ("new_node", "genLazyRegexNewNode", False, "`LazyRegex::new_node(regex, ignore_case)`"),
        ("new_leaf", "genLazyRegexNewLeaf", False, "`LazyRegex::new_leaf(regex, ignore_case)`"),
        ("create_regex", "genLazyRegexCreateRegex", True,
         "`LazyRegex::create_regex`: `build` = `RegexBuilder::new(s).case_insensitive(ic).build()` (`Ok` ↦ `some`, `Err` ↦ `none`)"),
        ("is_match", "genLazyRegexIsMatch", True, "`LazyRegex::is_match(value)`: `run` = `Regex::is_match`"),
        ("regex", "genLazyRegexRegex", True, "`LazyRegex::regex()`"),
        ("compile", "genLazyRegexCompile", True, "`LazyRegex::compile`"),
    ]
    for rust, lean, recv, doc in plan:
        lines, nb, nr, rty = _function(src, path, fail, fields, rust, lean, recv, fn_names, doc)
        out.append("")
        out += lines
        if recv:
            fn_names[rust] = (lean, nb, nr, rty)
    out.append("")
    out += _leaf_cache(read, fail, fields, fn_names)
    out.append("")
    out += _node_cache(read, fail, fields, fn_names)
    out.append("")
    out += _item_cache(read, fail, fields, fn_names)
    sites = _call_sites(read, fail)
    out += ["", "/-- Where cells are built outside src/regex.rs (file, translated constructor, number of call sites); the generator has checked "
            "that these files contain no `LazyRegex { .. }` literal, no write to a field of a cell and no use of `.compiled` other than "
            "`.is_some()` / `.is_none()`. -/",
            "def genLazyRegexCallSites : List (String × String × Nat) :=",
            "  [" + ", ".join(f"({lean_str(a)}, {lean_str(b)}, {c})" for a, b, c in sites) + "]"]
    return out
