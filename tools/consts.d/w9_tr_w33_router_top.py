"""W33: section `w33_router_top` - the TOP-LEVEL operations of the router, translated from the source on every run:
`Router::insert_route`, `get_route_by_id`, `remove`, `batch_remove`, `len`, `insert`, `apply_change_set` (src/router/mod.rs) and
`RuleChangeSet::update_existing_router` (src/api/rules_message.rs).

A small compiler of its own (lexer -> recursive-descent parser for the subset -> emission as a `let` chain); it does not use the
W4c core (these functions thread `&mut self` state).  Everything outside the subset FAILS CLOSED with `file: fn: reason: tokens`.

SHAPE.  The mutable state of a `Router<T>` is the pair of fields (`matcher`, `routes`); `config: Arc<RouterConfig>` is read-only and
is the abstract parameter `config`.  A `&mut self` method `f(&mut self, a..)` becomes
    genRouterF <abstract parameters> (matcher : mu) (routes : theta) a1 .. : mu x theta            (unit result)
                                                                            : R x mu x theta        (result R)
a `&self` method a plain function of the field `routes` (a `&self` method reading `self.matcher` fails closed).  `Vec<T>` is a `List`, `for x in v {..}` a `List.foldl` over it with the state pair,
`v.into_iter().map(|x| e).collect::<Vec<_>>()` a `List.map`.  `update_existing_router(self, existing_router)` takes the three
fields of `self` (added, updated, deleted) and the existing router as a pair `mu x theta`; its result is the NEW router pair
(`existing_router` is a by-value `Arc`: the translator accepts exactly `.as_ref().clone()` on it, nothing that could write).
Statements: `let [mut] x = E;`, effectful calls as statements, `for x in E {..}`, a tail `if C {..} [else {..}]`, a tail expression.
Locals and arguments get canonical names (`a1..` arguments, `x1..` locals / closure parameters in binding order).
Erased (identity on the abstract values): `Arc::new(e)`, `.clone()` of a route / id, `.to_string()`, `.as_ref()` on `self.config`,
`.into_iter()`, `.iter()`, `.cloned()` on the `Option<&Arc<Route>>` of `routes.get`, `.collect::<Vec<Route<T>>>()`, `&`.

ABSTRACT PARAMETERS (every callee that is not translated; instantiated in Proofs/RouterTopGen.lean):
  matcherInsert : rho -> mu -> mu                  `self.matcher.insert(route)`
  matcherRemove : iota -> mu -> mu x Option rho    `self.matcher.remove(id)`
  matcherBatchRemove : eta -> mu -> mu             `self.matcher.batch_remove(ids)`
  routeId : rho -> iota                            `route.id()`
  routesInsert : iota -> rho -> theta -> theta     `self.routes.insert(k, v)` (the returned old value must be discarded)
  routesGet : iota -> theta -> Option rho          `self.routes.get(id)`
  routesContainsKey : iota -> theta -> Bool        `self.routes.contains_key(id)`
  routesRemove : iota -> theta -> theta            `self.routes.remove(id)` (result discarded)
  routesRetain : (iota -> rho -> Bool) -> theta -> theta   `self.routes.retain(|k, v| e)` (closure must be pure)
  routesLen : theta -> Nat                         `self.routes.len()`
  idsContains : eta -> iota -> Bool                `ids.contains(id)`
  idsExtend : eta -> List iota -> eta              `removed.extend(iterator)`
  intoRoute : tau -> gamma -> rho                  `item.into_route(config)`  (Rule::into_route)
  config : gamma                                   `self.config`
  routerClone : mu x theta -> mu x theta           `#[derive(Clone)] Router<T>`, called through `existing_router.as_ref().clone()`
Checked (fail closed): the fields of `struct Router`, `#[derive(.. Clone)]` on it, the signatures of the eight functions.
"""
import re

_TOK = re.compile(r'\s+|//[^\n]*|(?P<id>[A-Za-z_][A-Za-z0-9_]*)|(?P<p>::|->|=>|==|!=|&&|\|\||\+=|-=|[{}()\[\];,.<>=!&|:*+\-/#?\'"0-9])')

PARAM_ORDER = ['matcherInsert', 'matcherRemove', 'matcherBatchRemove', 'routeId', 'routesInsert', 'routesGet', 'routesContainsKey',
               'routesRemove', 'routesRetain', 'routesLen', 'idsContains', 'idsExtend', 'intoRoute', 'config', 'routerClone']
PARAM_TYPE = {
    'matcherInsert': 'ρ → μ → μ', 'matcherRemove': 'ι → μ → μ × Option ρ', 'matcherBatchRemove': 'η → μ → μ', 'routeId': 'ρ → ι',
    'routesInsert': 'ι → ρ → θ → θ', 'routesGet': 'ι → θ → Option ρ', 'routesContainsKey': 'ι → θ → Bool', 'routesRemove': 'ι → θ → θ',
    'routesRetain': '(ι → ρ → Bool) → θ → θ', 'routesLen': 'θ → Nat', 'idsContains': 'η → ι → Bool', 'idsExtend': 'η → List ι → η',
    'intoRoute': 'τ → γ → ρ', 'config': 'γ', 'routerClone': 'μ × θ → μ × θ'}
TYVARS = 'μθριητγ'

# rust fn name -> (file, lean name, expected signature (normalised tokens), self kind, [(arg name, kind, lean type)], result kind)
ROUTER = 'src/router/mod.rs'
FUNCS = [
    ('insert_route', ROUTER, 'genRouterInsertRoute', '( & mut self , route : Route < T > )', 'mut', [('route', 'route', 'ρ')], None),
    ('get_route_by_id', ROUTER, 'genRouterGetRouteById', '( & self , id : & str ) -> Option < Arc < Route < T > > >', 'ref', [('id', 'id', 'ι')], 'Option ρ'),
    ('remove', ROUTER, 'genRouterRemove', '( & mut self , id : & str ) -> Option < Arc < Route < T > > >', 'mut', [('id', 'id', 'ι')], 'Option ρ'),
    ('batch_remove', ROUTER, 'genRouterBatchRemove', '( & mut self , ids : & HashSet < String > )', 'mut', [('ids', 'ids', 'η')], None),
    ('len', ROUTER, 'genRouterLen', '( & self ) -> usize', 'ref', [], 'Nat'),
    ('insert', ROUTER, 'genRouterInsert', '( & mut self , item : T )', 'mut', [('item', 'item', 'τ')], None),
    ('apply_change_set', ROUTER, 'genRouterApplyChangeSet', '( & mut self , added : Vec < T > , updated : Vec < T > , mut removed : HashSet < String > )', 'mut',
     [('added', 'items', 'List τ'), ('updated', 'items', 'List τ'), ('removed', 'ids', 'η')], None),
    ('update_existing_router', 'src/api/rules_message.rs', 'genUpdateExistingRouter', '( self , existing_router : Arc < Router < Rule > > ) -> Router < Rule >', 'changeset',
     [('existing_router', 'arcrouter', 'μ × θ')], 'μ × θ'),
]


def extract(read, fail, lean_str, lean_list):
    def lex(src, where):
        out, pos = [], 0
        while pos < len(src):
            m = _TOK.match(src, pos)
            if not m:
                fail('%s: cannot tokenise at: %r' % (where, src[pos:pos + 40]))
            if m.group('id') or m.group('p'):
                out.append(m.group('id') or m.group('p'))
            pos = m.end()
        return out

    def fn_tokens(path, name):
        src = read(path)
        hits = [m.start() for m in re.finditer(r'\bfn\s+%s\s*\(' % name, src)]
        if len(hits) != 1:
            fail('%s: expected exactly one `fn %s`, found %d' % (path, name, len(hits)))
        i = src.index('{', hits[0])
        sig = lex(src[src.index('(', hits[0]):i], path)
        depth, j = 0, i
        while True:
            if src[j] == '{':
                depth += 1
            elif src[j] == '}':
                depth -= 1
                if depth == 0:
                    break
            j += 1
        return ' '.join(sig), lex(src[i + 1:j], path)

    # --- struct check
    rsrc = read(ROUTER)
    m = re.search(r'#\[derive\(([^)]*)\)\]\s*pub struct Router<T>\s*\{([^}]*)\}', rsrc)
    if not m:
        fail(ROUTER + ': `pub struct Router<T>` with a derive line not found')
    if 'Clone' not in [x.strip() for x in m.group(1).split(',')]:
        fail(ROUTER + ': Router<T> does not derive Clone: ' + m.group(1))
    fields = ' '.join(lex(m.group(2), ROUTER))
    if fields != 'matcher : SchemeMatcher < T > , pub config : Arc < RouterConfig > , pub routes : HashMap < String , Arc < Route < T > > > ,':
        fail(ROUTER + ': unexpected fields of struct Router: ' + fields)

    done = {}      # rust name -> (lean name, used params, selfkind, nargs, result)

    class P:
        def __init__(s, toks, where):
            s.t, s.i, s.w = toks, 0, where

        def bad(s, why):
            fail('%s: %s: at tokens `%s`' % (s.w, why, ' '.join(s.t[max(0, s.i - 3):s.i + 8])))

        def peek(s, k=0):
            return s.t[s.i + k] if s.i + k < len(s.t) else None

        def eat(s, x):
            if s.peek() != x:
                s.bad('expected `%s`' % x)
            s.i += 1

        def ident(s):
            x = s.peek()
            if x is None or not re.match(r'[A-Za-z_]\w*$', x) or x in ('let', 'mut', 'for', 'in', 'if', 'else', 'return', 'match', 'while', 'loop', 'break', 'continue'):
                s.bad('identifier expected')
            s.i += 1
            return x

        def block(s):            # after `{` up to and including `}` (or end of tokens at top level)
            stmts, tail = [], None
            while s.peek() not in ('}', None):
                if tail is not None:
                    s.bad('statement after a tail expression')
                x = s.peek()
                if x == 'let':
                    s.i += 1
                    mut = s.peek() == 'mut'
                    if mut:
                        s.i += 1
                    n = s.ident(); s.eat('='); e = s.expr(); s.eat(';')
                    stmts.append(('let', n, e))
                elif x == 'for':
                    s.i += 1
                    n = s.ident(); s.eat('in'); e = s.expr(); s.eat('{'); b = s.block(); s.eat('}')
                    stmts.append(('for', n, e, b))
                elif x == 'if':
                    s.i += 1
                    c = s.expr(); s.eat('{'); a = s.block(); s.eat('}')
                    b = None
                    if s.peek() == 'else':
                        s.i += 1; s.eat('{'); b = s.block(); s.eat('}')
                    tail = ('if', c, a, b)
                elif x in ('return', 'match', 'while', 'loop', 'break', 'continue'):
                    s.bad('statement form `%s` is not translated' % x)
                else:
                    e = s.expr()
                    if s.peek() == ';':
                        s.i += 1
                        stmts.append(('expr', e))
                    else:
                        tail = ('tail', e)
            return (stmts, tail)

        def expr(s):
            x = s.peek()
            if x == '!':
                s.i += 1
                return ('not', s.expr())
            if x == '&':
                s.i += 1
                if s.peek() == 'mut':
                    s.bad('`&mut` expression is not translated')
                return s.expr()
            if x == '|':
                s.i += 1
                ps = []
                while s.peek() != '|':
                    ps.append(s.ident())
                    if s.peek() == ',':
                        s.i += 1
                s.eat('|')
                if s.peek() == '{':
                    s.bad('closure with a block body is not translated')
                return ('closure', ps, s.expr())
            return s.postfix()

        def args(s):
            s.eat('(')
            a = []
            while s.peek() != ')':
                a.append(s.expr())
                if s.peek() == ',':
                    s.i += 1
                elif s.peek() != ')':
                    s.bad('`,` or `)` expected')
            s.eat(')')
            return a

        def postfix(s):
            x = s.peek()
            if x == '(':
                s.i += 1; e = s.expr(); s.eat(')')
            elif x == 'self':
                s.i += 1; e = ('self',)
            else:
                n = s.ident()
                if s.peek() == '::':
                    path = [n]
                    while s.peek() == '::':
                        s.i += 1; path.append(s.ident())
                    e = ('pathcall', '::'.join(path), s.args())
                elif s.peek() == '(':
                    s.bad('free function call is not translated')
                else:
                    e = ('var', n)
            while s.peek() == '.':
                s.i += 1
                m = s.ident()
                if s.peek() == '::':
                    s.i += 1; s.eat('<')
                    d, tf = 1, []
                    while d:
                        t = s.peek()
                        if t is None:
                            s.bad('unterminated turbofish')
                        d += (t == '<') - (t == '>')
                        if d:
                            tf.append(t)
                        s.i += 1
                    m = m + '::<' + ' '.join(tf) + '>'
                if s.peek() == '(':
                    e = ('call', e, m, s.args())
                else:
                    e = ('field', e, m)
            if s.peek() in ('?', '[', '=', '+=', '-=', '==', '!=', '&&', '||', '+', '-', '*', '/', '<', '>', 'as'):
                s.bad('operator `%s` is not translated' % s.peek())
            return e

    class Ctx:
        def __init__(s, where, selfkind):
            s.w, s.selfkind, s.env, s.used, s.nloc = where, selfkind, {}, set(), 0

        def fresh(s):
            s.nloc += 1
            return 'x%d' % s.nloc

    def bad(c, why, e):
        fail('%s: %s: %r' % (c.w, why, e))

    def use(c, p):
        c.used.add(p)
        return p

    def callgen(c, rust, argvals, st):
        """call of an already translated method on the router state `st` = (matcher expr, routes expr)"""
        if rust not in done:
            bad(c, 'call of a method that is not translated (or not yet)', rust)
        lean, used, kind, nargs, res = done[rust]
        if len(argvals) != nargs:
            bad(c, 'arity of ' + rust, argvals)
        for p in used:
            use(c, p)
        return '(%s %s)' % (lean, ' '.join([p for p in PARAM_ORDER if p in used] + ([st[1]] if kind == 'ref' else [st[0], st[1]]) + argvals))

    def pure(c, e, env):
        """a PURE expression -> Lean text (fails on anything with an effect)"""
        k = e[0]
        if k == 'var':
            if e[1] == 'None' and 'None' not in env:
                return 'none'
            if e[1] not in env:
                bad(c, 'unknown variable', e)
            return env[e[1]][0]
        if k == 'not':
            return '(!%s)' % pure(c, e[1], env)
        if k == 'pathcall':
            if e[1] == 'Arc::new' and len(e[2]) == 1:
                return pure(c, e[2][0], env)
            bad(c, 'path call is not translated', e)
        if k == 'field':
            if e[1] == ('self',):
                if (c.selfkind == 'mut' and e[2] in ('matcher', 'routes')) or (c.selfkind == 'ref' and e[2] == 'routes'):
                    return e[2]
                if c.selfkind in ('mut', 'ref') and e[2] == 'config':
                    return use(c, 'config')
                if c.selfkind == 'changeset' and e[2] in ('added', 'updated', 'deleted'):
                    return e[2]
            bad(c, 'field access is not translated', e)
        if k == 'closure':
            env2 = dict(env)
            names = []
            for p in e[1]:
                if p == '_':
                    names.append('_')
                else:
                    n = c.fresh(); env2[p] = (n, 'any'); names.append(n)
            return '(fun %s => %s)' % (' '.join(names), pure(c, e[2], env2))
        if k == 'call':
            r, m, a = e[1], e[2], e[3]
            rk = env[r[1]][1] if r[0] == 'var' and r[1] in env else None
            isroutes = r == ('field', ('self',), 'routes') and c.selfkind in ('mut', 'ref')
            isconfig = r == ('field', ('self',), 'config') and c.selfkind in ('mut', 'ref')
            if isroutes:
                if m == 'get' and len(a) == 1:
                    return '(%s %s routes)' % (use(c, 'routesGet'), pure(c, a[0], env))
                if m == 'contains_key' and len(a) == 1:
                    return '(%s %s routes)' % (use(c, 'routesContainsKey'), pure(c, a[0], env))
                if m == 'len' and not a:
                    return '(%s routes)' % use(c, 'routesLen')
                bad(c, 'method of `self.routes` is not translated as a pure call', e)
            if isconfig:
                if m == 'as_ref' and not a:
                    return use(c, 'config')
                bad(c, 'method of `self.config` is not translated', e)
            if m == 'cloned' and not a and r[0] == 'call' and r[1] == ('field', ('self',), 'routes') and r[2] == 'get':
                return pure(c, r, env)
            if m == 'id' and not a and rk in ('route', 'any'):
                return '(%s %s)' % (use(c, 'routeId'), pure(c, r, env))
            if m in ('clone', 'to_string') and not a and (rk in ('route', 'id', 'any') or (r[0] == 'call' and r[2] == 'id')):
                return pure(c, r, env)
            if m == 'contains' and len(a) == 1 and rk == 'ids':
                return '(%s %s %s)' % (use(c, 'idsContains'), pure(c, r, env), pure(c, a[0], env))
            if m == 'into_route' and len(a) == 1 and rk in ('item', 'any'):
                return '(%s %s %s)' % (use(c, 'intoRoute'), pure(c, r, env), pure(c, a[0], env))
            if m in ('into_iter', 'iter') and not a and rk in ('items', 'routes_list'):
                return pure(c, r, env)
            if m == 'map' and len(a) == 1 and a[0][0] == 'closure' and len(a[0][1]) == 1 and r[0] == 'call' and r[2] in ('into_iter', 'iter'):
                return '(List.map %s %s)' % (pure(c, a[0], env), pure(c, r, env))
            if m == 'collect::<Vec < Route < T > >>' and not a and r[0] == 'call' and r[2] == 'map':
                return pure(c, r, env)
            if rk == 'arcrouter' and m == 'as_ref' and not a:
                return pure(c, r, env)
            if m == 'clone' and not a and r[0] == 'call' and r[2] == 'as_ref' and r[1][0] == 'var' and env.get(r[1][1], (0, 0))[1] == 'arcrouter':
                return '(%s %s)' % (use(c, 'routerClone'), pure(c, r, env))
            bad(c, 'call is not translated as a pure expression', e)
        bad(c, 'expression form is not translated', e)

    def kind_of(c, e, env):
        if e[0] == 'call' and e[2].startswith('collect::<Vec'):
            return 'routes_list'
        if e[0] == 'pathcall' and e[1] == 'Arc::new':
            return 'route'
        if e[0] == 'call' and e[2] == 'clone' and e[1][0] == 'call' and e[1][2] == 'as_ref':
            return 'router'
        bad(c, 'cannot classify the value bound by `let`', e)

    ST = ('matcher', 'routes')

    def effect(c, e, env, lines, want_value):
        """an expression statement / tail with an effect on self; appends `let` lines; returns the value text or None"""
        if e[0] == 'call':
            r, m, a = e[1], e[2], e[3]
            if c.selfkind == 'mut' and r == ('field', ('self',), 'matcher'):
                av = [pure(c, x, env) for x in a]
                if m == 'insert' and len(a) == 1 and not want_value:
                    lines.append('let matcher := %s %s matcher' % (use(c, 'matcherInsert'), av[0])); return None
                if m == 'batch_remove' and len(a) == 1 and not want_value:
                    lines.append('let matcher := %s %s matcher' % (use(c, 'matcherBatchRemove'), av[0])); return None
                if m == 'remove' and len(a) == 1 and want_value:
                    n = c.fresh()
                    lines.append('let %s := %s %s matcher' % (n, use(c, 'matcherRemove'), av[0]))
                    lines.append('let matcher := %s.1' % n)
                    return '%s.2' % n
                bad(c, 'method of `self.matcher` is not translated here', e)
            if c.selfkind == 'mut' and r == ('field', ('self',), 'routes') and not want_value:
                av = [pure(c, x, env) for x in a]
                if m == 'insert' and len(a) == 2:
                    lines.append('let routes := %s %s %s routes' % (use(c, 'routesInsert'), av[0], av[1])); return None
                if m == 'remove' and len(a) == 1:
                    lines.append('let routes := %s %s routes' % (use(c, 'routesRemove'), av[0])); return None
                if m == 'retain' and len(a) == 1 and a[0][0] == 'closure' and len(a[0][1]) == 2:
                    lines.append('let routes := %s %s routes' % (use(c, 'routesRetain'), av[0])); return None
                bad(c, 'method of `self.routes` is not translated as a statement', e)
            if c.selfkind == 'mut' and r == ('self',) and not want_value and m in ('insert_route', 'insert', 'batch_remove'):
                av = [pure(c, x, env) for x in a]
                n = c.fresh()
                lines.append('let %s := %s' % (n, callgen(c, m, av, ST)))
                lines.append('let matcher := %s.1' % n)
                lines.append('let routes := %s.2' % n)
                return None
            if r[0] == 'var' and r[1] in env and env[r[1]][1] == 'ids' and env[r[1]][2] and m == 'extend' and len(a) == 1 and not want_value:
                lines.append('let %s := %s %s %s' % (env[r[1]][0], use(c, 'idsExtend'), env[r[1]][0], pure(c, a[0], env))); return None
            if r[0] == 'var' and r[1] in env and env[r[1]][1] == 'router' and m == 'apply_change_set' and len(a) == 3 and not want_value:
                v = env[r[1]][0]
                av = [pure(c, x, env) for x in a]
                lines.append('let %s := %s' % (v, callgen(c, m, av, (v + '.1', v + '.2')))); return None
        if want_value:
            return pure(c, e, env)
        bad(c, 'statement is not translated', e)

    def emit(c, blk, env, result):
        """block -> single Lean expression text (a `let` chain); result(value or None) gives the final expression"""
        stmts, tail = blk
        env = dict(env)
        lines = []
        for s in stmts:
            if s[0] == 'let':
                v = pure(c, s[2], env)
                n = c.fresh()
                env[s[1]] = (n, kind_of(c, s[2], env), False)
                lines.append('let %s := %s' % (n, v))
            elif s[0] == 'expr':
                effect(c, s[1], env, lines, False)
            elif s[0] == 'for':
                if c.selfkind != 'mut':
                    bad(c, '`for` outside a `&mut self` method', s)
                coll = s[2]
                if not (coll[0] == 'var' and coll[1] in env and env[coll[1]][1] in ('items', 'routes_list')):
                    bad(c, '`for` over something that is not a Vec argument / collected Vec', s)
                st, it = c.fresh(), c.fresh()
                env2 = dict(env)
                env2[s[1]] = (it, 'item' if env[coll[1]][1] == 'items' else 'route', False)
                body = emit(c, s[3], env2, lambda v: '(matcher, routes)')
                if s[3][1] is not None:
                    bad(c, '`for` body with a tail expression', s)
                lines.append('let %s := List.foldl (fun %s %s => let matcher := %s.1; let routes := %s.2; %s) (matcher, routes) %s'
                             % (st, st, it, st, st, body, env[coll[1]][0]))
                lines.append('let matcher := %s.1' % st)
                lines.append('let routes := %s.2' % st)
            else:
                bad(c, 'statement form', s)
        if tail is None:
            fin = result(None)
        elif tail[0] == 'tail':
            l2 = []
            v = effect(c, tail[1], env, l2, True)
            lines += l2
            fin = result(v)
        else:
            cnd = pure(c, tail[1], env)
            a = emit(c, tail[2], env, result)
            b = emit(c, tail[3], env, result) if tail[3] is not None else result(None)
            fin = '(if %s then (%s) else (%s))' % (cnd, a, b)
        return '; '.join(lines + [fin])

    out = ['/-! ### section w33_router_top: top-level router operations (translated; tools/consts.d/w9_tr_w33_router_top.py) -/', '']
    for rust, path, lean, sig, selfkind, args, res in FUNCS:
        where = '%s: fn %s' % (path, rust)
        gotsig, body = fn_tokens(path, rust)
        if gotsig != sig:
            fail('%s: signature changed: `%s` (expected `%s`)' % (where, gotsig, sig))
        c = Ctx(where, selfkind)
        env = {}
        for i, (an, ak, at) in enumerate(args):
            env[an] = ('a%d' % (i + 1), ak, 'mut ' + an in sig)
        p = P(body, where)
        blk = p.block()
        if p.peek() is not None:
            p.bad('unbalanced block')
        if selfkind == 'mut':
            if res is None:
                result = lambda v: '(matcher, routes)' if v is None else bad(c, 'value in a unit function', v)
                rty = 'μ × θ'
            else:
                result = lambda v: bad(c, 'missing value', v) if v is None else '(%s, matcher, routes)' % v
                rty = '%s × μ × θ' % res
        else:
            result = lambda v: bad(c, 'missing value', v) if v is None else v
            rty = res
        text = emit(c, blk, env, result)
        used = [q for q in PARAM_ORDER if q in c.used]
        binders = ['(%s : %s)' % (q, PARAM_TYPE[q]) for q in used]
        if selfkind == 'mut':
            binders += ['(matcher : μ)', '(routes : θ)']
        elif selfkind == 'ref':
            binders += ['(routes : θ)']
        else:
            binders += ['(added : List τ)', '(updated : List τ)', '(deleted : η)']
        binders += ['(a%d : %s)' % (i + 1, at) for i, (an, ak, at) in enumerate(args)]
        alltxt = ' '.join(binders) + rty
        tv = [t for t in TYVARS if t in alltxt]
        out.append('/-- translated from `%s` (%s) -/' % (rust, path))
        out.append('def %s {%s : Type} %s : %s :=' % (lean, ' '.join(tv), ' '.join(binders), rty))
        parts = text.split('; ') if not text.startswith('(if') else [text]
        # top-level chain on separate lines (nested chains stay inline inside parentheses)
        depth, cur, top = 0, '', []
        for ch_i, ch in enumerate(text):
            cur += ch
            if ch == '(':
                depth += 1
            elif ch == ')':
                depth -= 1
            elif ch == ';' and depth == 0:
                top.append(cur[:-1].strip()); cur = ''
        top.append(cur.strip())
        out += ['  ' + t for t in top]
        out.append('')
        done[rust] = (lean, set(c.used), selfkind, len(args), res)
    return out
