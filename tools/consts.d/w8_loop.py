"""W8 (C19/C07): constants of src/api/redirection_loop.rs regenerated into Rio.Consts.

  redirectionCodes : List Nat      -- const REDIRECTION_CODES: [u16; 4] = [301, 302, 307, 308];
  loopGetRewriteCodes : List Nat   -- if [301, 302].contains(&final_status_code) { current_method = String::from("GET"); }
  loopRewriteMethod : String       -- "GET"
Fails closed when a pattern is no longer found.
"""
import re


def extract(read, fail, lean_str, lean_list):
    src = read("src/api/redirection_loop.rs")
    m = re.search(r"const REDIRECTION_CODES: \[u16; (\d+)\] = \[([0-9, ]+)\];", src)
    if not m:
        fail("redirection_loop.rs: `const REDIRECTION_CODES: [u16; N] = [...]` not found")
    codes = [int(x) for x in m.group(2).split(",") if x.strip()]
    if len(codes) != int(m.group(1)):
        fail("redirection_loop.rs: REDIRECTION_CODES length mismatch")
    m2 = re.search(r"if \[([0-9, ]+)\]\.contains\(&final_status_code\) \{\s*current_method = String::from\(\"([A-Z]+)\"\);", src)
    if not m2:
        fail("redirection_loop.rs: the `[301, 302].contains(&final_status_code)` method rewrite was not found")
    rew = [int(x) for x in m2.group(1).split(",") if x.strip()]
    if not re.search(r"if !REDIRECTION_CODES\.contains\(&final_status_code\) \{\s*break;", src):
        fail("redirection_loop.rs: `if !REDIRECTION_CODES.contains(&final_status_code) { break; }` not found")
    return [
        "-- src/api/redirection_loop.rs",
        "def redirectionCodes : List Nat := [" + ", ".join(str(c) for c in codes) + "]",
        "def loopGetRewriteCodes : List Nat := [" + ", ".join(str(c) for c in rew) + "]",
        "def loopRewriteMethod : String := " + lean_str(m2.group(2)),
    ]
