"""W15: section `w15_memo` - `match_request` AND `trace` of the two CONDITION-GROUP layers of the router, HeaderMatcher
(src/router/request_matcher/header.rs) and DateTimeMatcher (src/router/request_matcher/datetime.rs), translated from the
source on every run: the `'group` loop over `condition_groups`, the inner loop over one group's conditions, the per-request
memo `execute_conditions`, the `matched` / `executed` flags of `trace`, the guards around the memo insertions
(`if executed { execute_conditions.insert(..) }`), the `result: if executed { Some(..) } else { None }` fields, `cached`.

The translator is in THIS file (own lexer / recursive-descent parser / state-passing translation for the subset below); of
W4c's core (w4_translate.py, loaded as a PRIVATE module instance, never edited) only `_function` (body of a `fn` by its
signature) is used.  Everything outside the subset FAILS CLOSED naming the source line.

Subset.  Statements: `let [mut] x = E;`  `x = E;`  `x.push(E);`  `x.extend(E);`  `m.insert(K, V);` (m the memo)
  `['label:] for x in E { .. }` / `for (k, v) in E { .. }`  (E a list-typed variable or `&self.condition_groups`; becomes a
  recursive definition `<name>Loop<k>` by structural recursion on the list, its state = the mutable variables of the
  enclosing scopes that the body assigns, in declaration order; a loop whose body contains `continue 'L` for an ENCLOSING
  loop L returns `(completed, state)` - `completed = false` is exactly that `continue 'L`, and the caller then jumps to L's
  next iteration with the state as it is)
  `match m.get(K) { None => { .. } Some(x) => { .. } }` as a statement (either arm order; emitted `none` first; the rest of
  the block is continued in both arms; `if let Some(x) = m.get(K) { .. } [else { .. }]` is read as the same `match`),  `if C { .. } [else { .. }]` (a branch that `continue`s: rest of the block continued in
  both branches; otherwise the `if` yields the variables it assigns),  `continue 'label;`,  a variable as the tail.
Expressions: variables, `true`, `false`, `!E`, `E && E`, `( E )`, `Some(E)`, `None`, `Vec::new()`, `if C { E } else { E }`,
  `*E` / `&E` / `E.clone()` / `E.to_owned()` / `E.as_str()` (value semantics: all the identity), field access of a condition, struct
  literals of the two trace-info structs, and the calls listed under PARAMETERS.  Local names are free (canonical Lean
  names by type and order of declaration); so is the name of the `request` argument.

PARAMETERS of the generated definitions (every callee that is NOT translated is an explicit function argument):
  next : μ → List ρ                `m.match_request(request)` of the next layer (DateTimeMatcher resp. PathAndQueryMatcher)
  nextTrace : μ → List τ           `m.trace(request)` of the next layer
  lenOf : μ → Nat                  `m.len()` of the next layer (a `usize`); `E as u64` is `genAsU64 E` = E mod 2^64 (preamble):
                                   Props/C17gen.lean states `len < 2^64` (any usize) where it needs the cast to be the identity
  memoNew : σ, memoGet : σ → κ → Option Bool, memoInsert : σ → κ → Bool → σ
                                   `BTreeMap::new()`, `execute_conditions.get(c)` (the `&bool` is read by value),
                                   `execute_conditions.insert(c.clone(), b)` (its return value is dropped by the code too)
  matchValue                       header: χ → ν → Bool = `cond.match_value(request, name)` (ValueCondition::match_value);
                                   date-time: κ → Bool = `condition.match_value(request)` (DateTimeCondition::match_value)
  condOf : κ → χ, nameOf : κ → ν   the fields `condition` / `header_name` of a `HeaderCondition` (checked against the struct)
  mkTrace : Bool → Bool → Nat → List τ → ι → τ
                                   `Trace::new(matched, executed, count, children, info)` (checked: trace.rs defines it as the
                                   plain constructor of exactly these five fields)
  headerGroup / dateTimeGroup : List (Gen…Condition) → ι
                                   the variants `TraceInfo::HeaderGroup { conditions }` / `TraceInfo::DateTimeGroup { conditions }`
  anyHeader / anyDatetime : μ, conditionGroups : List (List κ × μ)
                                   the fields of `self`; a `BTreeMap` / `BTreeSet` the code ITERATES is the list of its entries /
                                   elements in iteration (key) order
The `request` argument is dropped (it is only ever passed on to the abstract callees).
`GenTraceInfoHeaderCondition` / `GenTraceInfoDateTimeCondition` are generated from the struct definitions of
src/router/trace.rs (fields in declaration order, `Option<bool>` ↦ `Option Bool`, `bool` ↦ `Bool`, other types abstract).
"""
import importlib.util
import os
import re


def _core():
    here = os.path.dirname(os.path.abspath(__file__))
    for d in (here, os.path.join(here, "..", "consts.d")):
        path = os.path.join(d, "w4_translate.py")
        if os.path.exists(path):
            spec = importlib.util.spec_from_file_location("consts_w4_translate_core_w15", path)
            mod = importlib.util.module_from_spec(spec)
            spec.loader.exec_module(mod)
            return mod
    raise RuntimeError("w4_translate.py not found")


class _Fail(Exception):
    pass


# ------------------------------------------------------------------------------------------------ lexer
_TOKEN = re.compile(r"""
    (?P<ws>\s+) |
    (?P<comment>//[^\n]*) |
    (?P<label>'[A-Za-z_][A-Za-z0-9_]*(?!')) |
    (?P<id>[A-Za-z_][A-Za-z0-9_]*) |
    (?P<op>::|=>|==|!=|&&|\|\||[!.,;:(){}&=*])
""", re.X)


def _lex(src, first_line, where, lines):
    toks, pos, line = [], 0, first_line
    while pos < len(src):
        m = _TOKEN.match(src, pos)
        if not m:
            raise _Fail(f"{where}:{line}: character not in the subset: `{lines.get(line, '').strip()}`")
        kind, text = m.lastgroup, m.group(0)
        if kind not in ("ws", "comment"):
            toks.append((kind, text, line))
        line += text.count("\n")
        pos = m.end()
    return toks


# ------------------------------------------------------------------------------------------------ parser
class _Parser:
    def __init__(self, toks, where, lines):
        self.t, self.i, self.where, self.lines = toks, 0, where, lines

    def fail(self, msg, line=None):
        if line is None:
            line = self.peek()[2]
        raise _Fail(f"{self.where}:{line}: {msg}: `{self.lines.get(line, '').strip()}`")

    def peek(self, k=0):
        return self.t[self.i + k] if self.i + k < len(self.t) else ("eof", "", self.t[-1][2] if self.t else 0)

    def at(self, text, k=0):
        return self.peek(k)[1] == text

    def eat(self, text):
        if not self.at(text):
            self.fail(f"expected `{text}`, found `{self.peek()[1]}`")
        self.i += 1

    def ident(self):
        k, t, _ = self.peek()
        if k != "id" or t in ("let", "mut", "for", "in", "match", "if", "else", "continue", "as", "return", "break", "while", "loop"):
            self.fail(f"expected an identifier, found `{t}`")
        self.i += 1
        return t

    def block(self):
        self.eat("{")
        stmts, tail = [], None
        while not self.at("}"):
            if tail is not None:
                self.fail("expression without `;` in the middle of a block")
            st = self.statement()
            if st[0] == "tail":
                tail = st[1]
            else:
                stmts.append(st)
        self.eat("}")
        return (stmts, tail)

    def statement(self):
        k, t, line = self.peek()
        if t == "let":
            self.i += 1
            mut = False
            if self.at("mut"):
                self.i += 1
                mut = True
            name = self.ident()
            self.eat("=")
            e = self.expr()
            self.eat(";")
            return ("let", mut, name, e, line)
        label = None
        if k == "label":
            label = t
            self.i += 1
            self.eat(":")
            if not self.at("for"):
                self.fail("a label is only allowed on a `for` loop")
        if self.at("for"):
            self.i += 1
            if self.at("("):
                self.i += 1
                a = self.ident()
                self.eat(",")
                b = self.ident()
                self.eat(")")
                pat = (a, b)
            else:
                pat = self.ident()
            self.eat("in")
            it = self.expr(ns=True)
            body = self.block()
            return ("for", label, pat, it, body, line)
        if t == "match":
            self.i += 1
            scrut = self.expr(ns=True)
            self.eat("{")
            arms = {}
            while not self.at("}"):
                aline = self.peek()[2]
                if self.at("None"):
                    self.i += 1
                    key, var = "none", None
                elif self.at("Some"):
                    self.i += 1
                    self.eat("(")
                    var = self.ident()
                    self.eat(")")
                    key = "some"
                else:
                    self.fail("match arm pattern not in the subset (only `None` / `Some(x)`)")
                if key in arms:
                    self.fail("duplicate match arm", aline)
                self.eat("=>")
                if not self.at("{"):
                    self.fail("match arm must be a block")
                blk = self.block()
                if blk[1] is not None:
                    self.fail("match arm with a value is not in the subset", aline)
                if self.at(","):
                    self.i += 1
                arms[key] = (var, blk)
            self.eat("}")
            if set(arms) != {"none", "some"}:
                self.fail("match must have exactly the arms `None` and `Some(x)`", line)
            return ("match", scrut, arms["none"][1], arms["some"][0], arms["some"][1], line)
        if t == "if" and self.at("let", 1):
            # `if let Some(x) = E { A } [else { B }]`  is  `match E { Some(x) => { A } None => { B } }`
            self.i += 2
            if not self.at("Some"):
                self.fail("`if let` pattern not in the subset (only `Some(x)`)")
            self.i += 1
            self.eat("(")
            var = self.ident()
            self.eat(")")
            self.eat("=")
            scrut = self.expr(ns=True)
            sblk = self.block()
            nblk = ([], None)
            if self.at("else"):
                self.i += 1
                if not self.at("{"):
                    self.fail("`else if` is not in the subset")
                nblk = self.block()
            if sblk[1] is not None or nblk[1] is not None:
                self.fail("`if let` with a value is not in the subset", line)
            return ("match", scrut, nblk, var, sblk, line)
        if t == "if":
            self.i += 1
            c = self.expr(ns=True)
            then = self.block()
            els = None
            if self.at("else"):
                self.i += 1
                if not self.at("{"):
                    self.fail("`else if` is not in the subset")
                els = self.block()
            if then[1] is not None or (els is not None and els[1] is not None):
                self.fail("`if` with a value in statement position is not in the subset", line)
            return ("if", c, then, els, line)
        if t == "continue":
            self.i += 1
            k2, lab, _ = self.peek()
            if k2 != "label":
                self.fail("`continue` without a label is not in the subset")
            self.i += 1
            self.eat(";")
            return ("continue", lab, line)
        if k == "id" and self.at("=", 1):
            name = self.ident()
            self.eat("=")
            e = self.expr()
            self.eat(";")
            return ("assign", name, e, line)
        e = self.expr()
        if self.at(";"):
            self.i += 1
            if e[0] == "mcall" and e[1][0] == "var" and e[2] in ("insert", "push", "extend"):
                return ("call", e[1][1], e[2], e[3], line)
            self.fail("expression statement not in the subset", line)
        if not self.at("}"):
            self.fail("statement not in the subset", line)
        return ("tail", e, line)

    # ---- expressions
    def expr(self, ns=False):
        line = self.peek()[2]
        l = self.unary(ns)
        while self.at("&&"):
            self.i += 1
            r = self.unary(ns)
            l = ("and", l, r, line)
        if self.peek()[1] in ("||", "==", "!="):
            self.fail(f"operator `{self.peek()[1]}` is not in the subset")
        return l

    def unary(self, ns):
        line = self.peek()[2]
        if self.at("!"):
            self.i += 1
            return ("not", self.unary(ns), line)
        if self.at("*") or self.at("&"):
            self.i += 1
            if self.at("mut"):
                self.fail("`&mut` is not in the subset")
            return self.unary(ns)          # value semantics: a borrow / dereference is the identity
        e = self.postfix(ns)
        if self.at("as"):
            self.i += 1
            ty = self.ident()
            e = ("as", e, ty, line)
        return e

    def postfix(self, ns):
        e = self.primary(ns)
        while self.at("."):
            line = self.peek()[2]
            self.i += 1
            name = self.ident()
            if self.at("("):
                args = self.args()
                if name in ("clone", "as_str", "to_owned") and not args:
                    continue               # value semantics
                e = ("mcall", e, name, args, line)
            else:
                e = ("field", e, name, line)
        return e

    def args(self):
        self.eat("(")
        out = []
        while not self.at(")"):
            out.append(self.expr())
            if not self.at(")"):
                self.eat(",")
        self.eat(")")
        return out

    def primary(self, ns):
        k, t, line = self.peek()
        if t == "(":
            self.i += 1
            e = self.expr()
            self.eat(")")
            return e
        if t in ("true", "false"):
            self.i += 1
            return ("bool", t == "true", line)
        if t == "None":
            self.i += 1
            return ("none", line)
        if t == "Some":
            self.i += 1
            a = self.args()
            if len(a) != 1:
                self.fail("`Some` takes one argument", line)
            return ("some", a[0], line)
        if t == "if":
            self.i += 1
            c = self.expr(ns=True)
            a = self.block()
            if not self.at("else"):
                self.fail("`if` used as a value needs an `else`", line)
            self.i += 1
            b = self.block()
            if a[0] or b[0] or a[1] is None or b[1] is None:
                self.fail("`if` used as a value: both branches must be single expressions", line)
            return ("ife", c, a[1], b[1], line)
        if t == "self":
            self.i += 1
            return ("self", line)
        if k == "id":
            path = [self.ident()]
            while self.at("::"):
                self.i += 1
                path.append(self.ident())
            if self.at("("):
                if len(path) == 1 and not path[0][0].isupper():
                    self.fail("call of a free function is not in the subset", line)
                return ("pcall", tuple(path), self.args(), line)
            if self.at("{") and not ns and path[-1][0].isupper():
                self.i += 1
                fields = []
                while not self.at("}"):
                    f = self.ident()
                    if self.at(":"):
                        self.i += 1
                        v = self.expr()
                    else:
                        v = ("var", f, line)
                    fields.append((f, v))
                    if not self.at("}"):
                        self.eat(",")
                self.eat("}")
                return ("struct", tuple(path), fields, line)
            if len(path) == 1:
                return ("var", path[0], line)
            self.fail("path expression not in the subset", line)
        self.fail(f"expression not in the subset (at `{t}`)")


# ------------------------------------------------------------------------------------------------ translation
_PREFIX = [("List ρ", "xs"), ("List τ", "ts"), ("Bool", "b"), ("σ", "m"), ("κ", "c"), ("μ", "v"), ("List κ", "cs")]


class _Var:
    def __init__(self, lean, ty, mut):
        self.lean, self.ty, self.mut = lean, ty, mut


class _Tr:
    """cfg: name, tparams, globals [(lean, type)], args [(lean, type)], self_fields {rust: (lean, type)}, request (rust name),
    info_struct (rust, lean, fields [(rust, lean)], lean type), info_variant (path tuple, lean fn), cond_fields {rust: (fn, type)},
    match_value_arity, vec_type (type of a `let mut x = Vec::new()`), result_type"""

    def __init__(self, cfg, parser):
        self.cfg, self.p = cfg, parser
        self.counters, self.aux, self.nloop, self.depth = {}, [], 0, 0

    def fail(self, msg, line):
        self.p.fail(msg, line)

    def fresh(self, ty):
        pre = dict(_PREFIX).get(ty)
        if pre is None:
            pre = "is" if ty == f"List ({self.cfg['info_struct'][3]})" else "x"
        self.counters[pre] = self.counters.get(pre, 0) + 1
        return f"{pre}{self.counters[pre]}"

    # ---- expressions: -> (lean text, type)
    def is_request(self, e):
        return e[0] == "var" and e[1] == self.cfg["request"]

    def expr(self, e, env):
        k = e[0]
        line = e[-1]
        if k == "var":
            if e[1] not in env:
                self.fail(f"unknown variable `{e[1]}`", line)
            v = env[e[1]]
            return v.lean, v.ty
        if k == "bool":
            return ("true" if e[1] else "false"), "Bool"
        if k == "not":
            t, ty = self.expr(e[1], env)
            self.want(ty, "Bool", line)
            return f"(!{t})", "Bool"
        if k == "and":
            a, ta = self.expr(e[1], env)
            b, tb = self.expr(e[2], env)
            self.want(ta, "Bool", line)
            self.want(tb, "Bool", line)
            return f"({a} && {b})", "Bool"
        if k == "none":
            return "none", "Option ?"
        if k == "some":
            t, ty = self.expr(e[1], env)
            return f"(some {t})", f"Option {ty}"
        if k == "ife":
            c, tc = self.expr(e[1], env)
            self.want(tc, "Bool", line)
            a, ta = self.expr(e[2], env)
            b, tb = self.expr(e[3], env)
            ty = self.unify(ta, tb, line)
            return f"(if {c} then {a} else {b})", ty
        if k == "as":
            t, ty = self.expr(e[1], env)
            if e[2] != "u64" or ty != "usize":
                self.fail("cast not in the subset (only `<usize> as u64`)", line)
            return f"(genAsU64 {t})", "Nat"
        if k == "field":
            t, ty = self.expr(e[1], env) if e[1][0] != "self" else (None, None)
            if e[1][0] == "self":
                if e[2] not in self.cfg["self_fields"]:
                    self.fail(f"field `self.{e[2]}` is not modelled", line)
                if self.depth:
                    self.fail(f"`self.{e[2]}` inside a loop body is not in the subset", line)
                return self.cfg["self_fields"][e[2]]
            if ty == "κ" and e[2] in self.cfg["cond_fields"]:
                fn, fty = self.cfg["cond_fields"][e[2]]
                return f"({fn} {t})", fty
            self.fail(f"field access `.{e[2]}` not in the subset", line)
        if k == "pcall":
            path, args = e[1], e[2]
            if path == ("Vec", "new") and not args:
                return "[]", "List ?"
            if path == ("BTreeMap", "new") and not args:
                return "memoNew", "σ"
            if path == ("Trace", "new") and len(args) == 5:
                ts = [self.expr(a, env) for a in args]
                for (t, ty), want in zip(ts, ["Bool", "Bool", "Nat", "List τ", "ι"]):
                    self.want(ty, want, line)
                return "(mkTrace " + " ".join(t for t, _ in ts) + ")", "τ"
            self.fail(f"call `{'::'.join(path)}(..)` not in the subset", line)
        if k == "struct":
            path, fields = e[1], e[2]
            rs, ls, decl, lty = self.cfg["info_struct"]
            if path == (rs,):
                given = dict(fields)
                if len(given) != len(fields) or set(given) != {r for r, _, _ in decl}:
                    self.fail(f"`{rs}` literal must initialise exactly the declared fields once", line)
                parts = []
                for r, l, fty in decl:
                    t, ty = self.expr(given[r], env)
                    self.want(ty, fty, line)
                    parts.append(f"{l} := {t}")
                return "({ " + ", ".join(parts) + f" }} : {lty})", lty
            vpath, vfn = self.cfg["info_variant"]
            if path == vpath:
                if [f for f, _ in fields] != ["conditions"]:
                    self.fail(f"`{'::'.join(vpath)}` literal must have exactly the field `conditions`", line)
                t, ty = self.expr(fields[0][1], env)
                self.want(ty, f"List ({lty})", line)
                return f"({vfn} {t})", "ι"
            self.fail(f"struct literal `{'::'.join(path)}` not in the subset", line)
        if k == "mcall":
            recv, name, args = e[1], e[2], e[3]
            t, ty = self.expr(recv, env)
            if name == "match_request" and ty == "μ" and len(args) == 1 and self.is_request(args[0]):
                return f"(next {t})", "List ρ"
            if name == "trace" and ty == "μ" and len(args) == 1 and self.is_request(args[0]) and "nextTrace" in dict(self.cfg["globals"]):
                return f"(nextTrace {t})", "List τ"
            if name == "len" and ty == "μ" and not args and "lenOf" in dict(self.cfg["globals"]):
                return f"(lenOf {t})", "usize"
            if name == "get" and ty == "σ" and len(args) == 1:
                a, ta = self.expr(args[0], env)
                self.want(ta, "κ", line)
                return f"(memoGet {t} {a})", "Option Bool"
            if name == "match_value" and args and self.is_request(args[0]):
                rest = [self.expr(a, env) for a in args[1:]]
                want = self.cfg["match_value_types"]
                if [ty] + [x[1] for x in rest] == want:
                    return "(matchValue " + " ".join([t] + [x[0] for x in rest]) + ")", "Bool"
            self.fail(f"method call `.{name}(..)` not in the subset for this receiver / these arguments", line)
        self.fail("expression not in the subset", line)

    def want(self, ty, want, line):
        self.unify(ty, want, line)

    def unify(self, a, b, line):
        if a == b:
            return a
        if a.endswith("?") and b.startswith(a[:-1]):
            return b
        if b.endswith("?") and a.startswith(b[:-1]):
            return a
        self.fail(f"type mismatch ({a} vs {b})", line)

    # ---- static analysis
    def assigned(self, block, acc=None):
        acc = set() if acc is None else acc
        for st in block[0]:
            if st[0] == "assign":
                acc.add(st[1])
            elif st[0] == "call":
                acc.add(st[1])
            elif st[0] == "for":
                self.assigned(st[4], acc)
            elif st[0] == "match":
                self.assigned(st[2], acc)
                self.assigned(st[4], acc)
            elif st[0] == "if":
                self.assigned(st[2], acc)
                if st[3]:
                    self.assigned(st[3], acc)
        return acc

    def declared(self, block, acc=None):
        acc = set() if acc is None else acc
        for st in block[0]:
            if st[0] == "let":
                acc.add(st[2])
            elif st[0] == "for":
                acc.update([st[2]] if isinstance(st[2], str) else st[2])
                self.declared(st[4], acc)
            elif st[0] == "match":
                self.declared(st[2], acc)
                acc.add(st[3])
                self.declared(st[4], acc)
            elif st[0] == "if":
                self.declared(st[2], acc)
                if st[3]:
                    self.declared(st[3], acc)
        return acc

    def continues(self, block, acc=None):
        """labels of `continue` statements in the block (incl. nested loops)"""
        acc = set() if acc is None else acc
        for st in block[0]:
            if st[0] == "continue":
                acc.add(st[1])
            elif st[0] == "for":
                self.continues(st[4], acc)
            elif st[0] == "match":
                self.continues(st[2], acc)
                self.continues(st[4], acc)
            elif st[0] == "if":
                self.continues(st[2], acc)
                if st[3]:
                    self.continues(st[3], acc)
        return acc

    def used(self, node, acc):
        if isinstance(node, tuple):
            if node and node[0] == "var" and len(node) == 3 and isinstance(node[1], str):
                acc.add(node[1])
            for x in node:
                self.used(x, acc)
        elif isinstance(node, list):
            for x in node:
                self.used(x, acc)
        return acc

    @staticmethod
    def tuple_of(names):
        return names[0] if len(names) == 1 else "(" + ", ".join(names) + ")"

    @staticmethod
    def proj(base, i, n):
        if n == 1:
            return base
        return base + ".2" * i + (".1" if i < n - 1 else "")

    # ---- statements.  k_end(env) -> lines of the value of the normal end; labels: {label: fn(env) -> lines}
    def seq(self, stmts, tail, env, k_end, labels, ind):
        pad = "  " * ind
        if not stmts:
            if tail is not None:
                t, _ = self.expr(tail, env)
                return [pad + t]
            return k_end(env, ind)
        st, rest = stmts[0], stmts[1:]
        k, line = st[0], st[-1]
        cont = lambda env2, ind2=ind: self.seq(rest, tail, env2, k_end, labels, ind2)
        if k == "let":
            _, mut, name, e, _ = st
            if name in env:
                self.fail(f"shadowing of `{name}` is not in the subset", line)
            t, ty = self.expr(e, env)
            if ty == "List ?":
                if not mut or self.cfg.get("vec_type") is None:
                    self.fail("`Vec::new()` with an unknown element type", line)
                ty = self.cfg["vec_type"]
            if ty.endswith("?") or ty == "usize":
                self.fail("cannot infer the type of this `let`", line)
            lean = self.fresh(ty)
            env2 = dict(env)
            env2[name] = _Var(lean, ty, mut)
            return [f"{pad}let {lean} : {ty} := {t}"] + cont(env2)
        if k == "assign":
            _, name, e, _ = st
            v = self.mutvar(name, env, line)
            t, ty = self.expr(e, env)
            self.want(ty, v.ty, line)
            return [f"{pad}let {v.lean} := {t}"] + cont(env)
        if k == "call":
            _, name, meth, args, _ = st
            v = self.mutvar(name, env, line)
            ts = [self.expr(a, env) for a in args]
            if meth == "insert" and v.ty == "σ" and len(ts) == 2:
                self.want(ts[0][1], "κ", line)
                self.want(ts[1][1], "Bool", line)
                return [f"{pad}let {v.lean} := memoInsert {v.lean} {ts[0][0]} {ts[1][0]}"] + cont(env)
            if meth == "push" and v.ty.startswith("List ") and len(ts) == 1:
                el = v.ty[5:]
                el = el[1:-1] if el.startswith("(") else el
                self.want(ts[0][1], el, line)
                return [f"{pad}let {v.lean} := {v.lean} ++ [{ts[0][0]}]"] + cont(env)
            if meth == "extend" and v.ty.startswith("List ") and len(ts) == 1:
                self.want(ts[0][1], v.ty, line)
                return [f"{pad}let {v.lean} := {v.lean} ++ {ts[0][0]}"] + cont(env)
            self.fail(f"`.{meth}(..)` on this variable is not in the subset", line)
        if k == "continue":
            if rest or tail is not None:
                self.fail("statements after `continue`", line)
            if st[1] not in labels:
                self.fail(f"`continue {st[1]}`: no enclosing loop with this label", line)
            return labels[st[1]](env, ind)
        if k == "if":
            _, c, then, els, _ = st
            ct, cty = self.expr(c, env)
            self.want(cty, "Bool", line)
            els = els or ([], None)
            if self.declared(then) & set(env) or self.declared(els) & set(env):
                self.fail("shadowing inside an `if` is not in the subset", line)
            if self.continues(then) or self.continues(els):
                out = [f"{pad}if {ct} then"]
                out += self.seq(then[0], None, env, cont, labels, ind + 1)
                out += [f"{pad}else"]
                out += self.seq(els[0], None, env, cont, labels, ind + 1)
                return out
            names = [n for n in env if n in (self.assigned(then) | self.assigned(els))]
            if not names:
                self.fail("`if` without effect on the modelled state", line)
            leans = [env[n].lean for n in names]
            k_t = lambda env2, ind2: ["  " * ind2 + self.tuple_of([env2[n].lean for n in names])]
            r = f"r{self.bump()}" if len(names) > 1 else None
            out = [f"{pad}let {r} :="] if len(names) > 1 else [f"{pad}let {leans[0]} :="]
            out += [f"{pad}  if {ct} then"] + self.seq(then[0], None, env, k_t, labels, ind + 2)
            out += [f"{pad}  else"] + self.seq(els[0], None, env, k_t, labels, ind + 2)
            if len(names) > 1:
                out += [f"{pad}let {l} := {self.proj(r, i, len(names))}" for i, l in enumerate(leans)]
            return out + cont(env)
        if k == "match":
            _, scrut, nblk, var, sblk, _ = st
            t, ty = self.expr(scrut, env)
            if ty != "Option Bool":
                self.fail("`match` scrutinee must be `execute_conditions.get(..)`", line)
            if var in env or (self.declared(nblk) | self.declared(sblk)) & set(env):
                self.fail("shadowing inside a `match` is not in the subset", line)
            out = [f"{pad}match {t} with", f"{pad}| none =>"]
            out += self.seq(nblk[0], None, env, cont, labels, ind + 1)
            lean = self.fresh("Bool")
            env2 = dict(env)
            env2[var] = _Var(lean, "Bool", False)
            out += [f"{pad}| some {lean} =>"]
            k2 = lambda env3, ind3=ind + 1: cont({n: v for n, v in env3.items() if n != var}, ind3)
            out += self.seq(sblk[0], None, env2, k2, labels, ind + 1)
            return out
        if k == "for":
            return self.for_lines(st, env, cont, labels, ind)
        self.fail("statement not in the subset", line)

    def bump(self):
        self.counters["r"] = self.counters.get("r", 0) + 1
        return self.counters["r"]

    def mutvar(self, name, env, line):
        if name not in env:
            self.fail(f"unknown variable `{name}`", line)
        if not env[name].mut:
            self.fail(f"assignment to the immutable `{name}`", line)
        return env[name]

    def for_lines(self, st, env, cont, labels, ind):
        _, label, pat, it, body, line = st
        pad = "  " * ind
        self.nloop += 1
        fname = f"{self.cfg['name']}Loop{self.nloop}"
        it_t, it_ty = self.expr(it, env)
        if not it_ty.startswith("List "):
            self.fail("`for` over something that is not a modelled list", line)
        el = it_ty[5:]
        el = el[1:-1] if el.startswith("(") else el
        env_b = dict(env)
        for n in ([pat] if isinstance(pat, str) else list(pat)):
            if n in env:
                self.fail(f"shadowing of `{n}` is not in the subset", line)
        if isinstance(pat, str):
            x = self.fresh(el)
            env_b[pat] = _Var(x, el, False)
            pat_t = x
        else:
            m = re.fullmatch(r"(List κ|κ) × (μ)", el)
            if not m:
                self.fail("tuple pattern over a list that is not a list of pairs", line)
            a, b = self.fresh(m.group(1)), self.fresh(m.group(2))
            env_b[pat[0]] = _Var(a, m.group(1), False)
            env_b[pat[1]] = _Var(b, m.group(2), False)
            pat_t = f"({a}, {b})"
        if self.declared(body) & set(env_b):
            self.fail("shadowing inside a loop body is not in the subset", line)
        assigned = self.assigned(body)
        state = [n for n in env if n in assigned]
        for n in state:
            if not env[n].mut:
                self.fail(f"assignment to the immutable `{n}`", line)
        if not state:
            self.fail("loop without effect on the modelled state", line)
        used = self.used(body, set())
        free = [n for n in env if n in used and n not in state]
        inner_labels = self.continues(body) - ({label} if label else set())
        escapes = sorted(l for l in inner_labels if l in labels)
        unknown = sorted(l for l in inner_labels if l not in labels and not self.label_declared(body, l))
        if unknown:
            self.fail(f"`continue {unknown[0]}`: no enclosing loop with this label", line)
        if len(escapes) > 1:
            self.fail("a loop that continues two different enclosing loops is not in the subset", line)
        gl = " ".join(n for n, _ in self.cfg["globals"])
        fr = " ".join(env[n].lean for n in free)
        head = " ".join(x for x in (fname, gl, fr) if x)
        sl = [env[n].lean for n in state]
        sty = [env[n].ty for n in state]
        res_state = " × ".join(f"({t})" for t in sty)
        res = f"Bool × {res_state}" if escapes else res_state
        wrap = (lambda s: f"(true, {s})") if escapes else (lambda s: s)

        def k_nil():
            s = ", ".join(sl)
            return wrap(f"({s})" if len(sl) > 1 and not escapes else s)

        rec = lambda env2, ind2: ["  " * ind2 + f"{head} rest " + " ".join(env2[n].lean for n in state)]
        labels_b = {}
        for l, f in labels.items():
            if l in escapes:
                labels_b[l] = lambda env2, ind2: ["  " * ind2 + "(false, " + ", ".join(env2[n].lean for n in state) + ")"]
            # any other enclosing label is not reachable from inside (would be in `escapes`)
        if label:
            labels_b[label] = rec
        self.depth += 1
        body_lines = self.seq(body[0], None, env_b, rec, labels_b, 2)
        self.depth -= 1
        if body[1] is not None:
            self.fail("loop body with a value", line)
        params = " ".join(f"({n} : {t})" for n, t in self.cfg["globals"])
        fparams = " ".join(f"({env[n].lean} : {env[n].ty})" for n in free)
        sig = " ".join(x for x in (self.cfg["tparams"], params, fparams) if x)
        aux = ["set_option linter.unusedVariables false in",
               f"def {fname} {sig} :",
               f"    List ({el}) → " + " → ".join(f"({t})" for t in sty) + f" → {res}",
               "  | [], " + ", ".join(sl) + " => " + k_nil(),
               f"  | {pat_t} :: rest, " + ", ".join(sl) + " =>"] + body_lines
        self.aux.append(aux)
        call = f"{head} {it_t} " + " ".join(sl)
        n = len(sl)
        if not escapes:
            if n == 1:
                return [f"{pad}let {sl[0]} := {call}"] + cont(env, ind)
            r = f"r{self.bump()}"
            return [f"{pad}let {r} := {call}"] + [f"{pad}let {l} := {self.proj(r, i, n)}" for i, l in enumerate(sl)] + cont(env, ind)
        r = f"r{self.bump()}"
        out = [f"{pad}let {r} := {call}"]
        out += [f"{pad}let {l} := {self.proj(r + '.2', i, n)}" for i, l in enumerate(sl)]
        out += [f"{pad}if {r}.1 then"] + cont(env, ind + 1)
        out += [f"{pad}else"] + labels[escapes[0]](env, ind + 1)
        return out

    def label_declared(self, block, label):
        for st in block[0]:
            if st[0] == "for" and (st[1] == label or self.label_declared(st[4], label)):
                return True
            if st[0] == "match" and (self.label_declared(st[2], label) or self.label_declared(st[4], label)):
                return True
            if st[0] == "if" and (self.label_declared(st[2], label) or (st[3] and self.label_declared(st[3], label))):
                return True
        return False


def _translate(core, read, fail, path, sig_re, cfg, doc):
    src = read(path)
    m = re.search(sig_re, src)
    if not m:
        fail(f"{path}: function with signature /{sig_re}/ not found")
    cfg = dict(cfg, request=m.group(1))
    body, first_line, lines = core._function(src, path, sig_re, fail)
    try:
        toks = _lex(body, first_line, path, lines)
        parser = _Parser(toks, path, lines)
        stmts, tail = parser.block()
        if parser.i != len(toks):
            parser.fail("trailing tokens after the function body")
        if tail is None:
            parser.fail("the function must end with its result variable", first_line)
        tr = _Tr(cfg, parser)
        env = {}
        body_lines = tr.seq(stmts, tail, env, None, {}, 1)
    except _Fail as e:
        fail(str(e))
    out = []
    for aux in tr.aux:
        out += aux + [""]
    params = " ".join(f"({n} : {t})" for n, t in cfg["globals"] + cfg["args"])
    out += ["set_option linter.unusedVariables false in", f"/-- {doc} -/",
            f"def {cfg['name']} {cfg['tparams']} {params} : {cfg['result_type']} :="] + body_lines
    return out


def _struct(read, fail, path, rust, lean, tparams, tymap):
    src = read(path)
    m = re.search(r"pub struct %s \{([^}]*)\}" % rust, src)
    if not m:
        fail(f"{path}: struct `{rust}` not found")
    fields = []
    for ln in m.group(1).split("\n"):
        ln = ln.strip()
        if not ln:
            continue
        fm = re.fullmatch(r"pub (\w+): ([\w<>]+),", ln)
        if not fm or fm.group(2) not in tymap:
            fail(f"{path}: field of `{rust}` not modelled: `{ln}`")
        fields.append((fm.group(1), fm.group(1), tymap[fm.group(2)]))
    lines = [f"/-- `{rust}` ({path}), fields in declaration order. -/", f"structure {lean} ({tparams} : Type) where"]
    lines += [f"  {l} : {t}" for _, l, t in fields]
    return fields, lines


def extract(read, fail, lean_str, lean_list):
    core = _core()
    d = "src/router/request_matcher/"
    tpath = "src/router/trace.rs"
    tsrc = read(tpath)
    if not re.search(r"pub fn new\(matched: bool, executed: bool, count: u64, children: Vec<Trace<T>>, info: TraceInfo<T>\) -> Trace<T> \{\s*"
                     r"Trace \{\s*matched,\s*executed,\s*count,\s*info,\s*children,\s*\}\s*\}", tsrc):
        fail(f"{tpath}: `Trace::new` is no longer the plain constructor (matched, executed, count, children, info)")
    if not re.search(r"\n    HeaderGroup \{ conditions: Vec<TraceInfoHeaderCondition> \},", tsrc):
        fail(f"{tpath}: variant `TraceInfo::HeaderGroup {{ conditions }}` not found")
    if not re.search(r"\n    DateTimeGroup \{ conditions: Vec<TraceInfoDateTimeCondition> \},", tsrc):
        fail(f"{tpath}: variant `TraceInfo::DateTimeGroup {{ conditions }}` not found")
    out = ["-- Rust -> Lean translation: `match_request` and `trace` of the two condition-group layers (HeaderMatcher, DateTimeMatcher) with "
           "their per-request memo `execute_conditions` (tools/consts.d/tr_w15_memo.py; the parameters are documented there).",
           "",
           "/-- `n as u64` for a `usize` n (the identity below 2^64). -/",
           "def genAsU64 (n : Nat) : Nat := n % 18446744073709551616",
           ""]
    hfields, hlines = _struct(read, fail, tpath, "TraceInfoHeaderCondition", "GenTraceInfoHeaderCondition", "ν χ",
                              {"Option<bool>": "Option Bool", "String": "ν", "HeaderValueCondition": "χ", "bool": "Bool"})
    dfields, dlines = _struct(read, fail, tpath, "TraceInfoDateTimeCondition", "GenTraceInfoDateTimeCondition", "κ",
                              {"Option<bool>": "Option Bool", "DateTimeCondition": "κ", "bool": "Bool"})
    out += hlines + [""] + dlines

    memo = [("memoNew", "σ"), ("memoGet", "σ → κ → Option Bool"), ("memoInsert", "σ → κ → Bool → σ")]
    msig = r"pub fn match_request\(&self, (\w+): &Request\) -> Vec<Arc<Route<T>>> \{"
    tsig = r"pub fn trace\(&self, (\w+): &Request\) -> Vec<Trace<T>> \{"

    # ---- HeaderMatcher
    path = d + "header.rs"
    src = read(path)
    if not re.search(r"pub struct HeaderMatcher<T> \{\s*any_header: DateTimeMatcher<T>,\s*conditions: BTreeSet<HeaderCondition>,\s*"
                     r"condition_groups: BTreeMap<BTreeSet<HeaderCondition>, DateTimeMatcher<T>>,\s*count: usize,", src):
        fail(f"{path}: `HeaderMatcher` no longer has the modelled fields")
    if not re.search(r"pub struct HeaderCondition \{\s*header_name: String,\s*condition: ValueCondition,\s*\}", src):
        fail(f"{path}: `HeaderCondition` no longer has the modelled fields")
    if not re.search(r"use super::super::trace::\{TraceInfo, TraceInfoHeaderCondition\};", src):
        fail(f"{path}: the trace types are no longer imported from super::super::trace")
    if not re.search(r"pub fn match_value\(&self, request: &Request, name: &str\) -> bool \{", src):
        fail(f"{path}: `ValueCondition::match_value(&self, request, name)` not found")
    hself = {"any_header": ("anyHeader", "μ"), "condition_groups": ("conditionGroups", "List (List κ × μ)")}
    hargs = [("anyHeader", "μ"), ("conditionGroups", "List (List κ × μ)")]
    hcond = {"condition": ("condOf", "χ"), "header_name": ("nameOf", "ν")}
    hglob = [("condOf", "κ → χ"), ("nameOf", "κ → ν"), ("matchValue", "χ → ν → Bool")]
    hinfo = ("TraceInfoHeaderCondition", "GenTraceInfoHeaderCondition", hfields, "GenTraceInfoHeaderCondition ν χ")
    base = {"self_fields": hself, "args": hargs, "cond_fields": hcond, "match_value_types": ["χ", "ν"], "info_struct": hinfo,
            "info_variant": (("TraceInfo", "HeaderGroup"), "headerGroup")}
    out.append("")
    out += _translate(core, read, fail, path, msig, dict(
        base, name="genHeaderMatchRequest", tparams="{ρ μ κ ν χ σ : Type}", globals=[("next", "μ → List ρ")] + memo + hglob,
        vec_type=None, result_type="List ρ"),
        "`HeaderMatcher::match_request` with its memo `execute_conditions` (`memoNew` / `memoGet` / `memoInsert` = `BTreeMap::new` / `get` / "
        "`insert`); `next m` = `m.match_request(request)` of the date-time layer, `matchValue (condOf c) (nameOf c)` = "
        f"`c.condition.match_value(request, c.header_name)`; translated from {path}.")
    out.append("")
    out += _translate(core, read, fail, path, tsig, dict(
        base, name="genHeaderTrace", tparams="{μ κ ν χ σ τ ι : Type}",
        globals=[("nextTrace", "μ → List τ"), ("lenOf", "μ → Nat")] + memo + hglob +
                [("mkTrace", "Bool → Bool → Nat → List τ → ι → τ"), ("headerGroup", "List (GenTraceInfoHeaderCondition ν χ) → ι")],
        vec_type="List (GenTraceInfoHeaderCondition ν χ)", result_type="List τ"),
        "`HeaderMatcher::trace` (\"mimic cache behaviour\": `matched` / `executed`, the memo is written only `if executed`); `nextTrace m` = "
        "`m.trace(request)`, `lenOf m` = `m.len()`, `mkTrace` = `Trace::new`, `headerGroup` = `TraceInfo::HeaderGroup`; "
        f"translated from {path}.")

    # ---- DateTimeMatcher
    path = d + "datetime.rs"
    src = read(path)
    if not re.search(r"pub struct DateTimeMatcher<T> \{\s*any_datetime: PathAndQueryMatcher<T>,\s*conditions: BTreeSet<DateTimeCondition>,\s*"
                     r"condition_groups: BTreeMap<BTreeSet<DateTimeCondition>, PathAndQueryMatcher<T>>,\s*count: usize,", src):
        fail(f"{path}: `DateTimeMatcher` no longer has the modelled fields")
    if not re.search(r"use super::super::trace::\{TraceInfo, TraceInfoDateTimeCondition\};", src):
        fail(f"{path}: the trace types are no longer imported from super::super::trace")
    if not re.search(r"pub fn match_value\(&self, request: &Request\) -> bool \{", src):
        fail(f"{path}: `DateTimeCondition::match_value(&self, request)` not found")
    dself = {"any_datetime": ("anyDatetime", "μ"), "condition_groups": ("conditionGroups", "List (List κ × μ)")}
    dargs = [("anyDatetime", "μ"), ("conditionGroups", "List (List κ × μ)")]
    dglob = [("matchValue", "κ → Bool")]
    dinfo = ("TraceInfoDateTimeCondition", "GenTraceInfoDateTimeCondition", dfields, "GenTraceInfoDateTimeCondition κ")
    base = {"self_fields": dself, "args": dargs, "cond_fields": {}, "match_value_types": ["κ"], "info_struct": dinfo,
            "info_variant": (("TraceInfo", "DateTimeGroup"), "dateTimeGroup")}
    out.append("")
    out += _translate(core, read, fail, path, msig, dict(
        base, name="genDateTimeMatchRequest", tparams="{ρ μ κ σ : Type}", globals=[("next", "μ → List ρ")] + memo + dglob,
        vec_type=None, result_type="List ρ"),
        "`DateTimeMatcher::match_request` with its memo `execute_conditions`; `next m` = `m.match_request(request)` of the path layer, "
        f"`matchValue c` = `c.match_value(request)`; translated from {path}.")
    out.append("")
    out += _translate(core, read, fail, path, tsig, dict(
        base, name="genDateTimeTrace", tparams="{μ κ σ τ ι : Type}",
        globals=[("nextTrace", "μ → List τ"), ("lenOf", "μ → Nat")] + memo + dglob +
                [("mkTrace", "Bool → Bool → Nat → List τ → ι → τ"), ("dateTimeGroup", "List (GenTraceInfoDateTimeCondition κ) → ι")],
        vec_type="List (GenTraceInfoDateTimeCondition κ)", result_type="List τ"),
        "`DateTimeMatcher::trace` (\"mimic cache behaviour\"); `nextTrace m` = `m.trace(request)`, `lenOf m` = `m.len()`, `mkTrace` = "
        f"`Trace::new`, `dateTimeGroup` = `TraceInfo::DateTimeGroup`; translated from {path}.")
    return out
