"""Literal tables of the body-filter chain used by RioModel/Model/Filter.lean (C03, C04, C14, C15).

From src/filter/html_filter_body.rs (VOID_ELEMENTS), src/filter/html_body_action/mod.rs (the three html action
names), src/filter/encoding/mod.rs (supported encodings), src/filter/filter_body.rs (header names, the
content-type needle), src/api/body_filter.rs (text action names).  Fails closed.
"""
import re


def _bytes(s):
    return "[" + ", ".join(str(b) for b in s.encode("utf-8")) + "]"


def extract(read, fail, lean_str, lean_list):
    out = ["-- body filter chain (tools/consts.d/w6_filter.py)"]

    # 1. VOID_ELEMENTS
    src = read("src/filter/html_filter_body.rs")
    m = re.search(r"pub static ref VOID_ELEMENTS: HashSet<&'static str> = \{(.*?)\n        set\n    \};", src, re.S)
    if not m:
        fail("html_filter_body.rs: VOID_ELEMENTS block not found")
    voids = re.findall(r'set\.insert\("([^"]*)"\);', m.group(1))
    if not voids or len(voids) != m.group(1).count("set.insert("):
        fail("html_filter_body.rs: cannot parse the VOID_ELEMENTS inserts")
    for v in voids:
        if not re.fullmatch(r"[a-z0-9]+", v):
            fail(f"html_filter_body.rs: void element name {v!r} is not lower-case ASCII")
    out.append("/-- `VOID_ELEMENTS` (a HashSet in the source: order is irrelevant), as UTF-8 byte lists. -/")
    out.append("def filterVoidElements : List (List Nat) := [" + ", ".join(_bytes(v) for v in sorted(voids)) + "]")
    if "if VOID_ELEMENTS.contains(tag_name_str.as_str())" not in src:
        fail("html_filter_body.rs: the void test on the start tag is no longer the expected expression")

    # 2. html action names, in dispatch order
    src = read("src/filter/html_body_action/mod.rs")
    arms = re.findall(r'"([a-z_]+)" => Some\(HtmlBodyVisitor::(\w+)\(Body(\w+)::new', src)
    kinds = {k: n for n, k, _ in arms}
    if sorted(kinds) != ["Append", "Prepend", "Replace"] or len(arms) != 3:
        fail(f"html_body_action/mod.rs: expected three action arms, found {arms}")
    if "if filter.element_tree.is_empty()" not in src:
        fail("html_body_action/mod.rs: the empty element_tree gate is gone")
    out.append("def filterActionAppend : String := " + lean_str(kinds["Append"]))
    out.append("def filterActionPrepend : String := " + lean_str(kinds["Prepend"]))
    out.append("def filterActionReplace : String := " + lean_str(kinds["Replace"]))

    # 3. supported encodings
    src = read("src/filter/encoding/mod.rs")
    m = re.search(r"let supported_encoding = match encoding \{(.*?)_ => return None,", src, re.S)
    if not m:
        fail("encoding/mod.rs: get_encoding_filters match not found")
    encs = re.findall(r'"([a-z]+)" => SupportedEncoding::\w+', m.group(1))
    if len(encs) != m.group(1).count("=>") or not encs:
        fail("encoding/mod.rs: cannot parse the supported encodings")
    out.append("def filterSupportedEncodings : List String := " + lean_list(encs))

    # 4. gates of FilterBodyAction::new / FilterBodyActionItem::new
    src = read("src/filter/filter_body.rs")
    for pat, what in [
        (r'if header\.name\.to_lowercase\(\) == "content-encoding" \{\s*content_encoding = Some\(header\.value\.to_lowercase\(\)\);', "content-encoding header scan"),
        (r'if header\.name\.to_lowercase\(\) == "content-type" \{\s*content_type = Some\(header\.value\.to_lowercase\(\)\);', "content-type header scan"),
        (r'Some\(content_type\) if content_type\.contains\("text/html"\) =>', "text/html gate"),
        (r"if data\.is_empty\(\) \{\s*break;", "break on empty data in do_filter"),
    ]:
        if not re.search(pat, src):
            fail(f"filter_body.rs: {what} not found")
    out.append('def filterHeaderContentType : String := "content-type"')
    out.append('def filterHeaderContentEncoding : String := "content-encoding"')
    out.append('def filterHtmlContentTypeNeedle : String := "text/html"')

    # 5. text action names (serde renames)
    src = read("src/api/body_filter.rs")
    ren = re.findall(r'#\[serde\(rename = "([a-z_]+)"\)\]\s*(\w+),', src)
    names = {v: k for k, v in ren}
    if sorted(names) != ["Append", "Prepend", "Replace"]:
        fail(f"api/body_filter.rs: text action renames not recognised: {ren}")
    out.append("def filterTextAppend : String := " + lean_str(names["Append"]))
    out.append("def filterTextPrepend : String := " + lean_str(names["Prepend"]))
    out.append("def filterTextReplace : String := " + lean_str(names["Replace"]))
    return out
