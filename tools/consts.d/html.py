"""Literal tables of /repo/src/html/mod.rs used by RioModel/Model/Html.lean (C16, C03, C04, C15).

Everything is emitted as byte lists (`List Nat`) so that `decide` works on the tables in the kernel.
Fails closed when a source pattern is no longer found.
"""
import re


def _bytes(s):
    return "[" + ", ".join(str(b) for b in s.encode("utf-8")) + "]"


def extract(read, fail, lean_str, lean_list):
    src = read("src/html/mod.rs")
    # only the tokenizer proper, not the tests
    cut = src.find("#[cfg(test)]")
    if cut < 0:
        fail("html/mod.rs: `#[cfg(test)]` marker not found")
    src = src[:cut]
    out = ["-- html tokenizer (tools/consts.d/html.py)"]

    # 1. read_start_tag: first-letter dispatch  'i' => { raw = self.start_tag_in(vec!["iframe".to_string()]); }
    m = re.search(r"fn read_start_tag\(&mut self\).*?\n    \}\n", src, re.S)
    if not m:
        fail("html/mod.rs: fn read_start_tag not found")
    body = m.group(0)
    arms = re.findall(r"'(\w)' => \{\s*raw = self\.start_tag_in\(vec!\[([^\]]*)\]\);\s*\}", body)
    if len(arms) < 1 or body.count("start_tag_in(") != len(arms):
        fail("html/mod.rs: read_start_tag dispatch arms not recognised")
    disp = []
    for letter, names in arms:
        ns = re.findall(r'"([^"]*)"\.to_string\(\)', names)
        if not ns or len(ns) != names.count(".to_string()"):
            fail(f"html/mod.rs: cannot parse start_tag_in list for '{letter}'")
        for n in ns:
            if not re.fullmatch(r"[a-z]+", n):
                fail(f"html/mod.rs: raw-text element name {n!r} is not lower-case ASCII letters")
        disp.append((letter, ns))
    out.append("/-- `read_start_tag`: (first letter, names given to `start_tag_in`) in source order. -/")
    out.append("def htmlRawDispatch : List (Nat × List (List Nat)) := ["
               + ", ".join(f"({ord(l)}, [" + ", ".join(_bytes(n) for n in ns) + "])" for l, ns in disp) + "]")

    # 2. new_fragment context tags
    m = re.search(r'match context_tag\.as_str\(\) \{\s*((?:"[a-z]+"\s*\|?\s*)+)=>', src)
    if not m:
        fail("html/mod.rs: new_fragment context tag list not found")
    frag = re.findall(r'"([a-z]+)"', m.group(1))
    out.append("def htmlFragmentRawTags : List (List Nat) := [" + ", ".join(_bytes(n) for n in frag) + "]")

    # 3. literals compared against raw_tag / input
    def need(pattern, what):
        mm = re.search(pattern, src)
        if not mm:
            fail(f"html/mod.rs: {what} not found")
        return mm

    need(r'self\.raw_tag == "plaintext"', 'comparison raw_tag == "plaintext"')
    need(r'self\.raw_tag == "script"', 'comparison raw_tag == "script"')
    need(r'self\.text_is_raw = self\.raw_tag != "textarea" && self\.raw_tag != "title";', "text_is_raw assignment")
    out.append("def htmlPlaintext : List Nat := " + _bytes("plaintext"))
    out.append("def htmlScript : List Nat := " + _bytes("script"))
    out.append("def htmlTextarea : List Nat := " + _bytes("textarea"))
    out.append("def htmlTitle : List Nat := " + _bytes("title"))
    mm = need(r'if byte != b"(\w+)"\[i\] && byte != b"(\w+)"\[i\]', "double-escape-start comparison")
    lo, up = mm.group(1), mm.group(2)
    if len(lo) != len(up):
        fail("html/mod.rs: double-escape-start literals differ in length")
    need(r'for i in 0\.\."' + lo + r'"\.len\(\)', "double-escape-start loop bound")
    out.append("def htmlDoubleEscapePat : List (Nat × Nat) := [" + ", ".join(f"({a}, {b})" for a, b in zip(lo.encode(), up.encode())) + "]")
    mm = need(r'self\.raw\.end \+= "([^"]*)"\.len\(\);', "raw.end += \"</script>\".len()")
    out.append(f"def htmlScriptEndTagLen : Nat := {len(mm.group(1).encode())}")
    mm = need(r'let doctype = "(\w+)"\.to_string\(\);', "doctype literal")
    need(r"byte != doctype\.as_bytes\(\)\[i\] && byte != doctype\.as_bytes\(\)\[i\] \+ \(b'a' - b'A'\)", "doctype comparison")
    out.append("def htmlDoctypePat : List (Nat × Nat) := [" + ", ".join(f"({b}, {b + 32})" for b in mm.group(1).encode()) + "]")
    mm = need(r'let cdata = "([^"]*)"\.to_string\(\);', "cdata literal")
    need(r"if byte != cdata\.as_bytes\(\)\[i\] \{", "cdata comparison")
    out.append("def htmlCdataPat : List (Nat × Nat) := [" + ", ".join(f"({b}, {b})" for b in mm.group(1).encode()) + "]")
    # subtraction widths
    for lit, name in [("-->", "htmlCommentEndLen"), ("--!>", "htmlCommentBangEndLen"), ("]]>", "htmlCdataEndLen"), ("<a", "htmlTagOpenLen")]:
        need(re.escape('"' + lit + '".len()'), f'"{lit}".len()')
        out.append(f"def {name} : Nat := {len(lit)}")
    mm = need(r"if brackets (>=?) (\d+) \{", "cdata bracket test")
    out.append(f"def htmlCdataBracketMin : Nat := {int(mm.group(2)) + (1 if mm.group(1) == '>' else 0)}")
    return out
