"""W25: `HtmlFilterBodyAction::filter` and `is_cut` (src/filter/html_filter_body.rs) TRANSLATED to Lean: the STATE HANDLING
of the streaming html step (entry read of last_buffer / last_context, the early `Err`, the three exits that store held bytes
and a context, the post-loop `extend(pending)`).

Method: the comment-stripped, white-space-normalised body of `filter` is consumed left to right by a sequence of WHITELISTED
statement patterns; the variable parts (clone vs mem::take, which variable is stored in last_context, the byte parts of each
last_buffer assignment and their order, break vs return, the text tests of the `while`, presence of `context = next_context`,
presence of the post-loop extend) are parsed and emitted; ANY other text fails closed, quoting the source at the position.

Generated: `genHtmlIsCut`, `genBytesContains`, `genHtmlFilterLoop`, `genHtmlFilter`.

Representation (documented abstraction, the same separation as the hand model `Rio.Filter.Tokenize.stream`): the tokenizer
built by `new_fragment(data, ctx)` is a cursor over its token list `xs : List τ` followed by the final ErrorToken; per token
`raw` (= raw() / raw_as_string() after the next() that returned it), `rawTag` (= raw_tag() BEFORE that next()), `cut`
(= err().is_some() after it), `isText` (= token_type == TextToken); at the ErrorToken `errRaw` (= raw()), `errBuf`
(= buffered()), `errTag` (= raw_tag() before the next() that returned it).  `buffered()` after a non-error token is the raws
of the tokens not yet read followed by errRaw ++ errBuf.
ABSTRACT PARAMETERS (callees not translated): `newFragment` (Tokenizer::new_fragment + next/raw/raw_tag/buffered/err, as
above), `fromUtf8` (std::str::from_utf8: none = Ok, some (error_len().is_some(), valid_up_to())), `push` (the
`if self.current_buffer.is_some() {..push_str(token_data)} else {to_return.push_str(token_data)}` statement, matched
verbatim), `dispatch` (the `match token_type {..}` over the tag tokens, i.e. on_start_tag_token / on_end_tag_token /
VOID_ELEMENTS, together with the final push of the loop body, matched as a balanced block followed by the verbatim push),
the state accessors getLast / getCtx / setLast / setCtx (fields last_buffer / last_context of &mut self).
`genHtmlDispatch` is the TRANSLATION of that `match token_type {..}` + final push, with further abstract parameters: `tokIs`
(`token_type == html::TokenType::<name>`, by variant name), `name` (`tokenizer.tag_name()?` unwrapped: `tag_name.unwrap()`,
`tag_name.as_ref().unwrap().clone()` and `tag_name.unwrap_or_default()` all read it — the tokenizer has a name on every tag
token, C16 tag_name_some; the unwrap panic is NOT represented, convention of the hand model), `isVoid`
(`VOID_ELEMENTS.contains`), `onStart` / `onEnd` (the call of on_start_tag_token / on_end_tag_token TOGETHER WITH the two
assignments `self.current_buffer = new_buffer_link; token_data = new_token_data;` that must follow it; the `?` of
on_end_tag_token is not represented: the model's visitors are total).  The loop keeps `dispatch` as a parameter; the
theorems instantiate it with `genHtmlDispatch`.
NOT represented (convention of the hand model, Model/Filter.lean header): the `?` exits of tokenizer.next() and
raw_as_string() (cannot fire on validated UTF-8, C16 accessors_ok_of_utf8); `split_off(valid_up_to())` is take / drop
(valid_up_to() <= len always).
"""
import re

F = "src/filter/html_filter_body.rs"


def _bytes(s):
    return "[" + ", ".join(str(b) for b in s.encode("utf-8")) + "]"


def _fn_body(src, sig, fail):
    i = src.find(sig)
    if i < 0 or src.find(sig, i + 1) >= 0:
        fail(f"{F}: expected exactly one `{sig}`")
    j = src.index("{", i)
    depth, k = 0, j
    while True:
        c = src[k]
        if c == "{":
            depth += 1
        elif c == "}":
            depth -= 1
            if depth == 0:
                break
        k += 1
    body = src[j + 1:k]
    if '"' in re.sub(r'"[^"\n]*"', "", body) :
        fail(f"{F}: unbalanced string literal in `{sig}`")
    for lit in re.findall(r'"[^"\n]*"|\'[^\'\n]*\'', body):
        if "{" in lit or "}" in lit or "//" in lit:
            fail(f"{F}: brace or comment marker inside a literal {lit} in `{sig}`")
    body = re.sub(r"//[^\n]*", "", body)
    if "/*" in body:
        fail(f"{F}: block comment in `{sig}`")
    return re.sub(r"\s+", " ", body).strip()


class Cur:
    def __init__(self, text, fail):
        self.t, self.p, self.fail = text, 0, fail

    def eat(self, pat, what):
        m = re.compile(pat).match(self.t, self.p)
        if not m:
            self.fail(f"{F}: filter: expected {what} at: `{self.t[self.p:self.p + 110]}`")
        self.p = m.end()
        while self.p < len(self.t) and self.t[self.p] == " ":
            self.p += 1
        return m

    def peek(self, s):
        return self.t.startswith(s, self.p)

    def balanced(self, what):
        if not self.peek("{"):
            self.fail(f"{F}: filter: expected a block for {what} at: `{self.t[self.p:self.p + 80]}`")
        depth, k = 0, self.p
        while k < len(self.t):
            if self.t[k] == "{":
                depth += 1
            elif self.t[k] == "}":
                depth -= 1
                if depth == 0:
                    inner = self.t[self.p + 1:k].strip()
                    self.p = k + 1
                    while self.p < len(self.t) and self.t[self.p] == " ":
                        self.p += 1
                    return inner
            k += 1
        self.fail(f"{F}: filter: unbalanced block for {what}")


PUSH = ("if self.current_buffer.is_some() { self.current_buffer.as_mut().unwrap().buffer.push_str(token_data.as_str()); } "
        "else { to_return.push_str(token_data.as_str()); }")


def _exit(block, site, ctxvars, fail, in_loop):
    """block: statements of an exit; returns (lean expr of the new state from `so.1`, 'break' | 'return')."""
    parts, ctx, term = None, None, None
    stmts = [s.strip() for s in block.split(";") if s.strip()]
    val = {
        "tokenizer.raw()": "errRaw" if site == "err" else "raw x",
        "tokenizer.buffered()": "errBuf" if site == "err" else "(xs.flatMap raw ++ errRaw ++ errBuf)",
        "pending": "pending",
        "Vec::new()": "[]",
    }
    if "tokenData" in ctxvars:
        val["token_data.into_bytes()"] = "raw x"
    for s in stmts:
        if term is not None:
            fail(f"{F}: filter: statement after the exit terminator: `{s}`")
        m = re.fullmatch(r"self\.last_buffer = (.+)", s)
        if m:
            if m.group(1) not in val:
                fail(f"{F}: filter: last_buffer assigned from an unknown expression: `{s}`")
            parts = [val[m.group(1)]]
            continue
        m = re.fullmatch(r"self\.last_buffer\.extend\((.+)\)", s)
        if m:
            if m.group(1) not in val:
                fail(f"{F}: filter: last_buffer extended by an unknown expression: `{s}`")
            parts = (parts if parts is not None else ["getLast so.1"]) + [val[m.group(1)]]
            continue
        m = re.fullmatch(r"self\.last_context = (\w+)(\.clone\(\))?", s)
        if m:
            if m.group(1) not in ctxvars:
                fail(f"{F}: filter: last_context assigned from an unknown variable: `{s}`")
            if ctx is not None:
                fail(f"{F}: filter: last_context assigned twice in one exit: `{s}`")
            ctx = ctxvars[m.group(1)]
            continue
        if s == "break" and in_loop:
            term = "break"
            continue
        if s == "return Ok(to_return.into_bytes())":
            term = "return"
            continue
        fail(f"{F}: filter: statement not whitelisted in an exit block: `{s}`")
    if term is None:
        fail(f"{F}: filter: exit block without break / return: `{block}`")
    e = "so.1"
    if parts is not None:
        e = f"setLast {e} ({' ++ '.join(parts)})"
    if ctx is not None:
        e = f"setCtx ({e}) ({ctx})"
    return e, term


CALL = (r"let \(new_buffer_link, new_token_data\) = self\.(on_start_tag_token|on_end_tag_token)\((\w+(?:\.as_ref\(\)\.unwrap\(\)\.clone\(\)|\.unwrap\(\)|\.clone\(\))?), "
        r"token_data, unit_trace\.as_deref_mut\(\)\)(\?)?; self\.current_buffer = new_buffer_link; token_data = new_token_data;")


def _arm(body, fail, names):
    """statements of one arm (or of the VOID `if`) -> list of Lean `let sd := ..` right-hand sides"""
    c = Cur(body, fail)
    steps = []
    names = dict(names)
    while c.p < len(c.t):
        if c.peek("let (tag_name, _) ="):
            c.eat(r"let \(tag_name, _\) = tokenizer\.tag_name\(\)\?;", "`let (tag_name, _) = tokenizer.tag_name()?;`")
            names["tag_name"] = "opt"
        elif c.peek("let tag_name_str ="):
            if names.get("tag_name") != "opt":
                c.fail(f"{F}: filter: tag_name_str read before tag_name is bound")
            c.eat(r"let tag_name_str = tag_name\.unwrap_or_default\(\);", "`let tag_name_str = tag_name.unwrap_or_default();`")
            names["tag_name_str"] = "str"
        elif c.peek("let (new_buffer_link, new_token_data)"):
            m = c.eat(CALL, "a whitelisted on_start_tag_token / on_end_tag_token call followed by the two assignments")
            fn, arg, q = m.groups()
            ok = (names.get("tag_name") == "opt" and arg in ("tag_name.unwrap()", "tag_name.as_ref().unwrap().clone()")) or \
                 (names.get("tag_name_str") == "str" and arg in ("tag_name_str.clone()", "tag_name_str"))
            if not ok:
                fail(f"{F}: filter: tag name argument not whitelisted: `{arg}`")
            if (fn == "on_end_tag_token") != (q == "?"):
                fail(f"{F}: filter: `?` expected exactly on on_end_tag_token calls: `{m.group(0)}`")
            steps.append(("onStart" if fn == "on_start_tag_token" else "onEnd") + " sd.1 (name x) sd.2")
        elif c.peek("if VOID_ELEMENTS.contains("):
            if names.get("tag_name_str") != "str":
                c.fail(f"{F}: filter: tag_name_str read before it is bound")
            c.eat(r"if VOID_ELEMENTS\.contains\(tag_name_str\.as_str\(\)\)", "`if VOID_ELEMENTS.contains(tag_name_str.as_str())`")
            inner = _arm(c.balanced("the VOID_ELEMENTS block"), fail, names)
            steps.append("if isVoid (name x) then (" + _seq(inner) + ") else sd")
        else:
            fail(f"{F}: filter: statement not whitelisted in a dispatch arm: `{c.t[c.p:c.p + 100]}`")
    return steps


def _seq(steps):
    return "".join(f"let sd := {e}; " for e in steps) + "sd"


def _dispatch(block, fail):
    c = Cur(block, fail)
    arms, default = [], False
    while c.p < len(c.t):
        if default:
            fail(f"{F}: filter: arm after `_ =>` in the dispatch: `{c.t[c.p:c.p + 60]}`")
        if c.peek("_ =>"):
            c.eat(r"_ => \{\}", "`_ => {}`")
            default = True
            continue
        m = c.eat(r"html::TokenType::(\w+) =>", "`html::TokenType::<Variant> =>`")
        arms.append((m.group(1), _seq(_arm(c.balanced("a dispatch arm"), fail, {}))))
    if not default:
        fail(f"{F}: filter: dispatch without the `_ => {{}}` arm")
    if len({a for a, _ in arms}) != len(arms):
        fail(f"{F}: filter: duplicate dispatch arm")
    return arms


def extract(read, fail, lean_str, lean_list):
    src = read(F)
    out = ["-- streaming html step, state handling (tools/consts.d/w9_tr_w25_htmlstep.py; source " + F + ")"]

    # ---- is_cut
    b = _fn_body(src, "fn is_cut(tokenizer: &html::Tokenizer, token_type: html::TokenType, context: &str) -> bool", fail)
    m = re.fullmatch(r'tokenizer\.err\(\)\.is_some\(\) && \(token_type != html::TokenType::TextToken \|\| '
                     r'\(!context\.is_empty\(\) && context != "([a-z]+)"\)\)', b)
    if not m:
        fail(f"{F}: is_cut: body is not the whitelisted expression: `{b}`")
    out += ["/-- `is_cut` (cut = `tokenizer.err().is_some()`, isText = `token_type == TextToken`) -/",
            "def genHtmlIsCut (cut isText : Bool) (context : List Nat) : Bool :=",
            f"  cut && (!isText || (!context.isEmpty && context != {_bytes(m.group(1))}))",
            "/-- `str::contains(&str)` on UTF-8 bytes -/",
            "def genBytesContains (pat : List Nat) : List Nat → Bool",
            "  | [] => pat.isEmpty",
            "  | b :: t => pat.isPrefixOf (b :: t) || genBytesContains pat t"]

    # ---- filter
    b = _fn_body(src, "pub fn filter(&mut self, input: Vec<u8>, mut unit_trace: Option<&mut UnitTrace>) -> Result<Vec<u8>>", fail)
    c = Cur(b, fail)
    m = c.eat(r"let mut data = (self\.last_buffer\.clone\(\)|(?:std::)?mem::take\(&mut self\.last_buffer\)); data\.extend\(input\);",
              "`let mut data = self.last_buffer.clone() | mem::take(..); data.extend(input);`")
    entry_take = "take" in m.group(1)
    c.eat(r"let mut pending = Vec::new\(\);", "`let mut pending = Vec::new();`")
    c.eat(r"if let Err\(err\) = std::str::from_utf8\(&data\) \{ if err\.error_len\(\)\.is_some\(\) \{ "
          r"return Err\(html::HtmlParseError::from\(String::from_utf8\(data\)\.unwrap_err\(\)\)\.into\(\)\); \} "
          r"pending = data\.split_off\(err\.valid_up_to\(\)\); \}", "the from_utf8 prologue (early Err return, split_off)")
    m = c.eat(r"let mut tokenizer = html::Tokenizer::new_fragment\(data, (self\.last_context\.clone\(\)|(?:std::)?mem::take\(&mut self\.last_context\))\);",
              "`let mut tokenizer = html::Tokenizer::new_fragment(data, self.last_context.clone() | mem::take(..));`")
    ctx_take = "take" in m.group(1)
    c.eat(r'let mut to_return = ""\.to_string\(\);', '`let mut to_return = "".to_string();`')
    c.eat(r"loop \{ let mut context = tokenizer\.raw_tag\(\)\.to_string\(\); let mut token_type = tokenizer\.next\(\)\?;",
          "`loop { let mut context = tokenizer.raw_tag().to_string(); let mut token_type = tokenizer.next()?;` (in this order)")
    c.eat(r"if token_type == html::TokenType::ErrorToken", "`if token_type == html::TokenType::ErrorToken`")
    exit7, term7 = _exit(c.balanced("the ErrorToken exit"), "err", {"context": "errTag"}, fail, True)
    c.eat(r"let mut token_data = tokenizer\.raw_as_string\(\)\?;", "`let mut token_data = tokenizer.raw_as_string()?;`")
    m = c.eat(r"while token_type == html::TokenType::TextToken && \(([^{}]*?)\) && !Self::is_cut\(&tokenizer, token_type, context\.as_str\(\)\) \{",
              "the `while token_type == TextToken && (..) && !Self::is_cut(&tokenizer, token_type, context.as_str()) {` header")
    tests = []
    for t in m.group(1).split(" || "):
        mm = re.fullmatch(r"token_data\.(contains|ends_with|starts_with)\((?:'([^'\\])'|\"([^\"\\]+)\")\)", t)
        if not mm:
            fail(f"{F}: filter: text test not whitelisted: `{t}`")
        meth, ch, st = mm.groups()
        lit = _bytes(ch if ch is not None else st)
        if meth == "contains":
            tests.append(f"(raw x).contains {lit[1:-1]}" if ch is not None and len(ch.encode()) == 1 else f"genBytesContains {lit} (raw x)")
        elif meth == "ends_with":
            tests.append(f"{lit}.isSuffixOf (raw x)")
        else:
            tests.append(f"{lit}.isPrefixOf (raw x)")
    c.eat(r"let next_context = tokenizer\.raw_tag\(\)\.to_string\(\); token_type = tokenizer\.next\(\)\?;",
          "`let next_context = tokenizer.raw_tag().to_string(); token_type = tokenizer.next()?;` (in this order)")
    c.eat(r"if token_type == html::TokenType::ErrorToken", "`if token_type == html::TokenType::ErrorToken` (inner)")
    exit11, term11 = _exit(c.balanced("the held-text exit"), "err",
                           {"context": "context", "next_context": "errTag", "tokenData": ""}, fail, False)
    c.eat(re.escape(PUSH), "the verbatim push of token_data (inner loop)")
    c.eat(r"token_data = tokenizer\.raw_as_string\(\)\?;", "`token_data = tokenizer.raw_as_string()?;`")
    step_ctx = "context"
    if c.peek("context = "):
        c.eat(r"context = next_context;", "`context = next_context;`")
        step_ctx = "rawTag y"
    c.eat(r"\}", "end of the inner while")
    c.eat(r"if Self::is_cut\(&tokenizer, token_type, context\.as_str\(\)\)", "`if Self::is_cut(&tokenizer, token_type, context.as_str())`")
    exit14, term14 = _exit(c.balanced("the cut exit"), "tok", {"context": "context"}, fail, True)
    c.eat(r"match token_type", "`match token_type` (the dispatch)")
    disp = _dispatch(c.balanced("the dispatch"), fail)
    c.eat(re.escape(PUSH), "the verbatim push of token_data (end of the loop body)")
    c.eat(r"\}", "end of the loop")
    post = "s1"
    while c.peek("self.last_buffer.extend("):
        c.eat(r"self\.last_buffer\.extend\(pending\);", "`self.last_buffer.extend(pending);`")
        post = f"setLast ({post}) (getLast ({post}) ++ pending)"
    c.eat(r"Ok\(to_return\.into_bytes\(\)\)$", "`Ok(to_return.into_bytes())` at the end of the function")

    def fin(e, term):
        return f"({e}, so.2)" if term == "return" else f"(let s1 := {e}; ({post}, so.2))"

    params = ("{σ τ : Type} (raw rawTag : τ → List Nat) (cut isText : τ → Bool)\n"
              "    (push : σ × List Nat → List Nat → σ × List Nat) (dispatch : σ × List Nat → τ → σ × List Nat)\n"
              "    (getLast : σ → List Nat) (setLast setCtx : σ → List Nat → σ)\n"
              "    (errRaw errBuf errTag pending : List Nat)")
    args = "raw rawTag cut isText push dispatch getLast setLast setCtx errRaw errBuf errTag pending"
    out += ["/-- the `loop` of `filter` from the point where `x` has been returned by `next()` (`context`, `token_data = raw x`",
            "assigned), `xs` = the tokens not yet read, `so` = (self, to_return) -/",
            f"def genHtmlFilterLoop {params} :",
            "    τ → List Nat → List τ → σ × List Nat → σ × List Nat",
            "  | x, context, xs, so =>",
            f"    if isText x && ({' || '.join(tests)}) && !genHtmlIsCut (cut x) (isText x) context then",
            "      match xs with",
            f"      | [] => {fin(exit11, term11)}",
            f"      | y :: ys => genHtmlFilterLoop {args} y ({step_ctx}) ys (push so (raw x))",
            f"    else if genHtmlIsCut (cut x) (isText x) context then {fin(exit14, term14)}",
            "    else",
            "      let so := dispatch so x",
            "      match xs with",
            f"      | [] => {fin(exit7, term7)}",
            f"      | y :: ys => genHtmlFilterLoop {args} y (rawTag y) ys so",
            "/-- `HtmlFilterBodyAction::filter`: (self after the call, `None` = `Err` | `Some` output) -/",
            "def genHtmlFilter {σ τ : Type} (raw rawTag : τ → List Nat) (cut isText : τ → Bool)",
            "    (push : σ × List Nat → List Nat → σ × List Nat) (dispatch : σ × List Nat → τ → σ × List Nat)",
            "    (getLast getCtx : σ → List Nat) (setLast setCtx : σ → List Nat → σ)",
            "    (fromUtf8 : List Nat → Option (Bool × Nat))",
            "    (newFragment : List Nat → List Nat → List τ × List Nat × List Nat × List Nat)",
            "    (s : σ) (input : List Nat) : σ × Option (List Nat) :=",
            "  let data := getLast s ++ input",
            f"  let s := {'setLast s []' if entry_take else 's'}",
            "  match fromUtf8 data with",
            "  | some (true, _) => (s, none)",
            "  | r =>",
            "    let dp : List Nat × List Nat := match r with",
            "      | some (_, n) => (data.take n, data.drop n)",
            "      | none => (data, [])",
            "    let pending := dp.2",
            "    let tz := newFragment dp.1 (getCtx s)",
            f"    let s := {'setCtx s []' if ctx_take else 's'}",
            "    let errRaw := tz.2.1",
            "    let errBuf := tz.2.2.1",
            "    let errTag := tz.2.2.2",
            "    let so : σ × List Nat := (s, [])",
            "    let r := match tz.1 with",
            f"      | [] => {fin(exit7, term7)}",
            f"      | x :: xs => genHtmlFilterLoop {args} x (rawTag x) xs so",
            "    (r.1, some r.2)"]
    chain = "sd"
    for variant, body in reversed(disp):
        chain = f"if tokIs {lean_str(variant)} x then ({body}) else {chain}"
    out += ["/-- the `match token_type {..}` of the loop body followed by the push of `token_data` -/",
            "def genHtmlDispatch {σ τ : Type} (tokIs : String → τ → Bool) (raw name : τ → List Nat) (isVoid : List Nat → Bool)",
            "    (onStart onEnd : σ → List Nat → List Nat → σ × List Nat)",
            "    (push : σ × List Nat → List Nat → σ × List Nat) (so : σ × List Nat) (x : τ) : σ × List Nat :=",
            "  let sd : σ × List Nat := (so.1, raw x)",
            f"  let sd := {chain}",
            "  push (sd.1, so.2) sd.2"]
    return out
