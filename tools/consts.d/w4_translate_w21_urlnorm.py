"""W21: section `tr_w21_urlnorm` - the request-side URL normaliser of src/http/query.rs translated from the source on every
run: `sanitize_url` -> `genSanitizeUrl`, `PathAndQueryWithSkipped::from_config` -> `genPqsFromConfig`, and the rule side
`Request::build_sorted_query` of src/http/request.rs -> `genBuildSortedQuery pctEncode parseQuery btreeCollect query : Option B` (C09 tie).

A small compiler of its own (lexer -> recursive-descent parser for the subset -> emission as nested `let`s); it does not use
the W4c core (the function needs a `let x = match E { Ok(p) => p, Err(e) => { ..; return S; } }` early return, `for (k, v) in
&map` with two mutated outer strings, `push` / `push_str`, struct literals).  Everything outside the subset FAILS CLOSED with
`file:line: reason: source line`.

SHAPE.  Strings are byte lists (B = List Nat).  `genPqsFromConfig <abstract parameters> ignorePathAndQueryCase
ignoreMarketingQueryParams passMarketingQueryParamsToTarget marketingQueryParams pathAndQueryStr` returns the fields of
`PathAndQueryWithSkipped` IN DECLARATION ORDER of the struct (checked to be path_and_query: String, path_and_query_matching:
Option<String>, skipped_query_params: Option<String>, original: String) as a tuple B x Option B x Option B x B.
Mutable `String` locals are re-bound (`x.push(c)` = `let x := x ++ [c]`, `x.push_str(e)` = `let x := x ++ e`); an `if` / `if let`
/ `for` that assigns outer locals returns the tuple of exactly those locals (in order of declaration) and re-binds them from
its projections; `for (k, v) in &m` is `List.foldl` over the entries of `m` in the order the abstract `btreeCollect` returns
them; the early `return` of the `Err` arm is the `none` arm of a `match` whose `some` arm holds the rest of the function (exact).
`if C { return E; }` (a block that is exactly one `return`) is `if C then E else <rest of the function>` (exact).
`x.pop();` (result discarded) is `List.dropLast x`: Rust pops a CHAR, the translation a BYTE - equal when the last char is ASCII
(Props/C09gen.lean `gen_sorted_query_pop_ascii`: in `build_sorted_query` the string is empty or ends in the `&` just pushed).
Nothing else can panic (no index, no unwrap, no arithmetic): no other totalisation.  `log::error!(..)` is skipped iff its arguments
are a string literal and plain identifiers (no effect on the state).
Erased (identity on the byte values): `.to_string()`, `.clone()`, `.as_str()`, `.as_bytes()`, `.into_owned()`, `&`.

ABSTRACT PARAMETERS (every callee that is not translated; the hand model Model/Url.lean has executable stand-ins):
  pctEncode : List Nat -> B -> B        `utf8_percent_encode(s, SET).to_string()`; SET is emitted as the regenerated constant
                                        `encSetQueryRs<Set>` of tools/consts.d/url.py (the set's bytes beyond CONTROLS)
  pqParse : B -> Option p               `url.parse()` at type `PathAndQuery` (`none` = Err; the error value is only logged)
  pqPath : p -> B                       `PathAndQuery::path()`
  pqQuery : p -> Option B               `PathAndQuery::query()`
  parseQuery : B -> List (B x B)        `url::form_urlencoded::parse(q)` (imported as `parse_query`, checked) `.into_owned()`
  btreeCollect : List (B x B) -> List (B x B)
                                        `.collect()` into a local annotated `BTreeMap<_, _>` (exactly this annotation), then
                                        iteration `for (k, v) in &map`: the entries sorted by key, last value of a key wins
  toLowercase : B -> B                  `str::to_lowercase`
`config.marketing_query_params.contains(key)` is `List.contains` on the configured set (membership only).
"""
import re

PATH = "src/http/query.rs"
B = "List Nat"
_TOK = re.compile(r"""(?P<ws>\s+|//[^\n]*)|(?P<str>"(?:[^"\\]|\\.)*")|(?P<chr>'(?:[^'\\]|\\.)')|(?P<id>[A-Za-z_]\w*)|(?P<num>\d+)|(?P<op>::|=>|->|&&|\|\||==|!=|[!.,;:(){}\[\]&=<>*|+?-])""")
_CFG = {"ignore_path_and_query_case": ("ignorePathAndQueryCase", "Bool"), "ignore_marketing_query_params": ("ignoreMarketingQueryParams", "Bool"),
        "pass_marketing_query_params_to_target": ("passMarketingQueryParamsToTarget", "Bool"), "marketing_query_params": ("marketingQueryParams", "Set")}
_SETS = {"URL_ENCODE_SET": "encSetQueryRsUrlEncodeSet", "QUERY_ENCODE_SET": "encSetQueryRsQueryEncodeSet"}
_ERASED = ("to_string", "clone", "as_str", "as_bytes", "into_owned")
_PARAMS = ("pctEncode", "pqParse", "pqPath", "pqQuery", "parseQuery", "btreeCollect", "toLowercase", "genSanitizeUrl", "genPqsFromConfig", "genBuildSortedQuery",
           "st", "kv", "fun", "let", "if", "then", "else", "match", "with", "some", "none", "true", "false", "at", "from", "by", "do", "end", "open", "def")


class _F(Exception):
    pass


class _P:
    def __init__(self, src, start, lines, path=PATH, sets=None):
        self.t = []
        self.lines = lines
        self.path = path
        self.sets = _SETS if sets is None else sets
        pos = start
        depth = 0
        while pos < len(src):
            m = _TOK.match(src, pos)
            line = src.count("\n", 0, pos) + 1
            if not m:
                self.fail("unknown token", line)
            pos = m.end()
            if m.lastgroup == "ws":
                continue
            self.t.append((m.lastgroup, m.group(), line))
            if m.group() == "{":
                depth += 1
            elif m.group() == "}":
                depth -= 1
                if depth == 0:
                    break
        self.i = 0

    def fail(self, why, line=None):
        line = line if line is not None else self.t[min(self.i, len(self.t) - 1)][2]
        raise _F(f"{self.path}:{line}: {why}: {self.lines[line - 1].strip()}")

    def at(self, text, k=0):
        return self.i + k < len(self.t) and self.t[self.i + k][1] == text and self.t[self.i + k][0] not in ("str", "chr")

    def kind(self, k=0):
        return self.t[self.i + k][0] if self.i + k < len(self.t) else "eof"

    def eat(self, text):
        if not self.at(text):
            self.fail(f"expected `{text}`")
        self.i += 1

    def ident(self):
        if self.kind() != "id":
            self.fail("identifier expected")
        self.i += 1
        return self.t[self.i - 1][1]

    # ---- statements: ("let", x, E) ("letmatch", x, E, okvar, errstmts, retE) ("push", x, E) ("pushstr", x, E) ("if", C, then, else|None)
    #                  ("iflet", var, E, body) ("for", k, v, map, body) ("return", E)    block -> (stmts, tail|None)
    def block(self):
        self.eat("{")
        stmts, tail = [], None
        while not self.at("}"):
            line = self.t[self.i][2]
            if tail is not None:
                self.fail("expression without `;` in the middle of a block")
            if self.at("let"):
                stmts.append(self.let())
            elif self.at("if") and self.at("let", 1):
                self.i += 2
                self.eat("Some"); self.eat("("); v = self.ident(); self.eat(")"); self.eat("=")
                e = self.expr(nostruct=True)
                body = self.block()
                if self.at("else"):
                    self.fail("`if let .. else` is not in the subset")
                if body[1] is not None:
                    self.fail("`if let` used as a value is not in the subset")
                stmts.append(("iflet", v, e, body[0], line))
            elif self.at("if"):
                node = self.ifexpr()
                if node[2][1] is None and (node[3] is None or node[3][1] is None):
                    stmts.append(("if", node[1], node[2][0], None if node[3] is None else node[3][0], line))
                elif self.at("}"):
                    tail = node
                else:
                    self.fail("`if` with a value in statement position")
            elif self.at("for"):
                self.i += 1
                self.eat("("); k = self.ident(); self.eat(","); v = self.ident(); self.eat(")"); self.eat("in"); self.eat("&")
                m = self.ident()
                body = self.block()
                if body[1] is not None:
                    self.fail("`for` body with a tail value")
                stmts.append(("for", k, v, m, body[0], line))
            elif self.at("return"):
                self.i += 1
                e = self.expr()
                self.eat(";")
                stmts.append(("return", e, line))
            elif self.at("log") and self.at("::", 1):
                self.i += 2
                self.ident(); self.eat("!"); self.eat("(")
                while not self.at(")"):
                    if self.kind() not in ("str", "id") and not self.at(","):
                        self.fail("argument of `log::..!` that is not a literal / plain identifier")
                    self.i += 1
                self.eat(")"); self.eat(";")
            else:
                e = self.expr()
                if e[0] == "pop":
                    self.eat(";")      # the popped char is discarded: only as a statement
                    stmts.append(e)
                elif e[0] in ("push", "pushstr"):
                    if self.at(";"):
                        self.i += 1
                    elif not self.at("}"):
                        self.fail("`;` expected")
                    stmts.append(e)
                elif self.at("}"):
                    tail = e
                else:
                    self.fail("expression statement is not in the subset", line)
        self.eat("}")
        return stmts, tail

    def let(self):
        line = self.t[self.i][2]
        self.eat("let")
        if self.at("mut"):
            self.i += 1
        x = self.ident()
        ty = None
        if self.at(":"):
            self.i += 1
            j = self.i
            while not self.at("="):
                self.i += 1
            ty = "".join(t[1] for t in self.t[j:self.i])
        self.eat("=")
        if self.at("match"):
            self.i += 1
            e = self.expr(nostruct=True)
            if ty != "PathAndQuery" or e[0] != "method" or e[2] != "parse" or e[3]:
                self.fail("`let x = match ..` only as `let x: PathAndQuery = match E.parse() { Ok(..) => .., Err(..) => {.. return ..} }`", line)
            self.eat("{"); self.eat("Ok"); self.eat("("); ok = self.ident(); self.eat(")"); self.eat("=>")
            okv = self.ident()
            if okv != ok:
                self.fail("the `Ok` arm must return its payload")
            self.eat(","); self.eat("Err"); self.eat("("); self.ident(); self.eat(")"); self.eat("=>")
            eb = self.block()
            if eb[1] is not None or not eb[0] or eb[0][-1][0] != "return" or any(s[0] == "return" for s in eb[0][:-1]):
                self.fail("the `Err` arm must end in its only `return`", line)
            if self.at(","):
                self.i += 1
            self.eat("}"); self.eat(";")
            return ("letmatch", x, e[1], eb[0][:-1], eb[0][-1][1], line)
        e = self.expr()
        self.eat(";")
        if e[0] == "method" and e[2] == "collect":
            if ty != "BTreeMap<_,_>" or e[3]:
                self.fail("`.collect()` only into a local annotated `BTreeMap<_, _>`", line)
            return ("let", x, ("call", "btreeCollect", [e[1]]), line)
        if ty is not None and ty != "PathAndQuery":
            self.fail(f"type annotation `{ty}` is not in the subset", line)
        return ("let", x, e, line)

    def ifexpr(self):
        line = self.t[self.i][2]
        self.eat("if")
        c = self.expr(nostruct=True)
        then = self.block()
        other = None
        if self.at("else"):
            self.i += 1
            if self.at("if"):
                self.fail("`else if` is not in the subset")
            other = self.block()
        return ("ifv", c, then, other, line)

    # ---- expressions
    def expr(self, nostruct=False):
        e = self.unary(nostruct)
        while self.at("&&"):
            self.i += 1
            e = ("and", e, self.unary(nostruct))
        return e

    def unary(self, nostruct):
        if self.at("!"):
            self.i += 1
            return ("not", self.unary(nostruct))
        if self.at("&"):
            self.i += 1
            return self.unary(nostruct)
        return self.postfix(nostruct)

    def postfix(self, nostruct):
        e = self.primary(nostruct)
        while self.at("."):
            line = self.t[self.i][2]
            self.i += 1
            name = self.ident()
            if not self.at("("):
                if e[:2] != ("var", "config") or name not in _CFG:
                    self.fail(f"field access `.{name}` is not in the subset", line)
                e = ("cfg", name)
                continue
            self.eat("(")
            args = []
            while not self.at(")"):
                args.append(self.expr())
                if self.at(","):
                    self.i += 1
            self.eat(")")
            if name in _ERASED and not args:
                continue
            if name == "push" and len(args) == 1 and e[0] == "var" and args[0][0] == "chr":
                e = ("push", e[1], args[0], line)
            elif name == "push_str" and len(args) == 1 and e[0] == "var":
                e = ("pushstr", e[1], args[0], line)
            elif name == "pop" and not args and e[0] == "var":
                e = ("pop", e[1], line)
            elif name in ("is_empty", "to_lowercase", "path", "query", "parse", "collect") and not args:
                e = ("method", e, name, args, line)
            elif name == "contains" and len(args) == 1 and e == ("cfg", "marketing_query_params"):
                e = ("method", e, name, args, line)
            else:
                self.fail(f"method call `.{name}(..)` with {len(args)} argument(s) is not in the subset", line)
        return e

    def primary(self, nostruct):
        k, text, line = self.t[self.i]
        if k == "str":
            if text != '""':
                self.fail("string literal other than \"\"")
            self.i += 1
            return ("nil",)
        if k == "chr":
            self.i += 1
            c = text[1:-1]
            if len(c) != 1 or ord(c) > 127:
                self.fail("char literal is not plain ASCII")
            return ("chr", ord(c))
        if text == "if" and k == "id":
            node = self.ifexpr()
            if node[3] is None or node[2][0] or node[3][0] or node[2][1] is None or node[3][1] is None:
                self.fail("`if` as a value must be `if C { E1 } else { E2 }`", line)
            return ("ite", node[1], node[2][1], node[3][1])
        if text == "(":
            self.i += 1
            e = self.expr()
            self.eat(")")
            return e
        if k != "id":
            self.fail(f"expression form `{text}` is not in the subset")
        self.i += 1
        if self.at("::"):
            self.fail(f"path expression `{text}::..` is not in the subset", line)
        if text == "Self" and self.at("{") and not nostruct:
            self.eat("{")
            fields = []
            while not self.at("}"):
                f = self.ident()
                if self.at(":"):
                    self.i += 1
                    v = self.expr()
                else:
                    v = ("var", f)
                fields.append((f, v))
                if self.at(","):
                    self.i += 1
                elif not self.at("}"):
                    self.fail("`,` expected in the struct literal")
            self.eat("}")
            return ("struct", fields, line)
        if self.at("("):
            self.eat("(")
            args = []
            while not self.at(")"):
                args.append(self.expr())
                if self.at(","):
                    self.i += 1
            self.eat(")")
            if text == "Some" and len(args) == 1:
                return ("some", args[0])
            if text == "utf8_percent_encode" and len(args) == 2 and args[1][0] == "var" and args[1][1] in self.sets:
                return ("call", "pctEncode " + self.sets[args[1][1]], [args[0]])
            if text == "parse_query" and len(args) == 1:
                return ("call", "parseQuery", [args[0]])
            if text == "sanitize_url" and len(args) == 1:
                return ("call", "genSanitizeUrl pctEncode", [args[0]])
            self.fail(f"call `{text}(..)` with {len(args)} argument(s) is not in the subset", line)
        if text in ("true", "false", "Ok", "Err", "Self", "self", "match", "while", "loop", "break", "continue", "unsafe"):
            self.fail(f"`{text}` here is not in the subset", line)
        if text == "None":
            return ("none",)
        return ("var", text, line)


def _camel(s):
    p = s.split("_")
    return p[0] + "".join(w.capitalize() for w in p[1:])


class _E:
    """emission; `self.scope` = declared locals in order of declaration"""

    def __init__(self, parser, fields):
        self.p = parser
        self.fields = fields
        self.n = 0

    def var(self, name, scope, line=None):
        if name not in scope:
            self.p.fail(f"unknown variable `{name}`", line)
        return _camel(name)

    def decl(self, name, scope, line):
        c = _camel(name)
        if c in _PARAMS or c in [v[0] for v in _CFG.values()]:
            self.p.fail(f"local `{name}` collides with a generated name", line)
        return scope + [name] if name not in scope else scope

    def ex(self, e, sc):
        k = e[0]
        if k == "nil":
            return "([] : List Nat)"
        if k == "none":
            return "none"
        if k == "chr":
            return str(e[1])
        if k == "var":
            return self.var(e[1], sc, e[2] if len(e) > 2 else None)
        if k == "cfg":
            if _CFG[e[1]][1] != "Bool":
                self.p.fail(f"`config.{e[1]}` used other than by `.contains(..)`")
            return _CFG[e[1]][0]
        if k == "some":
            return f"some ({self.ex(e[1], sc)})"
        if k == "not":
            return f"(!{self.ex(e[1], sc)})"
        if k == "and":
            return f"({self.ex(e[1], sc)} && {self.ex(e[2], sc)})"
        if k == "ite":
            return f"(if {self.ex(e[1], sc)} then {self.ex(e[2], sc)} else {self.ex(e[3], sc)})"
        if k == "call":
            return f"({e[1]} {' '.join(self.ex(a, sc) for a in e[2])})"
        if k == "method":
            r, name = e[1], e[2]
            if name == "is_empty":
                return f"(List.isEmpty {self.ex(r, sc)})"
            if name == "to_lowercase":
                return f"(toLowercase {self.ex(r, sc)})"
            if name == "path":
                return f"(pqPath {self.ex(r, sc)})"
            if name == "query":
                return f"(pqQuery {self.ex(r, sc)})"
            if name == "contains":
                return f"(List.contains {_CFG[r[1]][0]} {self.ex(e[3][0], sc)})"
            self.p.fail(f"`.{name}()` in this position is not in the subset", e[4])
        if k == "struct":
            got = dict(e[1])
            if [f for f, _ in e[1]] and (sorted(got) != sorted(self.fields) or len(e[1]) != len(self.fields)):
                self.p.fail("the struct literal does not initialise exactly the fields of `PathAndQueryWithSkipped`", e[2])
            return "(" + ", ".join(self.ex(got[f], sc) for f in self.fields) + ")"
        self.p.fail(f"expression node `{k}` in value position is not in the subset", e[-1] if isinstance(e[-1], int) else None)

    def assigned(self, stmts, sc):
        """outer locals (declared in sc) assigned by the statements, in order of declaration"""
        got, inner = set(), set()

        def walk(ss, inner):
            inner = set(inner)
            for s in ss:
                if s[0] in ("push", "pushstr", "pop"):
                    if s[1] not in inner:
                        got.add(s[1])
                elif s[0] in ("let", "letmatch"):
                    inner.add(s[1])
                elif s[0] == "if":
                    walk(s[2], inner)
                    walk(s[3] or [], inner)
                elif s[0] == "iflet":
                    walk(s[3], inner | {s[1]})
                elif s[0] == "for":
                    walk(s[4], inner | {s[1], s[2]})
                elif s[0] == "return":
                    self.p.fail("`return` inside a nested block is not in the subset", s[-1])
        walk(stmts, inner)
        for g in got:
            if g not in sc:
                self.p.fail(f"assignment to the unknown variable `{g}`")
        return [v for v in sc if v in got]

    def tup(self, vs):
        return _camel(vs[0]) if len(vs) == 1 else "(" + ", ".join(_camel(v) for v in vs) + ")"

    def rebind(self, vs, ind):
        if len(vs) == 1:
            return []
        st = f"st{self.n}"
        out = []
        for i, v in enumerate(vs):
            proj = ".2" * i + (".1" if i < len(vs) - 1 else "")
            out.append(f"{ind}let {_camel(v)} := {st}{proj}")
        return out

    def stmts(self, ss, sc, ind, final):
        """lines for the statements followed by `final(scope, indent)` lines"""
        out = []
        sc = list(sc)
        for idx, s in enumerate(ss):
            k = s[0]
            if k == "let":
                v = self.ex(s[2], sc)
                sc = self.decl(s[1], sc, s[3])
                out.append(f"{ind}let {_camel(s[1])} := {v}")
            elif k == "push":
                out.append(f"{ind}let {self.var(s[1], sc, s[3])} := {self.var(s[1], sc)} ++ [{s[2][1]}]")
            elif k == "pop":
                out.append(f"{ind}let {self.var(s[1], sc, s[2])} := List.dropLast {self.var(s[1], sc)}")
            elif k == "pushstr":
                out.append(f"{ind}let {self.var(s[1], sc, s[3])} := {self.var(s[1], sc)} ++ {self.ex(s[2], sc)}")
            elif k == "letmatch":
                out.append(f"{ind}match pqParse {self.ex(s[2], sc)} with")
                out.append(f"{ind}| none =>")
                out += self.stmts(s[3], sc, ind + "  ", lambda sc2, i2, e=s[4]: [f"{i2}{self.ex(e, sc2)}"])
                out.append(f"{ind}| some {_camel(s[1])} =>")
                sc2 = self.decl(s[1], sc, s[5])
                out += self.stmts(ss[idx + 1:], sc2, ind + "  ", final)
                return out
            elif k == "if" and s[3] is None and len(s[2]) == 1 and s[2][0][0] == "return":
                out.append(f"{ind}if {self.ex(s[1], sc)} then")
                out.append(f"{ind}  {self.ex(s[2][0][1], sc)}")
                out.append(f"{ind}else")
                out += self.stmts(ss[idx + 1:], sc, ind + "  ", final)
                return out
            elif k in ("if", "iflet", "for"):
                body_all = (s[2] + (s[3] or [])) if k == "if" else s[3] if k == "iflet" else s[4]
                vs = self.assigned(body_all, sc)
                if not vs:
                    self.p.fail("a block that assigns no outer local", s[-1])
                self.n += 1
                n = self.n
                name = _camel(vs[0]) if len(vs) == 1 else f"st{n}"
                ret = lambda sc2, i2, vs=vs: [f"{i2}{self.tup(vs)}"]
                if k == "if":
                    out.append(f"{ind}let {name} :=")
                    out.append(f"{ind}  if {self.ex(s[1], sc)} then")
                    out += self.stmts(s[2], sc, ind + "    ", ret)
                    out.append(f"{ind}  else")
                    out += self.stmts(s[3] or [], sc, ind + "    ", ret)
                elif k == "iflet":
                    out.append(f"{ind}let {name} :=")
                    out.append(f"{ind}  match {self.ex(s[2], sc)} with")
                    out.append(f"{ind}  | some {_camel(s[1])} =>")
                    out += self.stmts(s[3], self.decl(s[1], sc, s[4]), ind + "    ", ret)
                    out.append(f"{ind}  | none =>")
                    out += ret(sc, ind + "    ")
                else:
                    m = self.var(s[3], sc, s[5])
                    out.append(f"{ind}let {name} :=")
                    out.append(f"{ind}  List.foldl (fun (st : {' × '.join([B] * len(vs))}) (kv : {B} × {B}) =>")
                    inner = ind + "    "
                    if len(vs) == 1:
                        out.append(f"{inner}let {_camel(vs[0])} := st")
                    else:
                        for i, v in enumerate(vs):
                            out.append(f"{inner}let {_camel(v)} := st{'.2' * i}{'.1' if i < len(vs) - 1 else ''}")
                    sc2 = self.decl(s[2], self.decl(s[1], sc, s[5]), s[5])
                    out.append(f"{inner}let {_camel(s[1])} := kv.1")
                    out.append(f"{inner}let {_camel(s[2])} := kv.2")
                    out += self.stmts(s[4], sc2, inner, ret)
                    out.append(f"{ind}  ) {self.tup(vs)} {m}")
                self.n = n
                out += self.rebind(vs, ind)
            else:
                self.p.fail(f"statement `{k}` here is not in the subset", s[-1])
        return out + final(sc, ind)


def _fn(src, lines, header_re, fail):
    m = re.search(header_re, src)
    if not m or len(re.findall(header_re, src)) != 1:
        fail(f"{PATH}: signature not found exactly once: {header_re}")
    return m


RPATH = "src/http/request.rs"


def _sorted_query(read, fail):
    """`Request::build_sorted_query` (rule side)"""
    src = read(RPATH)
    lines = src.split("\n")
    if not re.search(r"^use url::form_urlencoded::parse as parse_query;$", src, re.M):
        fail(f"{RPATH}: `parse_query` is no longer `url::form_urlencoded::parse`")
    if not re.search(r"^use percent_encoding::\{[^}]*\butf8_percent_encode\b[^}]*\};$", src, re.M):
        fail(f"{RPATH}: `utf8_percent_encode` is no longer imported from percent_encoding")
    if not re.search(r"^use std::collections::BTreeMap;$", src, re.M):
        fail(f"{RPATH}: `BTreeMap` is no longer the std type")
    hdr = r"pub fn build_sorted_query\((\w+): &str\) -> Option<String> (?=\{)"
    m = re.search(hdr, src)
    if not m or len(re.findall(hdr, src)) != 1:
        fail(f"{RPATH}: signature of `build_sorted_query` not found exactly once")
    p = _P(src, m.end(), lines, RPATH, {"QUERY_ENCODE_SET": "encSetRequestRsQueryEncodeSet"})
    stmts, tail = p.block()
    if tail is None:
        p.fail("`build_sorted_query` no longer ends in a value", src.count("\n", 0, m.start()) + 1)
    e = _E(p, [])
    arg = m.group(1)
    body = e.stmts(stmts, e.decl(arg, [], None), "  ", lambda sc, ind: [f"{ind}{e.ex(tail, sc)}"])
    return ["set_option linter.unusedVariables false in",
            "/-- `Request::build_sorted_query` (rule side): strings as bytes; `pctEncode` / `parseQuery` / `btreeCollect` are parameters; `query_string.pop()` is "
            "`List.dropLast` (exact when the last char is ASCII: Props/C09gen.lean `gen_sorted_query_pop_ascii` shows the string is empty or ends in the `&` just pushed); "
            f"the early `return None` is the `then` branch; translated from {RPATH}. -/",
            f"def genBuildSortedQuery (pctEncode : List Nat → {B} → {B}) (parseQuery : {B} → List ({B} × {B})) (btreeCollect : List ({B} × {B}) → List ({B} × {B}))",
            f"    ({_camel(arg)} : {B}) : Option ({B}) :="] + body


def extract(read, fail, lean_str, lean_list):
    src = read(PATH)
    lines = src.split("\n")
    try:
        if not re.search(r"^use url::form_urlencoded::parse as parse_query;$", src, re.M):
            fail(f"{PATH}: `parse_query` is no longer `url::form_urlencoded::parse`")
        if not re.search(r"^use percent_encoding::\{[^}]*\butf8_percent_encode\b[^}]*\};$", src, re.M):
            fail(f"{PATH}: `utf8_percent_encode` is no longer imported from percent_encoding")
        if not re.search(r"^use std::collections::BTreeMap;$", src, re.M) or not re.search(r"^use http::uri::PathAndQuery;$", src, re.M):
            fail(f"{PATH}: `BTreeMap` / `PathAndQuery` are no longer the std / http types")
        sm = re.search(r"pub struct PathAndQueryWithSkipped \{(.*?)\n\}", src, re.S)
        if not sm:
            fail(f"{PATH}: `pub struct PathAndQueryWithSkipped` not found")
        fields = re.findall(r"pub (\w+): ([\w<>]+),", sm.group(1))
        if fields != [("path_and_query", "String"), ("path_and_query_matching", "Option<String>"), ("skipped_query_params", "Option<String>"), ("original", "String")]:
            fail(f"{PATH}: the fields of `PathAndQueryWithSkipped` are not the modelled ones: {fields}")
        fnames = [f for f, _ in fields]
        out = ["-- Rust -> Lean translation: `sanitize_url` and `PathAndQueryWithSkipped::from_config` of src/http/query.rs (tools/consts.d/w4_translate_w21_urlnorm.py, a compiler of its own)", ""]
        # sanitize_url
        m = _fn(src, lines, r"pub fn sanitize_url\((\w+): &str\) -> String (?=\{)", fail)
        p = _P(src, m.end(), lines)
        stmts, tail = p.block()
        if stmts or tail is None:
            p.fail("`sanitize_url` is no longer a single expression", src.count("\n", 0, m.start()) + 1)
        e = _E(p, fnames)
        out += ["set_option linter.unusedVariables false in",
                f"/-- `sanitize_url`; `pctEncode` is the abstract `utf8_percent_encode(s, set).to_string()`; translated from {PATH}. -/",
                f"def genSanitizeUrl (pctEncode : List Nat → {B} → {B}) ({_camel(m.group(1))} : {B}) : {B} :=",
                "  " + e.ex(tail, e.decl(m.group(1), [], None)), ""]
        # from_config
        m = _fn(src, lines, r"pub fn from_config\((\w+): &RouterConfig, (\w+): &str\) -> Self (?=\{)", fail)
        if m.group(1) != "config":
            fail(f"{PATH}: the first parameter of `from_config` is expected to be called `config`")
        p = _P(src, m.end(), lines)
        stmts, tail = p.block()
        if tail is None:
            p.fail("`from_config` no longer ends in a value", src.count("\n", 0, m.start()) + 1)
        e = _E(p, fnames)
        arg = m.group(2)
        body = e.stmts(stmts, e.decl(arg, [], None), "  ", lambda sc, ind: [f"{ind}{e.ex(tail, sc)}"])
        out += ["set_option linter.unusedVariables false in",
                "/-- `PathAndQueryWithSkipped::from_config`: (path_and_query, path_and_query_matching, skipped_query_params, original); strings as bytes; "
                "`pctEncode` / `pqParse` / `pqPath` / `pqQuery` / `parseQuery` / `btreeCollect` / `toLowercase` are parameters (percent_encoding, http::uri::PathAndQuery, "
                f"form_urlencoded::parse, BTreeMap collect + iteration, str::to_lowercase); the early `return` of the `Err` arm is the `none` arm; translated from {PATH}. -/",
                f"def genPqsFromConfig {{π : Type}} (pctEncode : List Nat → {B} → {B}) (pqParse : {B} → Option π) (pqPath : π → {B}) (pqQuery : π → Option ({B}))",
                f"    (parseQuery : {B} → List ({B} × {B})) (btreeCollect : List ({B} × {B}) → List ({B} × {B})) (toLowercase : {B} → {B})",
                f"    (ignorePathAndQueryCase ignoreMarketingQueryParams passMarketingQueryParamsToTarget : Bool) (marketingQueryParams : List ({B}))",
                f"    ({_camel(arg)} : {B}) : {B} × Option ({B}) × Option ({B}) × {B} :="] + body
        out += [""] + _sorted_query(read, fail)
        return out
    except _F as ex:
        fail(str(ex))
