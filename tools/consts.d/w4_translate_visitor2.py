"""W14: section `w4_translate_visitor2` - `leave` and `new` of the three HTML body visitors (src/filter/html_body_action/
body_append.rs, body_prepend.rs, body_replace.rs) and the three constructor calls of `HtmlBodyVisitor::new` (mod.rs),
translated from the source on every run.  Own section, so that a failure / change only concerns the properties that use
these definitions (C04 / C15 / C03 through Props/C04gen2.lean).

The translation is done by the translator of w4_translate.py (W4c), loaded here as a PRIVATE module instance and extended
in this file only (the other sections use their own, unextended instance; nothing here can change their output):

  lexer        `?` is a token
  parser       `let x = if C { S..; E1 } else { E2 };`  with E2 a literal without side effects (`None`, `true`, `false`, an
               integer) is read as  `let mut x = E2; if C { S..; x = E1; }`  (E2 has no effect, so evaluating it first changes
               nothing); any other `if` used as a value fails closed
               `E as i32`                        -> the node ("cast", E, "i32")
               `E?`                              -> the node ("try", E)
               `Ok(E)`                           -> the node ("ok", E)
               `f(args)` (a free function)       -> a call of one of the ABSTRACT functions below (anything else fails closed)
  translation  ("cast", E, "i32")  ->  `genAsI32 E` : Int   (two's complement truncation of a usize to 32 bits; defined
                                        in the preamble of this section - the code is modelled as it IS; Props/C04gen2.lean
                                        states `tree.length < 2^31` where it needs `position as i32 = position`)
               ("ok", E)           ->  E      (`leave` of append / prepend returns `Result<..>`: the value is the `Ok` payload)
               ("try", E)          ->  E      ONLY when E is the call of `append_child` / `prepend_child`, see below

PARAMETERS of the generated `leave`s (abstract functions, exactly as the hand-written model Model/Filter.lean treats them):
  evaluate : List Nat → List Nat → Bool          `evaluate(data.as_str(), selector.as_str())` of mod.rs (scraper)
  appendChild / prependChild : List Nat → List Nat → List Nat
                                                 `append_child(data, child)?` / `prepend_child(data, child)?`, the helpers that
                                                 re-tokenise the buffered element when the selector does NOT match.  Their `Err`
                                                 exit (`?`) is not represented: the hand model's `appendChild tk` / `prependChild tk`
                                                 are total as well, and Rio.C04.visitor_question_marks proves the exit dead on the
                                                 tokenizer model.
Everything else of `leave` is translated: the `next_enter` / `next_leave` computation with its side effect on `position`, the
`is_processing` / `is_buffering` gates, the selector tests, which bytes are returned, the new `position` / `is_buffering`.
`v[i]` is rendered `(v[i]?).getD []`, `opt.as_ref().unwrap()` `opt.getD []`, `position -= 1` the truncating `position - 1`:
Props/C04gen2.lean (`gen_leave_index_in_range`) shows that the defaults / the truncation are never used under the
representation invariant.  The unit-trace blocks are skipped iff they have exactly one of the known shapes (w4_translate.py).

`new`: `genBody*New` takes the arguments of `Body*::new` IN SIGNATURE ORDER and returns the fields of the struct IN
DECLARATION ORDER (a shorthand field `x` is `x: x`; `position: 0` / `is_buffering: false` literals); `genHtmlBodyVisitorNew*`
is the constructor call of `HtmlBodyVisitor::new` (mod.rs) for each action string: the fields of the `HTMLBodyFilter` it passes,
in call order, applied to `genBody*New`.  Swapping two `String` arguments anywhere changes the generated text.
Fail closed on: any statement / expression outside the subset, an unknown struct field, a parameter type other than the
modelled ones, an argument expression of the constructor call other than `filter.f`, `filter.f.clone()`,
`filter.inner_value.unwrap_or(filter.value)`.
"""
import importlib.util
import os
import re


def _core():
    path = os.path.join(os.path.dirname(os.path.abspath(__file__)), "w4_translate.py")
    spec = importlib.util.spec_from_file_location("consts_w4_translate_core_visitor2", path)
    mod = importlib.util.module_from_spec(spec)
    spec.loader.exec_module(mod)
    return mod


B = "List Nat"
_ABSTRACT = {  # rust free function -> (lean parameter, [result type], number of arguments)
    "evaluate": ("evaluate", ["Bool"], 2),
    "append_child": ("appendChild", [B], 2),
    "prepend_child": ("prependChild", [B], 2),
}
_TRY_OK = ("append_child", "prepend_child")


def _mentions(e, name):
    """does the expression AST mention the variable?"""
    if isinstance(e, tuple):
        if len(e) >= 2 and e[0] == "var" and e[1] == name:
            return True
        return any(_mentions(x, name) for x in e)
    if isinstance(e, list):
        return any(_mentions(x, name) for x in e)
    return False


def _extend(core):
    """extend the PRIVATE instance of the translator (lexer, parser, translation)"""
    old = "[!.,;:(){}\\[\\]&=<>*|+-]"
    if old not in core._TOKEN.pattern:
        raise core._Fail("w4_translate.py: the operator class of the lexer is not the expected one")
    core._TOKEN = re.compile(core._TOKEN.pattern.replace(old, "[!.,;:(){}\\[\\]&=<>*|+?-]"), re.X)

    class Parser2(core._Parser):
        def block(self):
            self.eat("{")
            stmts, tail = [], None
            while not self.at("}"):
                st = self.statement()
                if st[0] == "tail":
                    if not self.at("}"):
                        self.fail("expression without `;` in the middle of a block")
                    tail = st[1]
                elif st[0] == "multi":
                    stmts.extend(st[1])
                else:
                    stmts.append(st)
            self.eat("}")
            return stmts, tail

        def statement(self):
            if self.at("let") and self.peek(1).kind == "id" and self.at("=", 2) and self.at("if", 3):
                line = self.peek().line
                self.eat("let")
                name = self.ident()
                self.eat("=")
                node = self.if_chain()
                self.eat(";")
                _, cond, then, other, iline = node
                if other is None or other[0] or other[1] is None or then[1] is None:
                    self.fail("`let x = if ..` must have the form `if C { ..; E1 } else { LITERAL }`", self.t[self.i - 1])
                lit = other[1]
                pure = lit[0] in ("bool", "int") or (lit[0] == "var" and lit[1] == "None")
                if not pure:
                    self.fail("`let x = if .. else { E }`: E must be a literal without side effects", self.t[self.i - 1])
                if _mentions(cond, name):
                    self.fail("`let x = if C ..`: C mentions x", self.t[self.i - 1])
                assign = ("assign", ("var", name, iline), "=", then[1], iline)
                return ("multi", [("let", name, True, lit, line), ("if", cond, (then[0] + [assign], None), None, iline)])
            return super().statement()

        def unary(self, ns):
            e = super().unary(ns)
            while self.at("as"):
                line = self.eat("as").line
                ty = self.ident()
                if ty != "i32":
                    self.fail(f"cast `as {ty}` is not in the subset")
                e = ("cast", e, ty, line)
            return e

        def postfix(self, ns):
            e = super().postfix(ns)
            while self.at("?"):
                line = self.eat("?").line
                e = ("try", e, line)
            return e

        def primary(self, ns):
            tok = self.peek()
            if tok.kind == "id" and self.at("(", 1) and not self.at("::", 1):
                if tok.text == "Ok":
                    self.i += 1
                    self.eat("(")
                    inner = self.expr()
                    self.eat(")")
                    return ("ok", inner, tok.line)
                if tok.text in _ABSTRACT:
                    self.i += 1
                    self.eat("(")
                    args = []
                    while not self.at(")"):
                        args.append(self.expr())
                        if self.at(","):
                            self.eat(",")
                    self.eat(")")
                    if len(args) != _ABSTRACT[tok.text][2]:
                        self.fail(f"`{tok.text}(..)` no longer has {_ABSTRACT[tok.text][2]} arguments")
                    return ("pathcallargs", tok.text, args, tok.line)
                if tok.text != "Some":
                    self.fail(f"call of the free function `{tok.text}` is not in the subset")
            return super().primary(ns)

    class Tr2(core._Tr):
        def _try_inner(self, e):
            if e[1][0] != "pathcallargs" or e[1][1] not in _TRY_OK:
                self.fail("`?` only on the call of `append_child` / `prepend_child`", e[2])
            return e[1]

        def infer(self, e, name=None):
            if e[0] == "ok":
                return self.infer(e[1], name)
            if e[0] == "try":
                return self.infer(self._try_inner(e), name)
            if e[0] == "cast":
                if self.infer(e[1]) != "Nat":
                    self.fail("`as i32` only on a modelled `usize`", e[3])
                return "Int"
            return super().infer(e, name)

        def expr(self, e):
            if e[0] == "ok":
                return self.expr(e[1])
            if e[0] == "try":
                return self.expr(self._try_inner(e))
            if e[0] == "cast":
                if self.infer(e[1]) != "Nat":
                    self.fail("`as i32` only on a modelled `usize`", e[3])
                return f"genAsI32 {self.atom(e[1])}"
            return super().expr(e)

    core._Parser = Parser2
    core._Tr = Tr2


_STRUCTS = [("append", "BodyAppend", "genBodyAppend", False), ("prepend", "BodyPrepend", "genBodyPrepend", True),
            ("replace", "BodyReplace", "genBodyReplace", True)]
_FIELD_TYPES = {"Vec<String>": f"List ({B})", "usize": "Nat", "Option<String>": f"Option ({B})", "String": B, "bool": "Bool"}


def _leave(core, read, fail, mod, struct, lean, has_buf):
    path = f"src/filter/html_body_action/body_{mod}.rs"
    src = read(path)
    ret = r"\(Option<String>, Option<String>, String\)"
    hdr, names = core._sig(src, path, r"pub fn leave\(&mut self, (?:mut )?(\w+): String, (?:mut )?(\w+): Option<&mut UnitTrace>\) "
                           r"-> (?:Result<" + ret + r">|" + ret + r") \{", fail)
    data, ut = names[0], names[1]
    sf = {"element_tree": "elementTree", "position": "position", "css_selector": "cssSelector", "content": "content"}
    sft = {"element_tree": f"List ({B})", "position": "Nat", "css_selector": f"Option ({B})", "content": B}
    outs = ["position"]
    if has_buf:
        sf["is_buffering"], sft["is_buffering"] = "isBuffering", "Bool"
        outs.append("is_buffering")
    helper = {"append": [("appendChild", f"{B} → {B} → {B}")], "prepend": [("prependChild", f"{B} → {B} → {B}")], "replace": []}[mod]
    cfg = {
        "name": lean + "Leave", "params": [("evaluate", f"{B} → {B} → Bool")] + helper,
        "args": {data: "data"}, "mutable_args": {data: B}, "trace_arg": ut,
        "arg_types": [(sf[f], sft[f]) for f in sf] + [("data", B)],
        "self_fields": sf, "self_field_types": sft, "self_out": outs,
        "path_calls": {k: v for k, v in _ABSTRACT.items() if k == "evaluate" or v[0] in [h[0] for h in helper]},
        "none_type": f"Option ({B})", "unwrap_default": {f"Option ({B})": "[]"}, "index_default": {f"List ({B})": "[]"},
        "result_type": f"(Option ({B}) × Option ({B}) × {B}) × " + ("Nat × Bool" if has_buf else "Nat"),
        "return": (lambda tr, v: f"({v}, position, isBuffering)") if has_buf else (lambda tr, v: f"({v}, position)"),
    }
    parser, stmts, tail = core._translate(read, fail, path, hdr, cfg)
    return core._emit(cfg, parser, stmts, tail, fail,
                      f"`{struct}::leave`: ((next_enter, next_leave, data), new `position`" + (", new `is_buffering`" if has_buf else "") +
                      "); strings as bytes; `evaluate`" + (f" / `{helper[0][0]}` are parameters" if helper else " is a parameter") + " (the selector oracle"
                      + (", the re-tokenising helper whose `?` exit is not represented" if helper else "") + "); `v[i]` is rendered "
                      "`(v[i]?).getD []`, `opt.as_ref().unwrap()` `opt.getD []`, `position -= 1` the truncating `position - 1`, `position as i32` "
                      f"`genAsI32 position` - Props/C04gen2.lean shows that under the representation invariant no default / truncation is used; translated from {path}.")


def _new(read, fail, mod, struct, lean):
    """`Body*::new`: arguments in signature order -> fields in declaration order"""
    path = f"src/filter/html_body_action/body_{mod}.rs"
    src = read(path)
    m = re.search(r"pub struct " + struct + r" \{(.*?)\n\}", src, re.S)
    if not m:
        fail(f"{path}: `pub struct {struct}` not found")
    fields = []
    for item in m.group(1).split(","):
        item = item.strip()
        if not item:
            continue
        fm = re.fullmatch(r"(\w+): ([\w<>]+)", item)
        if not fm or fm.group(2) not in _FIELD_TYPES:
            fail(f"{path}: field `{item}` of `{struct}` is not of a modelled type")
        fields.append((fm.group(1), _FIELD_TYPES[fm.group(2)]))
    m = re.search(r"pub fn new\((.*?)\) -> " + struct + r" \{\s*" + struct + r" \{(.*?)\}\s*\}", src, re.S)
    if not m:
        fail(f"{path}: `{struct}::new` is no longer a single struct literal")
    params = []
    for item in m.group(1).split(","):
        item = item.strip()
        if not item:
            continue
        pm = re.fullmatch(r"(\w+): ([\w<>]+)", item)
        if not pm or pm.group(2) not in _FIELD_TYPES:
            fail(f"{path}: parameter `{item}` of `{struct}::new` is not of a modelled type")
        params.append((pm.group(1), _FIELD_TYPES[pm.group(2)]))
    pnames = [p for p, _ in params]
    if len(set(pnames)) != len(pnames):
        fail(f"{path}: duplicate parameter names in `{struct}::new`")
    canon = {p: f"a{i + 1}" for i, p in enumerate(pnames)}          # parameter names are free
    init = {}
    for item in m.group(2).split(","):
        item = item.strip()
        if not item:
            continue
        im = re.fullmatch(r"(\w+)(?:: (\w+))?", item)
        if not im:
            fail(f"{path}: field initialiser `{item}` of `{struct}::new` is not in the subset")
        f, v = im.group(1), im.group(2) or im.group(1)
        if f in init:
            fail(f"{path}: field `{f}` initialised twice")
        if v in canon:
            init[f] = (canon[v], dict(params)[v])
        elif v in ("true", "false"):
            init[f] = (v, "Bool")
        elif v.isdigit():
            init[f] = (v, "Nat")
        else:
            fail(f"{path}: initialiser `{item}` of `{struct}::new` is neither a parameter nor a literal")
    if sorted(init) != sorted(f for f, _ in fields):
        fail(f"{path}: `{struct}::new` does not initialise exactly the fields of the struct")
    for f, t in fields:
        if init[f][1] != t:
            fail(f"{path}: `{struct}::new` initialises `{f}` with a value of another type")
    par = " ".join(f"({canon[p]} : {t})" for p, t in params)
    rty = " × ".join(t if " " not in t else f"({t})" for _, t in fields)
    val = ", ".join(init[f][0] for f, _ in fields)
    doc = (f"`{struct}::new`: arguments in SIGNATURE order ({', '.join(t for _, t in params)}) -> the fields in DECLARATION order "
           f"({', '.join(f for f, _ in fields)}); translated from {path}.")
    return (["set_option linter.unusedVariables false in", f"/-- {doc} -/", f"def {lean}New {par} : {rty} :=", f"  ({val})"],
            [t for _, t in params])


def _visitor_new(read, fail, ptypes):
    """the three constructor calls of `HtmlBodyVisitor::new` (mod.rs)"""
    path = "src/filter/html_body_action/mod.rs"
    src = read(path)
    hf = re.search(r"pub struct HTMLBodyFilter \{(.*?)\n\}", read("src/api/body_filter.rs"), re.S)
    if not hf:
        fail("src/api/body_filter.rs: `pub struct HTMLBodyFilter` not found")
    ftypes = {}
    for fm in re.finditer(r"pub (\w+): ([\w<>]+),", hf.group(1)):
        ftypes[fm.group(1)] = fm.group(2)
    want = {"action": "String", "value": "String", "inner_value": "Option<String>", "element_tree": "Vec<String>",
            "css_selector": "Option<String>", "id": "Option<String>", "target_hash": "Option<String>"}
    if ftypes != want:
        fail(f"src/api/body_filter.rs: `HTMLBodyFilter` no longer has the modelled fields ({sorted(ftypes.items())})")
    m = re.search(r"pub fn new\((\w+): HTMLBodyFilter\) -> Option<HtmlBodyVisitor> \{\s*if \1\.element_tree\.is_empty\(\) \{\s*return None;\s*\}\s*"
                  r"match \1\.action\.as_str\(\) \{(.*?)\n\s*_ => None,\s*\}\s*\}", src, re.S)
    if not m:
        fail(f"{path}: `HtmlBodyVisitor::new` no longer has the shape `if element_tree.is_empty() {{ return None; }} match action {{ .. _ => None }}`")
    fv = m.group(1)
    arms = re.findall(r'"(\w+)" => Some\(HtmlBodyVisitor::(\w+)\((\w+)::new\((.*?)\)\)\),', m.group(2), re.S)
    rest = re.sub(r'"(\w+)" => Some\(HtmlBodyVisitor::(\w+)\((\w+)::new\((.*?)\)\)\),', "", m.group(2), flags=re.S).strip()
    if rest or [(a[1], a[2]) for a in arms] != [("Append", "BodyAppend"), ("Prepend", "BodyPrepend"), ("Replace", "BodyReplace")]:
        fail(f"{path}: the arms of `HtmlBodyVisitor::new` are not the three modelled constructor calls")
    lean_f = {"value": "value", "inner_value": "innerValue", "element_tree": "elementTree", "css_selector": "cssSelector",
              "id": "id", "target_hash": "targetHash"}
    out = []
    for action, variant, struct, argtext in arms:
        args = []
        for item in argtext.split(",\n"):
            item = item.strip().rstrip(",").strip()
            if not item:
                continue
            am = re.fullmatch(re.escape(fv) + r"\.(\w+)(\.clone\(\))?", item)
            um = re.fullmatch(re.escape(fv) + r"\.inner_value\.unwrap_or\(" + re.escape(fv) + r"\.value(?:\.clone\(\))?\)", item)
            if um:
                args.append(("(innerValue.getD value)", B))
            elif am and am.group(1) in lean_f:
                args.append((lean_f[am.group(1)], _FIELD_TYPES[want[am.group(1)]]))
            else:
                fail(f"{path}: argument `{item}` of `{struct}::new(..)` is not in the subset")
        if [t for _, t in args] != ptypes[struct]:
            fail(f"{path}: the arguments of `{struct}::new(..)` do not have the parameter types of `{struct}::new`")
        doc = (f"the constructor call of `HtmlBodyVisitor::new` for the action \"{action}\": `{struct}::new` applied to the fields of the "
               f"`HTMLBodyFilter` in CALL order; translated from {path}.")
        out += ["", "set_option linter.unusedVariables false in", f"/-- {doc} -/",
                f"def genHtmlBodyVisitorNew{variant} (elementTree : List ({B})) (cssSelector : Option ({B})) (value : {B}) "
                f"(innerValue : Option ({B})) (id targetHash : Option ({B})) :=",
                f"  genBody{variant}New " + " ".join(a for a, _ in args),
                f"def genHtmlBodyVisitorAction{variant} : String := \"{action}\""]
    return out


def extract(read, fail, lean_str, lean_list):
    core = _core()
    try:
        _extend(core)
    except core._Fail as e:
        fail(str(e))
    out = ["-- Rust -> Lean translation: `leave` / `new` of the three HTML body visitors and the constructor calls of `HtmlBodyVisitor::new` "
           "(tools/consts.d/w4_translate_visitor2.py, translator in w4_translate.py)",
           "",
           "/-- Rust `x as i32` for `x : usize`: truncation to the low 32 bits, read in two's complement. -/",
           "def genAsI32 (n : Nat) : Int :=",
           "  if n % 4294967296 < 2147483648 then ((n % 4294967296 : Nat) : Int) else ((n % 4294967296 : Nat) : Int) - 4294967296"]
    ptypes = {}
    for mod, struct, lean, has_buf in _STRUCTS:
        out.append("")
        out += _leave(core, read, fail, mod, struct, lean, has_buf)
        out.append("")
        lines, pt = _new(read, fail, mod, struct, lean)
        out += lines
        ptypes[struct] = pt
    out += _visitor_new(read, fail, ptypes)
    return out
