"""C02 (clone isolation): a STATIC ownership tie for "router states are values" (review A, C02-2).

The Lean model of the router is a value: `clone` needs no operation, a derived router cannot alias the one it was
derived from.  In the code that is an ownership fact: `Router<T>` derives `Clone`, the matchers derive `Clone`, the
radix-tree items implement it by hand, and the only things two clones SHARE are behind `Arc`.  Sharing is harmless
iff nothing reachable from `Router<T>` can be mutated THROUGH a shared pointer.  This plugin lists, in

    src/router/**, src/regex_radix_tree/**, src/regex.rs, src/marker/**, src/api/rule.rs    (test modules stripped)

  fields     every line of a struct / enum definition that mentions Arc< Rc< RefCell Cell< RwLock Mutex Atomic*
             OnceCell OnceLock UnsafeCell  (what a value of the type HOLDS that is shared or interiorly mutable)
  interior   every line anywhere that mentions interior mutability or a way to write through a shared pointer:
             RefCell Cell< RwLock Mutex Atomic* OnceCell OnceLock UnsafeCell `static mut` lazy_static thread_local
             unsafe Arc::get_mut Arc::make_mut get_mut_unchecked transmute `ptr::` .write() .borrow_mut() .lock()
             .set( on a Cell, Rc<
  clone      every hand-written `impl Clone for X` with its body

and compares the three lists with the committed whitelist tools/consts.d/w2_ownership_whitelist.json (one-line
justification per entry).  Any entry not in the whitelist, any whitelisted entry that disappeared, any changed
`clone` body: the extraction FAILS CLOSED (./check then reports C02's tie as broken until the whitelist – and the
argument in Props/C02.lean `clone_isolation_ownership_tie` – are reviewed).  Emitted: the `interior` list (the
only ways shared state can change) and the number of shared fields; Props/C02.lean pins them.
"""
import json
import os
import re

SCOPE_DIRS = ["src/router", "src/regex_radix_tree", "src/marker"]
SCOPE_FILES = ["src/regex.rs", "src/api/rule.rs"]
HOLD = r"\b(?:Arc|Rc)\s*<|\bRefCell\b|\bCell\s*<|\bRwLock\b|\bMutex\b|\bAtomic[A-Z]\w*|\bOnceCell\b|\bOnceLock\b|\bUnsafeCell\b"
INTERIOR = (r"\bRefCell\b|\bCell\s*<|\bRwLock\b|\bMutex\b|\bAtomic[A-Z]\w*|\bOnceCell\b|\bOnceLock\b|\bUnsafeCell\b|"
            r"\bstatic\s+mut\b|\blazy_static\b|\bthread_local\b|\bunsafe\b|Arc::get_mut|Arc::make_mut|get_mut_unchecked|"
            r"\btransmute\b|\bptr::|\.write\(\)|\.borrow_mut\(\)|\.lock\(\)|\bRc\s*<|\bRc::")


def _files():
    repo = os.environ.get("RIO_REPO", "/repo")
    out = list(SCOPE_FILES)
    for d in SCOPE_DIRS:
        for root, _, names in os.walk(os.path.join(repo, d)):
            for n in names:
                if n.endswith(".rs"):
                    out.append(os.path.relpath(os.path.join(root, n), repo))
    return sorted(set(out))


def _strip(text):
    # test modules (always last in these files), block and line comments
    i = text.find("#[cfg(test)]")
    if i >= 0:
        text = text[:i]
    text = re.sub(r"/\*.*?\*/", "", text, flags=re.S)
    return "\n".join(re.sub(r"//.*", "", l) for l in text.split("\n"))


def _norm(s):
    return re.sub(r"\s+", " ", s).strip()


def _body(text, start):
    """text of the brace block opening at or after `start` (None for `struct X;` / tuple structs before any brace)"""
    i = text.find("{", start)
    semi = text.find(";", start)
    if 0 <= semi and (i < 0 or semi < i):
        return ""            # unit struct
    if i < 0:
        return None
    depth, j = 0, i
    while j < len(text):
        if text[j] == "{":
            depth += 1
        elif text[j] == "}":
            depth -= 1
            if depth == 0:
                return text[i + 1:j]
        j += 1
    return None


def scan(read, fail):
    fields, interior, clones = [], [], []
    for rel in _files():
        text = _strip(read(rel))
        for m in re.finditer(r"^\s*(?:pub(?:\([a-z]+\))?\s+)?(struct|enum)\s+(\w+)", text, re.M):
            name = m.group(2)
            # tuple struct: `struct X(...)` – take the line up to `;`
            rest = text[m.end():]
            if re.match(r"\s*(<[^>{;]*>)?\s*\(", rest):
                decl = rest[:rest.find(";") + 1] if ";" in rest else rest[:200]
                if re.search(HOLD, decl):
                    fields.append(f"{rel}: {name}: {_norm(decl)}")
                continue
            body = _body(text, m.end())
            if body is None:
                fail(f"{rel}: cannot find the body of {m.group(1)} {name}")
            for line in body.split("\n"):
                if re.search(HOLD, line):
                    fields.append(f"{rel}: {name}: {_norm(line)}")
        for line in text.split("\n"):
            if re.search(INTERIOR, line):
                interior.append(f"{rel}: {_norm(line)}")
        for m in re.finditer(r"impl\s*(?:<[^>]*>)?\s*Clone\s+for\s+(\w+)", text):
            body = _body(text, m.end())
            if body is None:
                fail(f"{rel}: cannot find the body of impl Clone for {m.group(1)}")
            clones.append(f"{rel}: {m.group(1)}: {_norm(body)}")
    return sorted(fields), sorted(interior), sorted(clones)


def extract(read, fail, lean_str, lean_list):
    fields, interior, clones = scan(read, fail)
    wl_path = os.path.join(os.path.dirname(os.path.abspath(__file__)), "w2_ownership_whitelist.json")
    wl = json.load(open(wl_path))
    for key, got in (("fields", fields), ("interior", interior), ("clone", clones)):
        want = sorted(wl[key].keys())
        new = [x for x in got if x not in want]
        gone = [x for x in want if x not in got]
        dup = [x for x in set(got) if got.count(x) != wl[key][x].get("count", 1)] if not new and not gone else []
        if new or gone or dup:
            fail("ownership tie (clone isolation): the `" + key + "` list of the router's types differs from tools/consts.d/"
                 "w2_ownership_whitelist.json – new: " + json.dumps(new)[:600] + " gone: " + json.dumps(gone)[:600]
                 + (" occurrence count changed: " + json.dumps(dup)[:300] if dup else ""))
        for k, v in wl[key].items():
            if not v.get("why"):
                fail("whitelist entry without justification: " + k)
    uniq_interior = sorted(set(interior))
    return ["/-- every place in the router's sources that mentions interior mutability or a write through a shared pointer"
            " (tools/consts.d/w2_ownership.py; whitelisted with a justification each) -/",
            "def routerInteriorMutability : List String := " + lean_list(uniq_interior),
            "/-- number of struct / enum field lines of the router's types that hold an `Arc` (shared by `Clone`) -/",
            f"def routerSharedFieldLines : Nat := {len(fields)}",
            "/-- the hand-written `impl Clone` of the router's types (all field-wise) -/",
            "def routerManualClones : List String := " + lean_list(sorted(set(c.split(': ')[1] for c in clones)))]


if __name__ == "__main__":
    import sys
    repo = os.environ.get("RIO_REPO", "/repo")

    def _fail(msg):
        raise SystemExit("FAIL " + msg)
    f, i, c = scan(lambda rel: open(os.path.join(repo, rel)).read(), _fail)
    print(json.dumps({"fields": f, "interior": i, "clone": c}, indent=1))
